// C12 (d) -- error texts of the character-level parsers.
// For every text, every offset j into it (j characters are consumed first through
// get_char), every literal c and every non-empty character set S over the alphabet, run
//   P1  literal{c}.parse / char_set{S}.parse directly on the stream
//   P2  fcppt::parse::parse(parser, stream)                 (documented entry point)
//   S1  skipper::run(skipper::literal{c} / skipper::char_set{S}, stream)
//   S2  fcppt::parse::phrase_parse(char_, stream, skipper)   (documented entry point: skipper runs first)
// Reference: the parser reads a_{j+1}.  If it matches: success (literal: unit, char_set:
// the character).  If not: failure whose text is
//   "Line l:c: Expected <what>, got <a_{j+1}>"
// where l:c is the model location of index j+1, i.e. immediately after the offending
// character (statement).  <what> is the character for literal; for char_set only "names
// every element of S" is required (the set is unordered).  At end of input the documented
// text of get_char_error is "EOF".  Afterwards the stream position is the model position of
// the index after the last character consumed.
// The location in the message is checked twice: the numbers are read back from the text (plain decimal, no
// padding) and compared as integers with the model, and the rendered text is compared with the reference
// formatting "Line " + std::to_string(line) + ":" + std::to_string(column) + ": Expected ".
// Shards: errtext (all texts up to length 4/6, every offset, every literal/set), errgrid (the offending character
// at every line L / column C with L + C <= 13, i.e. every location reachable inside the stated bound of 12
// characters), errloc (reported line and column over a lattice of values up to 65536 around which the decimal
// rendering changes size; also operator<< of fcppt::parse::location).
// Only these four parsers go through fcppt::parse::detail::expected / print a location (grep over libs/parse).
#include "C12_common.hpp"

#include <fcppt/unit.hpp>
#include <fcppt/parse/basic_char.hpp>
#include <fcppt/parse/basic_char_set.hpp>
#include <fcppt/parse/basic_literal.hpp>
#include <fcppt/parse/char.hpp>
#include <fcppt/parse/char_set.hpp>
#include <fcppt/parse/error.hpp>
#include <fcppt/parse/literal.hpp>
#include <fcppt/parse/parse.hpp>
#include <fcppt/parse/phrase_parse.hpp>
#include <fcppt/parse/result.hpp>
#include <fcppt/parse/skipper/basic_char_set.hpp>
#include <fcppt/parse/skipper/basic_literal.hpp>
#include <fcppt/parse/skipper/char_set.hpp>
#include <fcppt/parse/skipper/epsilon.hpp>
#include <fcppt/parse/skipper/literal.hpp>
#include <fcppt/parse/skipper/run.hpp>

#include <fcppt/parse/location_output.hpp>

#include <sstream>
#include <type_traits>

namespace
{
using namespace c12;

// the named char aliases are used for char, the basic_ templates for wchar_t
template <class Ch> struct types
{
  using literal = fcppt::parse::basic_literal<Ch>;
  using char_set = fcppt::parse::basic_char_set<Ch>;
  using sk_literal = fcppt::parse::skipper::basic_literal<Ch>;
  using sk_char_set = fcppt::parse::skipper::basic_char_set<Ch>;
};
template <> struct types<char>
{
  using literal = fcppt::parse::literal;
  using char_set = fcppt::parse::char_set;
  using sk_literal = fcppt::parse::skipper::literal;
  using sk_char_set = fcppt::parse::skipper::char_set;
};

template <class Ch> struct ctx
{
  std::basic_string<Ch> const &text;
  std::size_t j;         // offset at which the parser runs
  int lit;               // >= 0: literal letter number; -1: set
  unsigned mask;         // set members (bit d = letter d)
  std::string t = std::string("<") + cname<Ch>::v + ">";

  bool matches(Ch c) const
  {
    for (int d = 0; d < 4; ++d)
      if ((lit >= 0 ? d == lit : ((mask >> d) & 1U) != 0) && c == letter<Ch>(0, d))
        return true;
    return false;
  }
  std::string what() const
  {
    if (lit >= 0)
      return "literal{'" + show_char(letter<Ch>(0, lit)) + "'}";
    std::string r = "char_set{";
    for (int d = 0; d < 4; ++d)
      if ((mask >> d) & 1U)
        r += "'" + show_char(letter<Ch>(0, d)) + "'";
    return r + "}";
  }

  // check a failure text for the parser run at offset j
  void check_message(std::string const &fam, std::basic_string<Ch> const &msg, std::size_t at) const
  {
    if (at >= text.size())
    {
      VRT_CHECK(msg == widen<Ch>("EOF"), fam + t + ":eof_message", "at end of %s: error text '%s', documented 'EOF'", show_text(text).c_str(),
                narrow_msg(msg).c_str());
      return;
    }
    check_located(fam, msg, model_loc(text, at + 1), text[at], at);
  }

  // strict reading of "Line <l>:<c>: " -- decimal digits without sign, padding or leading zeros
  static bool read_location(std::basic_string<Ch> const &msg, std::uint64_t &l, std::uint64_t &c)
  {
    std::basic_string<Ch> const head = widen<Ch>("Line ");
    if (msg.compare(0, head.size(), head) != 0)
      return false;
    std::size_t p = head.size();
    auto number = [&](std::uint64_t &out) {
      std::size_t const b = p;
      out = 0;
      while (p < msg.size() && msg[p] >= Ch('0') && msg[p] <= Ch('9') && p - b < 19)
        out = out * 10 + static_cast<std::uint64_t>(msg[p++] - Ch('0'));
      return p > b && (msg[b] != Ch('0') || p - b == 1);
    };
    if (!number(l) || p >= msg.size() || msg[p++] != Ch(':') || !number(c))
      return false;
    return p + 1 < msg.size() && msg[p] == Ch(':') && msg[p + 1] == Ch(' ');
  }

  // m: the model location right after the offending character `got` (which sits at offset `at`)
  void check_located(std::string const &fam, std::basic_string<Ch> const &msg, loc const m, Ch const got, std::size_t at) const
  {
    // (i) the numbers in the message, read back as integers
    std::uint64_t ml = 0, mc = 0;
    bool const readable = read_location(msg, ml, mc);
    VRT_CHECK(readable, fam + t + ":location_format", "%s at offset %zu of %s (model location afterwards %llu:%llu): error text '%s' does not begin 'Line <line>:<column>: ' with plain decimal numbers",
              what().c_str(), at, show_text(text).c_str(), static_cast<unsigned long long>(m.line), static_cast<unsigned long long>(m.column),
              narrow_msg(msg.substr(0, 80)).c_str());
    if (readable)
      VRT_CHECK(ml == m.line && mc == m.column, fam + t + ":location_value", "%s at offset %zu of %s: the error text says %llu:%llu, the location right after the offending character is %llu:%llu",
                what().c_str(), at, show_text(text).c_str(), static_cast<unsigned long long>(ml), static_cast<unsigned long long>(mc),
                static_cast<unsigned long long>(m.line), static_cast<unsigned long long>(m.column));
    // (ii) the rendered text against the reference formatting (std::to_string)
    std::basic_string<Ch> const prefix =
        widen<Ch>("Line " + std::to_string(m.line) + ":" + std::to_string(m.column) + ": Expected ");
    std::basic_string<Ch> const suffix = widen<Ch>(", got ") + got;
    bool const pre = msg.size() >= prefix.size() && msg.compare(0, prefix.size(), prefix) == 0;
    VRT_CHECK(pre, fam + t + ":location", "%s at offset %zu of %s: error text '%s' does not start with '%s' (location right after the offending character)",
              what().c_str(), at, show_text(text).c_str(), narrow_msg(msg.substr(0, 80)).c_str(), narrow_msg(prefix).c_str());
    bool const suf = msg.size() >= suffix.size() && msg.compare(msg.size() - suffix.size(), suffix.size(), suffix) == 0;
    VRT_CHECK(suf, fam + t + ":got", "%s at offset %zu of %s: error text '%s' does not end with '%s'", what().c_str(), at, show_text(text).c_str(),
              narrow_msg(msg.substr(0, 80)).c_str(), narrow_msg(suffix).c_str());
    if (pre && suf && msg.size() >= prefix.size() + suffix.size())
    {
      std::basic_string<Ch> const mid = msg.substr(prefix.size(), msg.size() - prefix.size() - suffix.size());
      if (lit >= 0)
        VRT_CHECK(mid == std::basic_string<Ch>(1, letter<Ch>(0, lit)), fam + t + ":expected", "%s: error text '%s' names '%s' as expected", what().c_str(),
                  narrow_msg(msg).c_str(), narrow_msg(mid).c_str());
      else
        for (int d = 0; d < 4; ++d)
          if ((mask >> d) & 1U)
            VRT_CHECK(mid.find(letter<Ch>(0, d)) != std::basic_string<Ch>::npos, fam + t + ":expected", "%s: error text '%s' does not name '%s'",
                      what().c_str(), narrow_msg(msg).c_str(), show_char(letter<Ch>(0, d)).c_str());
    }
  }

  void check_position_after(std::string const &fam, string_world<Ch> &w, std::size_t consumed) const
  {
    position<Ch> const p = fcppt::parse::get_position(w.ref());
    std::string const d = position_diff(p, text, consumed);
    VRT_CHECK(d.empty(), fam + t + ":position_after", "%s at offset %zu of %s: afterwards %s", what().c_str(), j, show_text(text).c_str(), d.c_str());
  }
};

template <class Ch> typename fcppt::parse::basic_char_set_container<Ch> make_set(unsigned mask)
{
  typename fcppt::parse::basic_char_set_container<Ch> s;
  for (int d = 0; d < 4; ++d)
    if ((mask >> d) & 1U)
      s.insert(letter<Ch>(0, d));
  return s;
}

template <class Ch> void advance(string_world<Ch> &w, std::basic_string<Ch> const &text, std::size_t j)
{
  for (std::size_t i = 0; i < j; ++i)
  {
    fcppt::optional::object<Ch> const c = fcppt::parse::get_char(w.ref());
    VRT_CHECK(c.has_value() && c.get_unsafe() == text[i], std::string("get_char<") + cname<Ch>::v + ">:wrong_char", "while advancing to offset %zu", j);
  }
}

// parsers: Result is fcppt::unit (literal) or Ch (char_set)
template <class Ch, class Parser> void run_parser(ctx<Ch> const &c, Parser const &parser, bool via_parse)
{
  std::string const fam = std::string(c.lit >= 0 ? "literal" : "char_set") + (via_parse ? ":parse" : ":direct");
  string_world<Ch> w(c.text);
  advance(w, c.text, c.j);
  using result = fcppt::parse::result<Ch, typename Parser::result_type>;
  result const r = via_parse ? fcppt::parse::parse(parser, w.rs.st) : parser.parse(w.ref(), fcppt::parse::skipper::epsilon());
  std::size_t const n = c.text.size();
  bool const expect_success = c.j < n && c.matches(c.text[c.j]);
  VRT_CHECK(r.has_success() == expect_success, fam + c.t + ":verdict", "%s at offset %zu of %s: %s, expected %s", c.what().c_str(), c.j,
            show_text(c.text).c_str(), r.has_success() ? "success" : "failure", expect_success ? "success" : "failure");
  if (r.has_success())
  {
    if constexpr (std::is_same_v<typename Parser::result_type, Ch>)
      VRT_CHECK(c.j < n && r.get_success_unsafe() == c.text[c.j], fam + c.t + ":value", "%s returned '%s'", c.what().c_str(),
                show_char(r.get_success_unsafe()).c_str());
  }
  else
  {
    VRT_CHECK(!r.get_failure_unsafe().is_fatal(), fam + c.t + ":fatal", "%s: a plain mismatch is reported as fatal", c.what().c_str());
    c.check_message(fam, r.get_failure_unsafe().get(), c.j);
  }
  c.check_position_after(fam, w, c.j < n ? c.j + 1 : n);
}

template <class Ch, class Skipper> void run_skipper(ctx<Ch> const &c, Skipper const &skipper, bool via_phrase)
{
  std::string const fam = std::string(c.lit >= 0 ? "skipper::literal" : "skipper::char_set") + (via_phrase ? ":phrase_parse" : ":run");
  string_world<Ch> w(c.text);
  advance(w, c.text, c.j);
  std::size_t const n = c.text.size();
  bool const skip_ok = c.j < n && c.matches(c.text[c.j]);
  if (!via_phrase)
  {
    fcppt::parse::skipper::result<Ch> const r = fcppt::parse::skipper::run(skipper, w.ref());
    VRT_CHECK(r.has_success() == skip_ok, fam + c.t + ":verdict", "%s at offset %zu of %s: %s", c.what().c_str(), c.j, show_text(c.text).c_str(),
              r.has_success() ? "success" : "failure");
    if (r.has_failure())
      c.check_message(fam, r.get_failure_unsafe().get(), c.j);
    c.check_position_after(fam, w, c.j < n ? c.j + 1 : n);
    return;
  }
  // phrase_parse: the skipper runs first, then char_ reads the following character
  fcppt::parse::result<Ch, Ch> const r = fcppt::parse::phrase_parse(fcppt::parse::basic_char<Ch>{}, w.rs.st, skipper);
  bool const expect_success = skip_ok && c.j + 1 < n;
  VRT_CHECK(r.has_success() == expect_success, fam + c.t + ":verdict", "char_ with %s as skipper at offset %zu of %s: %s", c.what().c_str(), c.j,
            show_text(c.text).c_str(), r.has_success() ? "success" : "failure");
  if (r.has_success())
    VRT_CHECK(expect_success && r.get_success_unsafe() == c.text[c.j + 1], fam + c.t + ":value", "char_ returned '%s'",
              show_char(r.get_success_unsafe()).c_str());
  else if (!skip_ok)
    c.check_message(fam, r.get_failure_unsafe().get(), c.j);
  else
    c.check_message(fam, r.get_failure_unsafe().get(), n); // the skipper matched, char_ hit the end: "EOF"
  std::size_t const consumed = c.j >= n ? n : !skip_ok ? c.j + 1 : c.j + 1 < n ? c.j + 2 : n;
  c.check_position_after(fam, w, consumed);
}

template <class Ch> void one(std::basic_string<Ch> const &text, std::size_t j, int lit, unsigned mask, int kind, char const *family = "errtext")
{
  ctx<Ch> c{text, j, lit, mask};
  char const *kinds[] = {"direct", "parse", "skipper::run", "phrase_parse(char_,skipper)"};
  std::string const fn = std::string(family) + "<" + cname<Ch>::v + ">";
  if (!vrt::begin_text(fn.c_str(), c.what() + " via " + kinds[kind] + " at offset " + std::to_string(j) + " of " + show_text(text)))
    return;
  bool const mismatch = j < text.size() && !c.matches(text[j]);
  vrt::nontrivial(mismatch); // an "Expected ..., got ..." text is produced
  vrt::maybe_sample();
  try
  {
    using T = types<Ch>;
    if (lit >= 0)
    {
      Ch const ch = letter<Ch>(0, lit);
      if (kind < 2)
        run_parser<Ch>(c, typename T::literal{ch}, kind == 1);
      else
        run_skipper<Ch>(c, typename T::sk_literal{ch}, kind == 3);
    }
    else
    {
      if (kind < 2)
        run_parser<Ch>(c, typename T::char_set{make_set<Ch>(mask)}, kind == 1);
      else
        run_skipper<Ch>(c, typename T::sk_char_set{make_set<Ch>(mask)}, kind == 3);
    }
  }
  catch (fcppt::parse::detail::exception<Ch> const &e)
  {
    vrt::fail(fn + ":exception", "'" + narrow_msg(e.what()) + "' on a healthy string stream");
  }
}

template <class Ch> void errtext_part(int maxlen, unsigned part, unsigned nparts)
{
  int const ntexts = texts_upto(maxlen);
  for (int no = 0; no < ntexts; ++no)
  {
    if (static_cast<unsigned>(no) % nparts != part)
      continue;
    if (vrt::out_of_time())
      return;
    std::basic_string<Ch> const text = text_by_number<Ch>(0, no);
    for (std::size_t j = 0; j <= text.size(); ++j)
      for (int kind = 0; kind < 4; ++kind)
      {
        for (int lit = 0; lit < 4; ++lit)
          one<Ch>(text, j, lit, 0, kind);
        for (unsigned mask = 1; mask < 16; ++mask)
          one<Ch>(text, j, -1, mask, kind);
      }
  }
}

// ---------------------------------------------------------------- (d1) every location of the stated bound
// The offending character X (each letter of the alphabet) sits at line L, column C: the text is L-1 newlines,
// C-1 times 'a', then X, for all L + C <= 13 (text length <= 12).  Every literal / character set that does not
// contain X, every entry point.  The message must carry L:C+1 (or L+1:1 if X is the newline).
template <class Ch> void errgrid_part(unsigned part, unsigned nparts)
{
  unsigned n = 0;
  for (std::size_t L = 1; L <= 12; ++L)
    for (std::size_t C = 1; L + C <= 13; ++C)
      for (int x = 0; x < 4; ++x)
      {
        if (n++ % nparts != part)
          continue;
        std::basic_string<Ch> text(L - 1, Ch('\n'));
        text.append(C - 1, Ch('a'));
        text += letter<Ch>(0, x);
        std::size_t const j = text.size() - 1;
        for (int kind = 0; kind < 4; ++kind)
        {
          for (int lit = 0; lit < 4; ++lit)
            if (lit != x)
              one<Ch>(text, j, lit, 0, kind, "errgrid");
          for (unsigned mask = 1; mask < 16; ++mask)
            if (((mask >> x) & 1U) == 0)
              one<Ch>(text, j, -1, mask, kind, "errgrid");
        }
      }
}

// ---------------------------------------------------------------- (d2) lattice of large locations
// The *reported* location l:c runs over lattice x lattice (values around which the decimal rendering changes
// size).  c >= 2: text = (l-1) newlines, (c-2) times 'a', offending 'a'.  c == 1 (l >= 2): text = (l-2) newlines,
// `fill` times 'a', offending newline.  Parsers: literal{' '}, char_set{' ','\t'} and their skipper versions, each
// through both entry points, on one stream that is rewound to the saved position before the offending character
// (the first run happens without a rewind).  Also: operator<< of fcppt::parse::location for l:c.
template <class Ch> void lattice_case(std::uint64_t l, std::uint64_t c, std::size_t fill)
{
  std::string const fn = std::string("errloc<") + cname<Ch>::v + ">";
  if (!vrt::begin(fn.c_str(), l, c, fill))
    return;
  vrt::nontrivial(l >= 10 || c >= 10); // a number with more than one digit is rendered
  vrt::maybe_sample();
  std::string const t = std::string("<") + cname<Ch>::v + ">";
  std::basic_string<Ch> text;
  Ch offending = Ch('a');
  if (c >= 2)
  {
    text.assign(static_cast<std::size_t>(l - 1), Ch('\n'));
    text.append(static_cast<std::size_t>(c - 2), Ch('a'));
  }
  else
  {
    text.assign(static_cast<std::size_t>(l - 2), Ch('\n'));
    text.append(fill, Ch('a'));
    offending = Ch('\n');
  }
  text += offending;
  std::size_t const j = text.size() - 1;
  vrt::describe(vrt::fmt("%s: reported location %llu:%llu, text %s", fn.c_str(), static_cast<unsigned long long>(l), static_cast<unsigned long long>(c),
                         show_text(text).c_str()));
  loc const m = model_loc(text, j + 1);
  VRT_CHECK(m.line == l && m.column == c, "harness:lattice_text", "text gives %llu:%llu", static_cast<unsigned long long>(m.line),
            static_cast<unsigned long long>(m.column));
  // operator<< of location (what the documented format of the message is built from)
  {
    std::basic_ostringstream<Ch> os;
    os << fcppt::parse::location{fcppt::parse::line{l}, fcppt::parse::column{c}};
    VRT_CHECK(os.str() == widen<Ch>(std::to_string(l) + ":" + std::to_string(c)), "location_output" + t + ":wrong", "location %llu:%llu is written '%s'",
              static_cast<unsigned long long>(l), static_cast<unsigned long long>(c), narrow_msg(os.str()).c_str());
  }
  try
  {
    string_world<Ch> w(text);
    for (std::size_t i = 0; i < j; ++i)
    {
      fcppt::optional::object<Ch> const g = fcppt::parse::get_char(w.ref());
      if (!g.has_value() || g.get_unsafe() != text[i])
      {
        vrt::fail("get_char" + t + ":wrong_char", vrt::fmt("while advancing to offset %zu: index %zu gave %s", j, i, show_opt(g).c_str()));
        return;
      }
    }
    position<Ch> const before = fcppt::parse::get_position(w.ref());
    {
      std::string const d = position_diff(before, text, j);
      VRT_CHECK(d.empty(), "get_position" + t + ":wrong:large", "before the offending character of %s: %s", show_text(text).c_str(), d.c_str());
    }
    using T = types<Ch>;
    Ch const sp = letter<Ch>(0, 2);
    unsigned const mask = 0xCU; // {' ', '\t'}
    auto after = [&](ctx<Ch> const &cx, std::string const &fam) {
      position<Ch> const p = fcppt::parse::get_position(w.ref());
      std::string const d = position_diff(p, text, j + 1);
      VRT_CHECK(d.empty(), fam + t + ":position_after", "%s on %s: afterwards %s", cx.what().c_str(), show_text(text).c_str(), d.c_str());
    };
    int runs = 0;
    auto rewind = [&] {
      if (runs++ > 0)
        fcppt::parse::set_position(w.ref(), before);
    };
    for (int set = 0; set < 2; ++set)
    {
      ctx<Ch> const cx{text, j, set ? -1 : 2, set ? mask : 0U};
      for (int via = 0; via < 2; ++via)
      {
        // parser
        {
          std::string const fam = std::string(set ? "char_set" : "literal") + (via ? ":parse" : ":direct");
          rewind();
          auto run = [&](auto const &parser) {
            auto const r = via ? fcppt::parse::parse(parser, w.rs.st) : parser.parse(w.ref(), fcppt::parse::skipper::epsilon());
            VRT_CHECK(r.has_failure(), fam + t + ":verdict", "%s accepted '%s'", cx.what().c_str(), show_char(offending).c_str());
            if (r.has_failure())
              cx.check_located(fam, r.get_failure_unsafe().get(), m, offending, j);
          };
          if (set)
            run(typename T::char_set{make_set<Ch>(mask)});
          else
            run(typename T::literal{sp});
          after(cx, fam);
        }
        // skipper
        {
          std::string const fam = std::string(set ? "skipper::char_set" : "skipper::literal") + (via ? ":phrase_parse" : ":run");
          rewind();
          auto run = [&](auto const &skipper) {
            if (via)
            {
              fcppt::parse::result<Ch, Ch> const r = fcppt::parse::phrase_parse(fcppt::parse::basic_char<Ch>{}, w.rs.st, skipper);
              VRT_CHECK(r.has_failure(), fam + t + ":verdict", "%s accepted '%s'", cx.what().c_str(), show_char(offending).c_str());
              if (r.has_failure())
                cx.check_located(fam, r.get_failure_unsafe().get(), m, offending, j);
            }
            else
            {
              fcppt::parse::skipper::result<Ch> const r = fcppt::parse::skipper::run(skipper, w.ref());
              VRT_CHECK(r.has_failure(), fam + t + ":verdict", "%s accepted '%s'", cx.what().c_str(), show_char(offending).c_str());
              if (r.has_failure())
                cx.check_located(fam, r.get_failure_unsafe().get(), m, offending, j);
            }
          };
          if (set)
            run(typename T::sk_char_set{make_set<Ch>(mask)});
          else
            run(typename T::sk_literal{sp});
          after(cx, fam);
        }
      }
    }
    vrt::count("located_messages_checked_on_the_lattice", 8);
  }
  catch (fcppt::parse::detail::exception<Ch> const &e)
  {
    vrt::fail(fn + ":exception", "'" + narrow_msg(e.what()) + "' on a healthy string stream");
  }
}

template <class Ch> void lattice_part(unsigned part, unsigned nparts)
{
  std::vector<std::uint64_t> const &v = lattice();
  for (std::size_t li = 0; li < v.size(); ++li)
  {
    if (li % nparts != part)
      continue;
    if (vrt::out_of_time())
      return;
    for (std::uint64_t c : v)
    {
      if (c >= 2)
        lattice_case<Ch>(v[li], c, 0);
      else if (v[li] >= 2)
      {
        lattice_case<Ch>(v[li], c, 0);
        lattice_case<Ch>(v[li], c, 9); // the line before the offending newline is not empty
      }
    }
  }
}
}

void c12::register_errtext()
{
  constexpr unsigned nparts = 4;
  for (unsigned part = 0; part < nparts; ++part)
  {
    vrt::shard("errtext<char>/" + std::to_string(part), [part] { errtext_part<char>(vrt::thorough() ? 6 : 4, part, nparts); });
    vrt::shard("errtext<wchar_t>/" + std::to_string(part), [part] { errtext_part<wchar_t>(vrt::thorough() ? 6 : 4, part, nparts); });
    vrt::shard("errloc<char>/" + std::to_string(part), [part] { lattice_part<char>(part, nparts); });
    vrt::shard("errloc<wchar_t>/" + std::to_string(part), [part] { lattice_part<wchar_t>(part, nparts); });
  }
  for (unsigned part = 0; part < 2; ++part)
  {
    vrt::shard("errgrid<char>/" + std::to_string(part), [part] { errgrid_part<char>(part, 2); });
    vrt::shard("errgrid<wchar_t>/" + std::to_string(part), [part] { errgrid_part<wchar_t>(part, 2); });
  }
}

// C10 -- fcppt::container::bitfield is observationally a set of enumerators.
// Shared part of the harness (engine E): reference model, enumerated domains and the
// per-instantiation shards.  The translation units C10.cpp, C10_b.cpp, C10_c.cpp and
// C10_d.cpp instantiate it for different enums so that they compile in parallel.
//
// Reference: std::set<int> (the mathematical set of enumerator indices) with plain loops for
// union / intersection / symmetric difference / complement relative to {0..N-1} / subset.
// The real bitfield is observed only through its public interface (get, operator[],
// operator&(field, e), ==, !=, hash, std::hash, is_subset_eq).  The storage array is read in
// exactly one place (dirty()) and only to *classify the signature* of a violation that was
// already established observationally (is it caused by bits above the enum size?).
#pragma once
#include <vrt.hpp>

#include <fcppt/container/bitfield/comparison.hpp>
#include <fcppt/container/bitfield/hash.hpp>
#include <fcppt/container/bitfield/init.hpp>
#include <fcppt/container/bitfield/is_subset_eq.hpp>
#include <fcppt/container/bitfield/object.hpp>
#include <fcppt/container/bitfield/operators.hpp>
#include <fcppt/container/bitfield/std_hash.hpp>
#include <fcppt/container/bitfield/underlying_value.hpp>

#include <array>
#include <cstdint>
#include <functional>
#include <limits>
#include <map>
#include <set>
#include <string>
#include <utility>
#include <vector>

namespace c10
{
using u64 = std::uint64_t;
using rset = std::set<int>;

// ------------------------------------------------------------------ enums under test
// sizes 1, 3, 8, 9, 17 (DESIGN.md) plus 16, 33, 64 (exact fit of a u16 / two u8 words, one past a
// 32-bit word, exact fit of the widest word: bit 63); different underlying types, one unscoped.
enum class e1 : std::uint8_t { first = 0, fcppt_maximum = 0 };
enum class e3 { first = 0, fcppt_maximum = 2 };
namespace unscoped
{
enum e3u { e3u_first = 0, e3u_second = 1, fcppt_maximum = 2 };
}
using unscoped::e3u;
enum class e8 : unsigned char { first = 0, fcppt_maximum = 7 };
enum class e9 : std::uint16_t { first = 0, fcppt_maximum = 8 };
enum class e16 : short { first = 0, fcppt_maximum = 15 };
enum class e17 : std::uint8_t { first = 0, fcppt_maximum = 16 };
enum class e33 : unsigned { first = 0, fcppt_maximum = 32 };
enum class e64 : std::uint64_t { first = 0, fcppt_maximum = 63 };

// ------------------------------------------------------------------ reference model
inline rset to_set(u64 m, int n)
{
  rset r;
  for (int i = 0; i < n; ++i)
    if ((m >> i) & 1U)
      r.insert(i);
  return r;
}
inline u64 to_mask(rset const &s)
{
  u64 m = 0;
  for (int i : s)
    m |= u64(1) << i;
  return m;
}
inline std::string show(rset const &s)
{
  std::string r = "{";
  bool first = true;
  for (int i : s)
  {
    if (!first)
      r += ",";
    r += std::to_string(i);
    first = false;
  }
  return r + "}";
}
inline rset r_union(rset const &a, rset const &b)
{
  rset r(a);
  for (int x : b)
    r.insert(x);
  return r;
}
inline rset r_inter(rset const &a, rset const &b)
{
  rset r;
  for (int x : a)
    if (b.count(x) != 0)
      r.insert(x);
  return r;
}
inline rset r_diff(rset const &a, rset const &b)
{
  rset r;
  for (int x : a)
    if (b.count(x) == 0)
      r.insert(x);
  return r;
}
inline rset r_symdiff(rset const &a, rset const &b)
{
  rset r = r_diff(a, b);
  for (int x : b)
    if (a.count(x) == 0)
      r.insert(x);
  return r;
}
inline rset r_compl(rset const &a, int n)
{
  rset r;
  for (int i = 0; i < n; ++i)
    if (a.count(i) == 0)
      r.insert(i);
  return r;
}
inline bool r_subset(rset const &a, rset const &b)
{
  for (int x : a)
    if (b.count(x) == 0)
      return false;
  return true;
}

// ------------------------------------------------------------------ domains
// every subset for n <= 9; otherwise the structured family of DESIGN.md C10: empty, full,
// singletons, co-singletons, prefixes, suffixes, even/odd, the sets of enumerators stored in one
// 8/16/32-bit word, the two enumerators on either side of every 8-bit word boundary, alternating
// bytes.  `lite` (quick tier, n > 17) keeps only the members that touch a word boundary.
inline std::vector<u64> domain(int n, bool lite)
{
  std::vector<u64> r;
  if (n <= 9)
  {
    for (u64 m = 0; m < (u64(1) << n); ++m)
      r.push_back(m);
    return r;
  }
  u64 const full = n == 64 ? ~u64(0) : (u64(1) << n) - 1;
  std::set<u64> s;
  auto near_boundary = [&](int i) { return i % 8 == 0 || i % 8 == 7 || i == n - 1 || i == 0; };
  s.insert(0);
  s.insert(full);
  for (int i = 0; i < n; ++i)
  {
    if (lite && !near_boundary(i))
      continue;
    s.insert(u64(1) << i);
    s.insert(full & ~(u64(1) << i));
  }
  for (int k = 0; k <= n; ++k)
  {
    if (lite && k != n && !near_boundary(k))
      continue;
    u64 const pre = k == 64 ? ~u64(0) : (u64(1) << k) - 1;
    s.insert(pre);
    s.insert(full & ~pre);
  }
  u64 even = 0, altbytes = 0;
  for (int i = 0; i < n; ++i)
  {
    if (i % 2 == 0)
      even |= u64(1) << i;
    if ((i / 8) % 2 == 0)
      altbytes |= u64(1) << i;
  }
  s.insert(even);
  s.insert(full & ~even);
  s.insert(altbytes);
  s.insert(full & ~altbytes);
  for (int w : {8, 16, 32})
    for (int j = 0; j * w < n; ++j)
    {
      u64 word = 0;
      for (int i = j * w; i < (j + 1) * w && i < n; ++i)
        word |= u64(1) << i;
      s.insert(word);
      if (j > 0)
        s.insert((u64(1) << (j * w - 1)) | (u64(1) << (j * w)));
    }
  r.assign(s.begin(), s.end());
  return r;
}

// ------------------------------------------------------------------ initializer lists of run-time length
template <class BF, std::size_t... I>
BF il_build(std::vector<typename BF::element_type> const &v, std::index_sequence<I...>)
{
  if constexpr (sizeof...(I) == 0)
    return BF(typename BF::initializer_list_type{}); // (BF{} would become a default constructor should one ever be added)
  else
    return BF{v[I]...}; // the user-facing syntax
}
template <class BF, std::size_t J> BF il_n(std::vector<typename BF::element_type> const &v)
{
  return il_build<BF>(v, std::make_index_sequence<J>{});
}
template <class BF, std::size_t K> struct il_table
{
  using fn = BF (*)(std::vector<typename BF::element_type> const &);
  template <std::size_t... J> static std::array<fn, K + 1> make(std::index_sequence<J...>)
  {
    return {{&il_n<BF, J>...}};
  }
  static BF build(std::vector<typename BF::element_type> const &v)
  {
    static std::array<fn, K + 1> const t = make(std::make_index_sequence<K + 1>{});
    if (v.size() > K)
    {
      vrt::fail("harness:il_table", "list too long");
      return BF::null();
    }
    return t[v.size()](v);
  }
};

// ------------------------------------------------------------------ one instantiation
template <class E, class W, int N> struct inst
{
  using BF = fcppt::container::bitfield::object<E, W>;
  static_assert(BF::static_size::value == N, "enum size");
  static constexpr int bits = std::numeric_limits<W>::digits;
  // the number of storage words is an implementation detail: take whatever the library uses (a change of
  // it must show up through the set semantics, not as a compile error of this harness)
  static constexpr int words = static_cast<int>(BF::array_size::value);
  static constexpr bool has_padding = N % bits != 0;

  static inline std::string tag; // "<e9,u8>"

  static E en(int i) { return static_cast<E>(i); }
  static int idx(E e) { return static_cast<int>(e); }

  // the canonical way to build a set: null() and set(e,true) in ascending order
  static BF canon(rset const &s)
  {
    BF r(BF::null());
    for (int i : s)
      r.set(en(i), true);
    return r;
  }
  static rset members(BF const &b)
  {
    rset r;
    for (int i = 0; i < N; ++i)
      if (b.get(en(i)))
        r.insert(i);
    return r;
  }
  static std::size_t h1(BF const &b) { return fcppt::container::bitfield::hash<BF>()(b); }
  static std::size_t h2(BF const &b) { return std::hash<BF>()(b); }
  static bool sub(BF const &a, BF const &b) { return fcppt::container::bitfield::is_subset_eq(a, b); }

  // White box, used ONLY to choose the signature of an already established violation:
  // are storage bits at or above the enum size set in the last word?
  static bool dirty(BF const &b)
  {
    if constexpr (!has_padding)
      return false;
    else
    {
      unsigned long long const last = b.array().get_unsafe(words - 1);
      unsigned long long const valid = (1ULL << (N % bits)) - 1ULL;
      return (last & ~valid) != 0;
    }
  }
  static unsigned long long last_word(BF const &b) { return b.array().get_unsafe(words - 1); }

  // the runtime stores only the first 3 violations per signature and shard: skip formatting the rest
  static bool first_few(std::string const &sig)
  {
    static std::map<std::string, unsigned> n;
    return ++n[sig] <= 3;
  }

  // r must be observationally the set x: same members, and equal / hash-equal / mutually
  // is_subset_eq to the same set built canonically.
  static void expect(BF const &r, rset const &x, char const *fam, std::string const &what)
  {
    rset const got = members(r);
    if (got != x)
    {
      vrt::fail(std::string(fam) + ":members",
                vrt::fmt("%s: members %s, expected %s", what.c_str(), show(got).c_str(), show(x).c_str()));
      return;
    }
    BF const c = canon(x);
    // underlying_value (single storage word only): bit i is enumerator i (test/container/bitfield/underlying_value.cpp),
    // and, being an observer of a set, it cannot tell two bitfields with the same members apart
    if constexpr (words == 1)
    {
      unsigned long long const uv = fcppt::container::bitfield::underlying_value(r);
      for (int i = 0; i < N; ++i)
        if (((uv >> i) & 1ULL) != (x.count(i) ? 1ULL : 0ULL))
        {
          vrt::fail(std::string(fam) + ":underlying_value_bit",
                    vrt::fmt("%s = %s: underlying_value 0x%llx, bit %d does not say whether enumerator %d is a member", what.c_str(), show(x).c_str(), uv, i, i));
          break;
        }
      unsigned long long const uc = fcppt::container::bitfield::underlying_value(c);
      if (uv != uc)
        vrt::fail(std::string(fam) + ":underlying_value_same_members",
                  vrt::fmt("%s = %s: underlying_value 0x%llx differs from 0x%llx of the same set built with set()", what.c_str(), show(x).c_str(), uv, uc));
    }
    bool const eq = (r == c) && (c == r) && !(r != c) && !(c != r);
    bool const hs = h1(r) == h1(c) && h2(r) == h2(c);
    bool const sb = sub(r, c) && sub(c, r);
    if (eq && hs && sb)
      return;
    if (dirty(r))
    {
      std::string const sig = std::string(fam) + ":padding_bits_observable";
      if (!first_few(sig))
      {
        vrt::fail(sig, ""); // counted; only the first violations per signature are stored
        return;
      }
      vrt::fail(sig,
                vrt::fmt("%s has exactly the members %s, but against the same set built with set(): ==/!= consistent "
                         "with equality: %d, hashes equal: %d, is_subset_eq both ways: %d (last storage word 0x%llx has "
                         "bits at or above enumerator count %d set)",
                         what.c_str(), show(x).c_str(), int(eq), int(hs), int(sb), last_word(r), N));
      return;
    }
    if (!eq)
      vrt::fail(std::string(fam) + ":eq_same_members", vrt::fmt("%s = %s: ==/!= say different from the same set built with set()", what.c_str(), show(x).c_str()));
    if (!hs)
      vrt::fail(std::string(fam) + ":hash_same_members", vrt::fmt("%s = %s: hash differs from the same set built with set()", what.c_str(), show(x).c_str()));
    if (!sb)
      vrt::fail(std::string(fam) + ":is_subset_eq_same_members", vrt::fmt("%s = %s: not mutually is_subset_eq with the same set built with set()", what.c_str(), show(x).c_str()));
  }

  static std::vector<u64> dom() { return domain(N, vrt::quick() && N > 17); }

  // ---------------------------------------------------------------- construction
  static void construct_all(std::vector<u64> const &d)
  {
    static std::string const name = "construct" + tag;
    rset const full = to_set(N == 64 ? ~u64(0) : (u64(1) << N) - 1, N);
    for (u64 A : d)
    {
      if (!vrt::begin(name.c_str(), A))
        continue;
      rset const s = to_set(A, N);
      vrt::describe(name + "(A=" + show(s) + ")");
      vrt::nontrivial(!s.empty());
      vrt::maybe_sample();
      std::vector<E> asc, desc;
      for (int i : s)
        asc.push_back(en(i));
      desc.assign(asc.rbegin(), asc.rend());
      if (!desc.empty())
      {
        desc.push_back(desc.front()); // duplicates are allowed in a list
        desc.push_back(desc.front());
      }
      expect(canon(s), s, "construct", "null()+set(e,true)");
      expect(il_table<BF, N + 2>::build(asc), s, "construct", "initializer list (ascending)");
      expect(il_table<BF, N + 2>::build(desc), s, "construct", "initializer list (descending, with duplicates)");
      {
        int calls = 0;
        BF const r = fcppt::container::bitfield::init<BF>([&](E e) {
          ++calls;
          return s.count(idx(e)) != 0;
        });
        expect(r, s, "construct", "init(f)");
        // audit class C: the documentation ("Every bit of Result with index e is set to _function(e)") does not
        // promise how often (or in which order) the function is invoked -- information only, never a verdict
        if (calls != N)
          vrt::count("info:construct:init_calls");
      }
      {
        BF r(BF::null());
        for (E e : desc)
          r[e] = true;
        expect(r, s, "construct", "null()+proxy=true");
      }
      {
        BF r(BF::null());
        for (int i = 0; i < N; ++i)
          r.set(en(i), true);
        expect(r, full, "construct", "all set(e,true)");
        for (int i = N - 1; i >= 0; --i)
          if (s.count(i) == 0)
          {
            if (i % 2 == 0)
              r.set(en(i), false);
            else
              r[en(i)] = false;
          }
        expect(r, s, "construct", "full, then set(e,false)/proxy=false");
      }
      {
        BF r(BF::null());
        BF q(BF::null());
        for (E e : asc)
        {
          r = r | e;
          BF &ret = (q |= e);
          VRT_CHECK(&ret == &q, "construct:or_assign_enum_return", "operator|=(field, e) did not return its left operand");
        }
        expect(r, s, "construct", "null() | e | ...");
        expect(q, s, "construct", "null() |= e ...");
      }
      {
        BF const c = canon(s);
        BF const copy(c);
        BF assigned(BF::null());
        assigned = c;
        expect(copy, s, "construct", "copy construction");
        {
          // the remaining public entry points: a copy through the storage array keeps the set
          BF const from_array(c.array());
          BF via_accessor(BF::null());
          via_accessor.array() = c.array();
          expect(from_array, s, "construct", "object(other.array())");
          expect(via_accessor, s, "construct", "x.array() = other.array()");
        }
        expect(assigned, s, "construct", "copy assignment");
      }
      {
        // transient members: set and clear again everything that is not in the set
        BF r = canon(s);
        for (int i = 0; i < N; ++i)
          if (s.count(i) == 0)
            r.set(en(i), true);
        for (int i = 0; i < N; ++i)
          if (s.count(i) == 0)
            r.set(en(i), false);
        expect(r, s, "construct", "set then cleared non-members");
      }
    }
  }

  // ---------------------------------------------------------------- single elements
  static void element_all(std::vector<u64> const &d)
  {
    static std::string const name = "element" + tag;
    for (u64 A : d)
    {
      if (vrt::out_of_time())
        return;
      rset const s = to_set(A, N);
      for (int e = 0; e < N; ++e)
      {
        if (!vrt::begin(name.c_str(), A, e))
          continue;
        bool const in = s.count(e) != 0;
        vrt::describe(name + "(A=" + show(s) + ", e=" + std::to_string(e) + ")");
        vrt::nontrivial(N > 1);
        vrt::maybe_sample();
        rset with = s, without = s;
        with.insert(e);
        without.erase(e);
        BF x = canon(s);
        BF const &cx = x;
        VRT_CHECK(cx.get(en(e)) == in, "element:get", "get(%d) on %s", e, show(s).c_str());
        VRT_CHECK(static_cast<bool>(cx[en(e)]) == in, "element:index_const", "const operator[](%d) on %s", e, show(s).c_str());
        VRT_CHECK(static_cast<bool>(x[en(e)]) == in, "element:index", "operator[](%d) on %s", e, show(s).c_str());
        VRT_CHECK((cx & en(e)) == in, "element:and_enum", "operator&(field,%d) on %s", e, show(s).c_str());
        x.set(en(e), true);
        VRT_CHECK(x.get(en(e)), "element:get_after_set", "get(%d) false right after set(true)", e);
        expect(x, with, "element", "set(e,true)");
        x.set(en(e), true);
        expect(x, with, "element", "set(e,true) twice");
        x.set(en(e), false);
        VRT_CHECK(!x.get(en(e)), "element:get_after_set", "get(%d) true right after set(false)", e);
        expect(x, without, "element", "set(e,false)");
        x.set(en(e), false);
        expect(x, without, "element", "set(e,false) twice");
        x[en(e)] = true;
        expect(x, with, "element", "proxy = true");
        x[en(e)] = false;
        expect(x, without, "element", "proxy = false");
        {
          BF t = canon(s);
          t[en(e)] = !t[en(e)];
          expect(t, in ? without : with, "element", "proxy = !proxy");
        }
        {
          BF t = canon(s);
          typename BF::reference p = t[en(e)];
          p = true;
          VRT_CHECK(t.get(en(e)) && static_cast<bool>(p), "element:held_proxy", "held proxy = true not visible");
          p = false;
          VRT_CHECK(!t.get(en(e)) && !static_cast<bool>(p), "element:held_proxy", "held proxy = false not visible");
          expect(t, without, "element", "held proxy");
        }
        expect(canon(s) | en(e), with, "element", "field | e");
        {
          BF t = canon(s);
          BF &ret = (t |= en(e));
          VRT_CHECK(&ret == &t, "element:or_assign_enum_return", "operator|=(field, e) did not return its left operand");
          expect(t, with, "element", "field |= e");
        }
      }
    }
  }

  // ---------------------------------------------------------------- proxy assignment in every value category
  // Model for all of them: destination bit := source bit (read before the assignment); nothing else
  // changes in either bitfield; the returned reference refers to the destination.  The picture is the
  // documented one ("treat it like a std::map<Enum,bool>") and that of every reference-to-bool proxy
  // (std::bitset::reference, std::vector<bool>::reference).
  static constexpr int n_modes = 15;
  static char const *mode_name(int m)
  {
    static char const *const names[n_modes] = {
        "temp_source",          // a[e] = b[f]                         operator=(proxy &&)
        "named_source",         // reference s = b[f]; a[e] = s        operator=(proxy const &)
        "named_const_source",   // reference const s(b[f]); a[e] = s   operator=(proxy const &)
        "moved_source",         // reference s = b[f]; a[e] = std::move(s)
        "named_dest_named_source", // reference d = a[e], s = b[f]; d = s
        "named_dest_temp_source",  // reference d = a[e]; d = b[f]
        "named_dest_moved_source", // reference d = a[e], s = b[f]; d = std::move(s)
        "const_temp_source",    // a[e] = cb[f]                        through bool
        "const_named_source",   // const_reference s = cb[f]; a[e] = s through bool
        "bool_from_get",        // a[e] = b.get(f)
        "bool_from_cast",       // a[e] = static_cast<bool>(b[f])
        "copied_proxy_source",  // reference s = b[f]; reference s2(s); a[e] = s2
        "move_constructed_proxy_source", // reference s = b[f]; reference s2(std::move(s)); a[e] = s2
        "set_from_proxy",       // a.set(e, b[f])
        "swap_via_bool"};       // bool t = a[e]; a[e] = b[f]; b[f] = t  (only this mode changes b)
    return names[m];
  }
  // performs the assignment; returns false when the returned reference / its value is wrong.
  // a and b may be the same object.
  static bool assign_mode(int m, BF &a, BF &b, int e, int f, bool bit)
  {
    using ref = typename BF::reference;
    using cref = typename BF::const_reference;
    BF const &cb = b;
    E const ee = en(e), ff = en(f);
    switch (m)
    {
    case 0:
      return static_cast<bool>(a[ee] = b[ff]) == bit;
    case 1:
    {
      ref s = b[ff];
      return static_cast<bool>(a[ee] = s) == bit;
    }
    case 2:
    {
      ref const s(b[ff]);
      return static_cast<bool>(a[ee] = s) == bit;
    }
    case 3:
    {
      ref s = b[ff];
      return static_cast<bool>(a[ee] = std::move(s)) == bit;
    }
    case 4:
    {
      ref d = a[ee];
      ref s = b[ff];
      ref &r = (d = s);
      return &r == &d && static_cast<bool>(d) == bit;
    }
    case 5:
    {
      ref d = a[ee];
      ref &r = (d = b[ff]);
      return &r == &d && static_cast<bool>(d) == bit;
    }
    case 6:
    {
      ref d = a[ee];
      ref s = b[ff];
      ref &r = (d = std::move(s));
      return &r == &d && static_cast<bool>(d) == bit;
    }
    case 7:
      return static_cast<bool>(a[ee] = cb[ff]) == bit;
    case 8:
    {
      cref s = cb[ff];
      cref const s2(s);
      return static_cast<bool>(a[ee] = s) == bit && static_cast<bool>(s2) == static_cast<bool>(s);
    }
    case 9:
      return static_cast<bool>(a[ee] = b.get(ff)) == bit;
    case 10:
      return static_cast<bool>(a[ee] = static_cast<bool>(b[ff])) == bit;
    case 11:
    {
      ref s = b[ff];
      ref s2(s);
      return static_cast<bool>(a[ee] = s2) == bit && static_cast<bool>(s) == static_cast<bool>(s2);
    }
    case 12:
    {
      ref s = b[ff];
      ref s2(std::move(s));
      return static_cast<bool>(a[ee] = s2) == bit;
    }
    case 13:
      a.set(ee, b[ff]);
      return a.get(ee) == bit;
    default:
    {
      bool const t = a[ee];
      a[ee] = b[ff];
      b[ff] = t;
      return true;
    }
    }
  }
  // fast path without allocations: members through get() as a mask, then ==, !=, both hashes and
  // is_subset_eq against the same set built with set() (built once per set and kept); true = all agree
  static bool quick_ok(BF const &real, rset const &want)
  {
    u64 got_mask = 0;
    for (int i = 0; i < N; ++i)
      if (real.get(en(i)))
        got_mask |= u64(1) << i;
    u64 const want_mask = to_mask(want);
    if (got_mask != want_mask)
      return false;
    static std::map<u64, BF> canonical;
    auto it = canonical.find(want_mask);
    if (it == canonical.end())
      it = canonical.emplace(want_mask, canon(want)).first;
    BF const &c = it->second;
    return (real == c) && (c == real) && !(real != c) && !(c != real) && h1(real) == h1(c) && h2(real) == h2(c) && sub(real, c) &&
           sub(c, real);
  }
  static void verify_assign(int m, char const *which, BF const &real, rset const &want, std::string const &what)
  {
    if (quick_ok(real, want))
      return;
    rset const got = members(real); // slow path: report in detail
    if (got != want)
      vrt::fail(std::string("proxy_assign:") + mode_name(m) + ":" + which,
                vrt::fmt("%s [%s]: %s is %s, expected %s", what.c_str(), mode_name(m), which, show(got).c_str(), show(want).c_str()));
    else
      expect(real, want, "proxy_assign", what + " [" + mode_name(m) + "] " + which);
  }
  // enumerators used where not all are: both sides of every 8/16/32-bit word boundary, first, last, middle
  static std::vector<int> positions()
  {
    std::set<int> p;
    if (N <= 9)
      for (int i = 0; i < N; ++i)
        p.insert(i);
    else
      for (int i : {0, 1, 7, 8, 15, 16, 31, 32, 63, N / 2, N - 1})
        if (i < N)
          p.insert(i);
    return std::vector<int>(p.begin(), p.end());
  }
  static bool is_position(int i)
  {
    for (int p : positions())
      if (p == i)
        return true;
    return false;
  }
  // all subsets for N <= 3; otherwise empty, full, even, odd and (rich) singletons / co-singletons at positions()
  static std::vector<u64> small_family(bool rich)
  {
    std::set<u64> r;
    u64 const full = N == 64 ? ~u64(0) : (u64(1) << N) - 1;
    if (N <= 3)
    {
      for (u64 m = 0; m <= full; ++m)
        r.insert(m);
      return std::vector<u64>(r.begin(), r.end());
    }
    u64 even = 0;
    for (int i = 0; i < N; i += 2)
      even |= u64(1) << i;
    r.insert(0);
    r.insert(full);
    r.insert(even);
    r.insert(full & ~even);
    if (rich)
      for (int i : positions())
      {
        r.insert(u64(1) << i);
        r.insert(full & ~(u64(1) << i));
      }
    return std::vector<u64>(r.begin(), r.end());
  }

  // one bitfield: x[e] = x[e2] in every value category, plus self assignment through named proxies
  static void proxy_copy_all(std::vector<u64> const &d)
  {
    static std::string const name = "proxy_copy" + tag;
    for (u64 A : d)
    {
      if (vrt::out_of_time())
        return;
      rset const s = to_set(A, N);
      BF const x0 = canon(s);
      for (int e = 0; e < N; ++e)
        for (int e2 = 0; e2 < N; ++e2)
        {
          if (N > 17 && !(e2 == e || e2 == (e + 1) % N || e2 % bits == 0 || e2 == N - 1 || e % 8 == 0 || e % 8 == 7))
            continue; // large enums: sources at word starts / neighbours, all targets at byte boundaries
          if (!vrt::begin(name.c_str(), A, e, e2))
            continue;
          bool const src = s.count(e2) != 0;
          std::string const what = "x=" + show(s) + "; x[" + std::to_string(e) + "] = x[" + std::to_string(e2) + "]";
          vrt::describe(name + "(" + what + ")");
          vrt::nontrivial((s.count(e) != 0) != src);
          vrt::maybe_sample();
          rset want = s;
          if (src)
            want.insert(e);
          else
            want.erase(e);
          bool const all_modes = N <= 17 || (is_position(e) && is_position(e2));
          for (int m = 0; m < n_modes; ++m)
          {
            if (!all_modes && m != 0 && m != 1 && m != 7)
              continue;
            BF x = x0;
            bool const ret = assign_mode(m, x, x, e, e2, src);
            if (m == n_modes - 1)
            {
              // swap of two bits of the same set
              rset sw = s;
              sw.erase(e);
              sw.erase(e2);
              if (s.count(e2) != 0)
                sw.insert(e);
              if (s.count(e) != 0)
                sw.insert(e2);
              verify_assign(m, "destination", x, sw, what);
              continue;
            }
            VRT_CHECK(ret, std::string("proxy_assign:") + mode_name(m) + ":return", "%s [%s]: returned reference does not refer to the destination bit",
                      what.c_str(), mode_name(m));
            verify_assign(m, "destination", x, want, what);
          }
          if (e == e2)
          {
            using ref = typename BF::reference;
            {
              BF x = x0;
              ref p = x[en(e)];
              ref &r = (p = p); // self assignment of a named proxy
              VRT_CHECK(&r == &p && static_cast<bool>(p) == src, "proxy_assign:self_named:return", "%s: p = p", what.c_str());
              verify_assign(1, "self_named", x, s, what);
            }
            {
              BF x = x0;
              ref p = x[en(e)];
              ref q = x[en(e)]; // two proxies for the same bit
              p = q;
              VRT_CHECK(static_cast<bool>(p) == src && static_cast<bool>(q) == src, "proxy_assign:same_bit_two_proxies:return", "%s: p = q", what.c_str());
              q = std::move(p); // p is moved-from now: its state is not inspected (audit class C)
              VRT_CHECK(static_cast<bool>(q) == src, "proxy_assign:same_bit_two_proxies:return", "%s: q = std::move(p)", what.c_str());
              verify_assign(1, "same_bit_two_proxies", x, s, what);
            }
          }
        }
    }
  }

  // two different bitfields: a[e] = b[f] in every value category (same and different enumerator,
  // equal and different contents); b must stay as it is
  static void proxy_xfer_all(unsigned part, unsigned nparts)
  {
    static std::string const name = "proxy_xfer" + tag;
    std::vector<u64> const da = (N <= 9 && vrt::thorough()) ? domain(N, false) : small_family(true);
    std::vector<u64> const db = small_family(N <= 17 || vrt::thorough());
    std::vector<int> const pos = positions();
    for (std::size_t ia = 0; ia < da.size(); ++ia)
    {
      if (ia % nparts != part)
        continue;
      if (vrt::out_of_time())
        return;
      u64 const A = da[ia];
      rset const sa = to_set(A, N);
      BF const a0 = canon(sa);
      for (u64 B : db)
      {
        rset const sb = to_set(B, N);
        BF const b0 = canon(sb);
        for (int e : pos)
          for (int f : pos)
          {
            if (!vrt::begin(name.c_str(), A, B, e, f))
              continue;
            bool const bit = sb.count(f) != 0;
            std::string const what = "a=" + show(sa) + ", b=" + show(sb) + "; a[" + std::to_string(e) + "] = b[" + std::to_string(f) + "]";
            vrt::describe(name + "(" + what + ")");
            vrt::nontrivial((sa.count(e) != 0) != bit);
            vrt::maybe_sample();
            rset want = sa;
            if (bit)
              want.insert(e);
            else
              want.erase(e);
            {
              // conversions of const / non-const proxies
              BF b = b0;
              BF const &cb = b;
              typename BF::value_type const v1 = b[en(f)];
              typename BF::value_type const v2 = cb[en(f)];
              VRT_CHECK(v1 == bit && v2 == bit && static_cast<bool>(b[en(f)]) == bit && static_cast<bool>(cb[en(f)]) == bit,
                        "proxy_assign:conversion", "%s: conversion of b[%d] to value_type", what.c_str(), f);
            }
            for (int m = 0; m < n_modes; ++m)
            {
              BF a = a0;
              BF b = b0;
              bool const ret = assign_mode(m, a, b, e, f, bit);
              VRT_CHECK(ret, std::string("proxy_assign:") + mode_name(m) + ":return", "%s [%s]: returned reference does not refer to the destination bit",
                        what.c_str(), mode_name(m));
              verify_assign(m, "destination", a, want, what);
              if (m == n_modes - 1)
              {
                rset wb = sb;
                if (sa.count(e) != 0)
                  wb.insert(f);
                else
                  wb.erase(f);
                verify_assign(m, "swapped_source", b, wb, what);
              }
              else
                verify_assign(m, "source_modified", b, sb, what);
            }
          }
      }
    }
  }

  // chained assignment x[e] = y[f] = z[g] over three bitfields, with every aliasing pattern of the objects
  static void proxy_chain_all()
  {
    static std::string const name = "proxy_chain" + tag;
    static int const patterns[5][3] = {{0, 1, 2}, {0, 0, 0}, {0, 1, 0}, {0, 0, 1}, {0, 1, 1}};
    static char const *const pattern_name[5] = {"a,b,c", "a,a,a", "a,b,a", "a,a,b", "a,b,b"};
    static char const *const chain_name[4] = {"temporaries", "named", "bool_tail", "const_tail"};
    std::vector<u64> const ds = small_family(false);
    std::vector<int> const pos = positions();
    using ref = typename BF::reference;
    for (std::size_t i0 = 0; i0 < ds.size(); ++i0)
      for (std::size_t i1 = 0; i1 < ds.size(); ++i1)
        for (std::size_t i2 = 0; i2 < ds.size(); ++i2)
        {
          if (vrt::out_of_time())
            return;
          u64 const M[3] = {ds[i0], ds[i1], ds[i2]};
          for (int p = 0; p < 5; ++p)
          {
            int const *pt = patterns[p];
            // skip repetitions: objects that the pattern does not use stay at the first set
            bool const uses1 = pt[0] == 1 || pt[1] == 1 || pt[2] == 1, uses2 = pt[0] == 2 || pt[1] == 2 || pt[2] == 2;
            if ((!uses1 && i1 != 0) || (!uses2 && i2 != 0))
              continue;
            for (int e : pos)
              for (int f : pos)
                for (int g : pos)
                {
                  if (!vrt::begin(name.c_str(), M[0], M[1], M[2], p, e, f, g))
                    continue;
                  rset const s0[3] = {to_set(M[0], N), to_set(M[1], N), to_set(M[2], N)};
                  std::string what = "objects a=" + show(s0[0]);
                  if (uses1)
                    what += ", b=" + show(s0[1]);
                  if (uses2)
                    what += ", c=" + show(s0[2]);
                  what += std::string("; x[") + std::to_string(e) + "] = y[" + std::to_string(f) + "] = z[" + std::to_string(g) +
                          "] with (x,y,z)=(" + pattern_name[p] + ")";
                  vrt::describe(name + "(" + what + ")");
                  bool const v = s0[pt[2]].count(g) != 0;
                  vrt::nontrivial((s0[pt[1]].count(f) != 0) != v || (s0[pt[0]].count(e) != 0) != v);
                  vrt::maybe_sample();
                  rset want[3] = {s0[0], s0[1], s0[2]};
                  for (int k : {1, 0}) // y[f] := v, then x[e] := v
                  {
                    int const pe = k == 1 ? f : e;
                    if (v)
                      want[pt[k]].insert(pe);
                    else
                      want[pt[k]].erase(pe);
                  }
                  for (int c = 0; c < 4; ++c)
                  {
                    BF obj[3] = {canon(s0[0]), canon(s0[1]), canon(s0[2])};
                    BF &x = obj[pt[0]], &y = obj[pt[1]], &z = obj[pt[2]];
                    BF const &cz = z;
                    bool ret = true;
                    switch (c)
                    {
                    case 0:
                      ret = static_cast<bool>(x[en(e)] = y[en(f)] = z[en(g)]) == v;
                      break;
                    case 1:
                    {
                      ref px = x[en(e)], py = y[en(f)], pz = z[en(g)];
                      ref &r = (px = py = pz);
                      ret = &r == &px && static_cast<bool>(px) == v && static_cast<bool>(py) == v;
                      break;
                    }
                    case 2:
                      ret = static_cast<bool>(x[en(e)] = y[en(f)] = z.get(en(g))) == v;
                      break;
                    default:
                      ret = static_cast<bool>(x[en(e)] = y[en(f)] = cz[en(g)]) == v;
                    }
                    std::string const sigbase = std::string("proxy_assign:chain_") + chain_name[c];
                    VRT_CHECK(ret, sigbase + ":return", "%s [%s]: value of the chained assignment", what.c_str(), chain_name[c]);
                    for (int k = 0; k < 3; ++k)
                    {
                      if ((k == 1 && !uses1) || (k == 2 && !uses2))
                        continue;
                      if (quick_ok(obj[k], want[k]))
                        continue;
                      rset const got = members(obj[k]);
                      if (got != want[k])
                        vrt::fail(sigbase + ":members",
                                  vrt::fmt("%s [%s]: object %c is %s, expected %s", what.c_str(), chain_name[c], "abc"[k], show(got).c_str(),
                                           show(want[k]).c_str()));
                      else
                        expect(obj[k], want[k], "proxy_assign", what + " [chain " + chain_name[c] + "]");
                    }
                  }
                }
          }
        }
  }

  // ---------------------------------------------------------------- complement and self operations
  static void not_all(std::vector<u64> const &d)
  {
    static std::string const n_not = "not" + tag;
    static std::string const n_self = "self_ops" + tag;
    rset const empty;
    rset const full = r_compl(empty, N);
    for (u64 A : d)
    {
      rset const s = to_set(A, N);
      BF const a = canon(s);
      if (vrt::begin(n_not.c_str(), A))
      {
        vrt::describe(n_not + "(A=" + show(s) + ")");
        vrt::nontrivial(has_padding);
        vrt::maybe_sample();
        rset const c = r_compl(s, N);
        expect(~a, c, "not", "~A");
        expect(~~a, s, "not", "~~A");
        expect(a & ~a, empty, "not", "A & ~A");
        expect(a | ~a, full, "not", "A | ~A");
        expect(a ^ ~a, full, "not", "A ^ ~A");
        expect(~a & a, empty, "not", "~A & A");
        expect(~a | a, full, "not", "~A | A");
        // observers on the complement itself
        BF const na = ~a;
        for (int e = 0; e < N; ++e)
        {
          bool const in = c.count(e) != 0;
          VRT_CHECK(static_cast<bool>(na[en(e)]) == in && (na & en(e)) == in, "not:index", "(~A)[%d] for A=%s", e, show(s).c_str());
        }
        VRT_CHECK((~a == ~a) && !(~a != ~a), "not:eq_self", "~A != ~A");
        VRT_CHECK(sub(~a, ~a), "not:is_subset_eq_self", "~A not subset of itself");
      }
      if (vrt::begin(n_self.c_str(), A))
      {
        vrt::describe(n_self + "(A=" + show(s) + ")");
        vrt::nontrivial(!s.empty());
        expect(a | a, s, "self_ops", "A | A");
        expect(a & a, s, "self_ops", "A & A");
        expect(a ^ a, empty, "self_ops", "A ^ A");
        {
          BF x = a;
          BF &r = (x |= x);
          VRT_CHECK(&r == &x, "self_ops:return", "|= did not return its left operand");
          expect(x, s, "self_ops", "x |= x");
        }
        {
          BF x = a;
          x &= x;
          expect(x, s, "self_ops", "x &= x");
        }
        {
          BF x = a;
          x ^= x;
          expect(x, empty, "self_ops", "x ^= x");
        }
        {
          BF x = a;
          x = x;
          expect(x, s, "self_ops", "x = x");
        }
        VRT_CHECK(a == a && !(a != a), "self_ops:eq_self", "A != A for %s", show(s).c_str());
        VRT_CHECK(sub(a, a), "self_ops:is_subset_eq_self", "A not a subset of itself");
        VRT_CHECK(sub(BF::null(), a), "self_ops:null_subset", "null() not a subset of %s", show(s).c_str());
        VRT_CHECK(sub(a, canon(full)), "self_ops:subset_of_full", "%s not a subset of the full set", show(s).c_str());
        VRT_CHECK(sub(a, BF::null()) == s.empty(), "self_ops:subset_of_null", "is_subset_eq(%s, null()) wrong", show(s).c_str());
      }
    }
  }

  // ---------------------------------------------------------------- pairs
  // Operands: every set of the domain in two representations: built with set() (form 0) and as the
  // complement of the complementary set, ~canon(N \ S) (form 1).  Both denote S.  Because every
  // operator is a pure function of its operands' storage and these two are the only reachable
  // storage states per set (padding all zero / all one), all pairs of these operands cover every
  // one-step situation that any longer expression can produce (for the exhaustive domains).
  struct val
  {
    BF real;
    rset ref;
    u64 id;
    int form;
    std::string text; // "{0,3}" or "~~{0,3}"
  };
  static std::vector<val> values(std::vector<u64> const &d)
  {
    std::vector<val> v;
    for (u64 A : d)
    {
      rset const s = to_set(A, N);
      v.push_back(val{canon(s), s, A, 0, show(s)});
    }
    for (u64 A : d)
    {
      rset const s = to_set(A, N);
      v.push_back(val{~canon(r_compl(s, N)), s, A, 1, "~~" + show(s)});
    }
    return v;
  }

  static void pairs(unsigned part, unsigned nparts)
  {
    static std::string const n_ops = "binary_ops" + tag;
    static std::string const n_rel = "relations" + tag;
    std::vector<val> const V = values(dom());
    std::uint64_t collisions = 0;
    for (std::size_t ia = 0; ia < V.size(); ++ia)
    {
      if (ia % nparts != part)
        continue;
      if (vrt::out_of_time())
        return;
      val const &a = V[ia];
      for (val const &b : V)
      {
        // announced as (A, form of A, B, form of B) with the sets as bit masks over the enumerator indices, then
        // described readably; "~~S" is the set S obtained as the complement of the complementary set
        if (vrt::begin(n_ops.c_str(), a.id, a.form, b.id, b.form))
        {
          vrt::describe(n_ops + "(A=" + a.text + ", B=" + b.text + ")");
          rset const un = r_union(a.ref, b.ref), in = r_inter(a.ref, b.ref), sd = r_symdiff(a.ref, b.ref),
                     df = r_diff(a.ref, b.ref);
          vrt::nontrivial(!in.empty() && a.ref != b.ref); // |, & and ^ give three different non-empty sets
          vrt::maybe_sample();
          expect(a.real | b.real, un, "binary_ops", "A | B");
          expect(a.real & b.real, in, "binary_ops", "A & B");
          expect(a.real ^ b.real, sd, "binary_ops", "A ^ B");
          {
            BF x = a.real;
            BF &r = (x |= b.real);
            VRT_CHECK(&r == &x, "binary_ops:return", "|= did not return its left operand");
            expect(x, un, "binary_ops", "A |= B");
          }
          {
            BF x = a.real;
            BF &r = (x &= b.real);
            VRT_CHECK(&r == &x, "binary_ops:return", "&= did not return its left operand");
            expect(x, in, "binary_ops", "A &= B");
          }
          {
            BF x = a.real;
            BF &r = (x ^= b.real);
            VRT_CHECK(&r == &x, "binary_ops:return", "^= did not return its left operand");
            expect(x, sd, "binary_ops", "A ^= B");
          }
          expect(a.real & ~b.real, df, "binary_ops", "A & ~B");
          // operands must be unchanged by the non-assigning forms
          VRT_CHECK(members(a.real) == a.ref && members(b.real) == b.ref, "binary_ops:operand_modified", "an operand changed");
        }
        if (vrt::begin(n_rel.c_str(), a.id, a.form, b.id, b.form))
        {
          vrt::describe(n_rel + "(A=" + a.text + ", B=" + b.text + ")");
          bool const same = a.ref == b.ref;
          bool const ab = r_subset(a.ref, b.ref), ba = r_subset(b.ref, a.ref);
          vrt::nontrivial((same && a.form != b.form) || (!same && (ab || ba)));
          bool const d = dirty(a.real) || dirty(b.real);
          bool const eq = a.real == b.real, ne = a.real != b.real;
          bool const hs = h1(a.real) == h1(b.real), hs2 = h2(a.real) == h2(b.real);
          bool const sab = sub(a.real, b.real);
          bool const ok_eq = eq == same && ne == !same;
          bool const ok_hash = !same || (hs && hs2);
          bool const ok_sub = sab == ab;
          if (!same && hs)
            ++collisions;
          if (!(ok_eq && ok_hash && ok_sub))
          {
            std::string const &A = a.text, &B = b.text;
            if (d && !first_few("relations:padding_bits_observable"))
              vrt::fail("relations:padding_bits_observable", "");
            else if (d)
              vrt::fail("relations:padding_bits_observable",
                        vrt::fmt("A=%s B=%s ('~~S' = complement of the complementary set): ==:%d !=:%d (sets equal: %d), hashes equal: %d, "
                                 "is_subset_eq(A,B)=%d (A subset of B: %d); an operand has storage bits at or above enumerator count %d set",
                                 A.c_str(), B.c_str(), int(eq), int(ne), int(same), int(hs && hs2), int(sab), int(ab), N));
            else
            {
              VRT_CHECK(ok_eq, "relations:eq", "A=%s B=%s ==:%d !=:%d", A.c_str(), B.c_str(), int(eq), int(ne));
              VRT_CHECK(ok_hash, "relations:hash", "A=%s B=%s equal sets hash differently", A.c_str(), B.c_str());
              VRT_CHECK(ok_sub, "relations:is_subset_eq", "A=%s B=%s is_subset_eq=%d", A.c_str(), B.c_str(), int(sab));
            }
          }
        }
      }
    }
    vrt::count("hash_collisions_between_different_sets(info)", collisions);
  }

  // ---------------------------------------------------------------- expression trees
  // Leaves L0..L3: enumerator i is in Lk iff bit k of (i+1) mod 16 is set, so the enumerators realise
  // as many of the 16 membership patterns as there are enumerators; each leaf is built in a different
  // way (set, initializer list, init, |= e).  Unary nodes: ~x, x.set(first,true), x.set(last,false),
  // x | middle.  Binary nodes: | & ^ |= &= ^=.  All trees of depth <= 2 are evaluated.  Depth 3 (thorough
  // tier): the top operator is applied to every (pair of) *distinct storage value(s)* produced by the
  // trees of depth <= 2 -- the operators take their operands by value / const reference and the class has
  // no other state, so trees with identical operand storage have identical results.
  struct node
  {
    BF real;
    u64 ref;
    std::string text;
  };
  static constexpr int n_unary = 4, n_binary = 6;
  static std::string text_u(int op, std::string const &x)
  {
    switch (op)
    {
    case 0:
      return "~" + x;
    case 1:
      return "set(" + x + ",0,true)";
    case 2:
      return "set(" + x + "," + std::to_string(N - 1) + ",false)";
    default:
      return "(" + x + "|e" + std::to_string(N / 2) + ")";
    }
  }
  static std::string text_b(int op, std::string const &l, std::string const &r)
  {
    static char const *const sym[] = {"|", "&", "^", "|=", "&=", "^="};
    return "(" + l + sym[op] + r + ")";
  }
  static node apply_u(int op, node const &x, std::string const &text)
  {
    rset s = to_set(x.ref, N);
    switch (op)
    {
    case 0:
      return node{~x.real, to_mask(r_compl(s, N)), text};
    case 1:
    {
      BF r = x.real;
      r.set(en(0), true);
      s.insert(0);
      return node{r, to_mask(s), text};
    }
    case 2:
    {
      BF r = x.real;
      r.set(en(N - 1), false);
      s.erase(N - 1);
      return node{r, to_mask(s), text};
    }
    default:
    {
      s.insert(N / 2);
      return node{x.real | en(N / 2), to_mask(s), text};
    }
    }
  }
  static node apply_b(int op, node const &l, node const &r, std::string const &text)
  {
    rset const a = to_set(l.ref, N), b = to_set(r.ref, N);
    switch (op)
    {
    case 0:
      return node{l.real | r.real, to_mask(r_union(a, b)), text};
    case 1:
      return node{l.real & r.real, to_mask(r_inter(a, b)), text};
    case 2:
      return node{l.real ^ r.real, to_mask(r_symdiff(a, b)), text};
    case 3:
    {
      BF x = l.real;
      x |= r.real;
      return node{x, to_mask(r_union(a, b)), text};
    }
    case 4:
    {
      BF x = l.real;
      x &= r.real;
      return node{x, to_mask(r_inter(a, b)), text};
    }
    default:
    {
      BF x = l.real;
      x ^= r.real;
      return node{x, to_mask(r_symdiff(a, b)), text};
    }
    }
  }
  static std::vector<unsigned long long> storage(BF const &b)
  {
    std::vector<unsigned long long> k;
    for (int i = 0; i < words; ++i)
      k.push_back(b.array().get_unsafe(static_cast<std::size_t>(i)));
    return k;
  }

  // announce == true : shard "expr": every tree of depth <= 2 is a case.
  // announce == false: shard "expr3/p": the same trees are only recomputed (they were checked by
  //                    shard "expr") to obtain the distinct storage values; then the depth-3 cases
  //                    whose left operand index is congruent p are evaluated.
  static void expr(bool announce, unsigned part, unsigned nparts)
  {
    static std::string const name = "expr" + tag;
    static std::string const name3 = "expr3" + tag;
    std::vector<node> base; // all trees of depth <= 1
    std::map<std::vector<unsigned long long>, std::size_t> seen;
    std::vector<node> distinct; // one representative tree per storage value, in order of first appearance
    std::uint64_t trees = 0;
    auto record = [&](node const &n) {
      if (seen.emplace(storage(n.real), distinct.size()).second)
        distinct.push_back(n);
    };
    auto check = [&](node const &n, u64 opnd1, u64 opnd2) {
      // nontrivial: the top operator produced a set different from its operand(s)
      vrt::nontrivial(n.ref != opnd1 && n.ref != opnd2);
      vrt::maybe_sample();
      expect(n.real, to_set(n.ref, N), "expr", n.text);
      ++trees;
    };
    if (!announce && !vrt::begin_text(name3.c_str(), name3 + ": recomputation of the depth<=2 values") &&
        vrt::S().only_index == 0) // (a replay of a later case of this shard must still recompute)
    {
      // resumed after a crash in the recomputation itself (recorded as crash:expr3...): nothing
      // sensible can follow, and the shard must not count as complete
      vrt::S().stopped_early = true;
      return;
    }
    // depth 0
    {
      rset l[4];
      for (int i = 0; i < N; ++i)
        for (int k = 0; k < 4; ++k)
          if ((((i + 1) % 16) >> k) & 1)
            l[k].insert(i);
      for (int k = 0; k < 4; ++k)
      {
        std::string const text = "L" + std::to_string(k);
        bool const run = !announce || vrt::begin_text(name.c_str(), name + ": " + text + " = " + show(l[k]));
        BF real(BF::null());
        switch (k)
        {
        case 0:
          real = canon(l[0]);
          break;
        case 1:
        {
          std::vector<E> il;
          for (int i : l[1])
            il.push_back(en(i));
          real = il_table<BF, N + 2>::build(il);
          break;
        }
        case 2:
          real = fcppt::container::bitfield::init<BF>([&](E e) { return l[2].count(idx(e)) != 0; });
          break;
        default:
          for (int i : l[3])
            real |= en(i);
        }
        node const n{real, to_mask(l[k]), text};
        if (announce && run)
          check(n, ~n.ref, ~n.ref);
        base.push_back(n);
        record(n);
      }
    }
    // depth 1 (kept) and depth 2 (only the distinct storage values are kept)
    std::size_t const n0 = base.size();
    for (int depth = 1; depth <= 2; ++depth)
    {
      std::size_t const hi = base.size();
      std::size_t const lo = depth == 1 ? 0 : n0; // trees of depth exactly depth-1 are base[lo..hi)
      std::vector<node> fresh;
      for (std::size_t i = lo; i < hi; ++i)
        for (int u = 0; u < n_unary; ++u)
        {
          std::string const text = text_u(u, base[i].text);
          bool const run = !announce || vrt::begin_text(name.c_str(), name + ": " + text);
          node n = apply_u(u, base[i], text); // also when skipped: the value is an operand later
          if (announce && run)
            check(n, base[i].ref, base[i].ref);
          record(n);
          if (depth == 1)
            fresh.push_back(std::move(n));
        }
      for (std::size_t i = 0; i < hi; ++i)
      {
        if (vrt::out_of_time())
          return;
        for (std::size_t j = 0; j < hi; ++j)
        {
          if (i < lo && j < lo)
            continue; // both shallower: already done at the previous depth
          for (int b = 0; b < n_binary; ++b)
          {
            std::string const text = text_b(b, base[i].text, base[j].text);
            bool const run = !announce || vrt::begin_text(name.c_str(), name + ": " + text);
            node n = apply_b(b, base[i], base[j], text);
            if (announce && run)
              check(n, base[i].ref, base[j].ref);
            record(n);
            if (depth == 1)
              fresh.push_back(std::move(n));
          }
        }
      }
      for (node &n : fresh)
        base.push_back(std::move(n));
    }
    if (announce)
    {
      vrt::count("expr_trees_depth<=2", trees);
      vrt::count("expr_distinct_storage_values_depth<=2" + tag, distinct.size());
      return;
    }
    // depth 3 over the distinct storage values
    for (std::size_t i = 0; i < distinct.size(); ++i)
    {
      if (i % nparts != part)
        continue;
      if (vrt::out_of_time())
        return;
      for (int u = 0; u < n_unary; ++u)
      {
        std::string const text = text_u(u, distinct[i].text);
        if (!vrt::begin_text(name3.c_str(), name3 + ": " + text))
          continue;
        check(apply_u(u, distinct[i], text), distinct[i].ref, distinct[i].ref);
      }
      for (std::size_t j = 0; j < distinct.size(); ++j)
        for (int b = 0; b < n_binary; ++b)
        {
          std::string const text = text_b(b, distinct[i].text, distinct[j].text);
          if (!vrt::begin_text(name3.c_str(), name3 + ": " + text))
            continue;
          check(apply_b(b, distinct[i], distinct[j], text), distinct[i].ref, distinct[j].ref);
        }
    }
    vrt::count("expr3_cases", trees);
  }
};

template <class E, class W, int N>
void register_inst(std::string const &ename, std::string const &wname, unsigned pair_parts, unsigned expr3_parts)
{
  using I = inst<E, W, N>;
  I::tag = "<" + ename + "," + wname + ">";
  std::string const base = ename + "/" + wname;
  vrt::shard("unary/" + base, [] {
    auto const d = I::dom();
    I::construct_all(d);
    I::not_all(d);
    I::element_all(d);
  });
  vrt::shard("proxy_copy/" + base, [] { I::proxy_copy_all(I::dom()); });
  for (unsigned p = 0; p < pair_parts; ++p)
    vrt::shard("proxy_xfer/" + base + "/" + std::to_string(p), [p, pair_parts] { I::proxy_xfer_all(p, pair_parts); });
  vrt::shard("proxy_chain/" + base, [] { I::proxy_chain_all(); });
  for (unsigned p = 0; p < pair_parts; ++p)
    vrt::shard("pair/" + base + "/" + std::to_string(p), [p, pair_parts] { I::pairs(p, pair_parts); });
  vrt::shard("expr/" + base, [] { I::expr(true, 0, 1); });
  for (unsigned p = 0; p < expr3_parts; ++p)
    vrt::shard(
        "expr3/" + base + "/" + std::to_string(p),
        [p, expr3_parts] {
          if (vrt::thorough()) // depth 3 only in the thorough tier
            I::expr(false, p, expr3_parts);
        },
        300); // the unannounced recomputation of the depth<=2 values can take > 10 s on a loaded machine
}

template <class E, int N> void register_enum(std::string const &ename, unsigned pair_parts, unsigned expr3_parts)
{
  register_inst<E, std::uint8_t, N>(ename, "u8", pair_parts, expr3_parts);
  register_inst<E, std::uint16_t, N>(ename, "u16", pair_parts, expr3_parts);
  register_inst<E, std::uint32_t, N>(ename, "u32", pair_parts, expr3_parts);
  register_inst<E, std::uint64_t, N>(ename, "u64", pair_parts, expr3_parts);
}

void register_a();
void register_b();
void register_c();
void register_d();
} // namespace c10

// C20, part 3: make_uniform_indices(_advanced), make_uniform_container(_advanced),
// uniform_container, variates sharing one generator, param() setter.
#include "C20_common.hpp"

#include <fcppt/optional/object_impl.hpp>
#include <fcppt/random/distribution/parameters/make_uniform_indices.hpp>
#include <fcppt/random/distribution/parameters/make_uniform_indices_advanced.hpp>
#include <fcppt/random/distribution/parameters/normal.hpp>
#include <fcppt/random/distribution/parameters/uniform_int_wrapper.hpp>
#include <fcppt/random/wrapper/make_uniform_container.hpp>
#include <fcppt/random/wrapper/make_uniform_container_advanced.hpp>
#include <fcppt/random/wrapper/uniform_container.hpp>

#include <deque>
#include <list>
#include <memory>

namespace
{
using namespace c20;
using wrapper_tag = fcppt::random::distribution::parameters::uniform_int_wrapper;

constexpr int max_size = 6;

template <class C> struct build;
template <> struct build<std::vector<int>>
{
  static constexpr char const *name = "vector<int>";
  static std::vector<int> make(int n)
  {
    std::vector<int> c(static_cast<std::size_t>(n)); // exact capacity: index n is a heap overflow under ASan
    for (int i = 0; i < n; ++i)
      c[static_cast<std::size_t>(i)] = 100 + i;
    return c;
  }
};
template <> struct build<std::vector<std::string>>
{
  static constexpr char const *name = "vector<string>";
  static std::vector<std::string> make(int n)
  {
    std::vector<std::string> c(static_cast<std::size_t>(n));
    for (int i = 0; i < n; ++i)
      c[static_cast<std::size_t>(i)] = "test" + std::to_string(i);
    return c;
  }
};
template <> struct build<std::deque<int>>
{
  static constexpr char const *name = "deque<int>";
  static std::deque<int> make(int n)
  {
    std::deque<int> c;
    for (int i = 0; i < n; ++i)
      c.push_back(100 + i);
    return c;
  }
};
template <> struct build<std::string>
{
  static constexpr char const *name = "string";
  static std::string make(int n) { return std::string(static_cast<std::size_t>(n), 'x'); }
};
template <> struct build<std::list<int>>
{
  static constexpr char const *name = "list<int>";
  static std::list<int> make(int n) { return std::list<int>(static_cast<std::size_t>(n), 7); }
};

// ------------------------------------------------------------------ make_uniform_indices
template <class E, class C> void indices_family()
{
  using size_type = typename C::size_type;
  using P = fcppt::random::distribution::parameters::uniform_int<size_type, wrapper_tag>;
  for (int adv = 0; adv < 2; ++adv)
  {
    std::string const nm = std::string(adv ? "make_uniform_indices_advanced<" : "make_uniform_indices<") + build<C>::name + "," + E::name + ">";
    char const *const fn = intern(nm);
    auto const make = [adv](C const &c) -> fcppt::optional::object<P> {
      return adv ? fcppt::random::distribution::parameters::make_uniform_indices_advanced<wrapper_tag>(c)
                 : fcppt::random::distribution::parameters::make_uniform_indices(c);
    };
    for (int n = 0; n <= max_size; ++n)
    {
      if (vrt::out_of_time())
        return;
      C const c(build<C>::make(n));
      if (n == 0)
      {
        // the guard: no parameters for an empty container (independent of any seed)
        if (!announce(fn, n))
          continue;
        vrt::nontrivial(true);
        vrt::maybe_sample();
        VRT_CHECK(!make(c).has_value(), nm + ":empty_not_rejected", "parameters returned for an empty container");
        continue;
      }
      size_type const lo = 0, hi = static_cast<size_type>(n - 1);
      for (u64 const seed : seeds())
      {
        if (!announce(fn, n, seed))
          continue;
        vrt::nontrivial(n > 1);
        vrt::maybe_sample();
        fcppt::optional::object<P> const op(make(c));
        VRT_CHECK(op.has_value(), nm + ":missing", "nothing returned for a container of size %d", n);
        if (!op.has_value())
          continue;
        P const q{typename P::min(hi), typename P::max(hi)}; // stored while drawing with the factory's parameters per call
        lockstep<E>(nm, op.get_unsafe(), std::uniform_int_distribution<size_type>(lo, hi), seed, true, lo, hi, no_two_arg{}, q,
                    std::uniform_int_distribution<size_type>(hi, hi), hi, hi);
      }
      fcppt::optional::object<P> const op(make(c));
      if (op.has_value())
        ends_case<E>(nm, op.get_unsafe(), lo, hi);
    }
  }
}

// ------------------------------------------------------------------ uniform_container
// CQ is the (possibly const) container type handed to the wrapper.
template <class E, class CQ> void container_family(char const *qual)
{
  using C = std::remove_const_t<CQ>;
  using size_type = typename C::size_type;
  using G = typename E::fc;
  using U = fcppt::random::wrapper::uniform_container<CQ, wrapper_tag>;
  using ref_t = std::conditional_t<std::is_const_v<CQ>, typename C::const_reference, typename C::reference>;
  static_assert(std::is_same_v<typename U::result_type, ref_t>, "result_type is a reference into the container");
  for (int adv = 0; adv < 2; ++adv)
  {
    std::string const nm = std::string(adv ? "make_uniform_container_advanced<" : "make_uniform_container<") + build<C>::name + qual + "," + E::name + ">";
    char const *const fn = intern(nm);
    auto const make = [adv](fcppt::reference<CQ> const r) -> fcppt::optional::object<U> {
      return adv ? fcppt::random::wrapper::make_uniform_container_advanced<wrapper_tag, CQ>(r)
                 : fcppt::random::wrapper::make_uniform_container(r);
    };
    for (int n = 0; n <= max_size; ++n)
    {
      if (vrt::out_of_time())
        return;
      C storage(build<C>::make(n));
      CQ &c = storage;
      if (n == 0)
      {
        if (!announce(fn, n))
          continue;
        vrt::nontrivial(true);
        vrt::maybe_sample();
        VRT_CHECK(!make(fcppt::reference<CQ>(c)).has_value(), nm + ":empty_not_rejected",
                  "a distribution was constructed for an empty container");
        continue;
      }
      size_type const hi = static_cast<size_type>(n - 1);
      for (u64 const seed : seeds())
      {
        if (!announce(fn, n, seed))
          continue;
        vrt::nontrivial(n > 1);
        vrt::maybe_sample();
        fcppt::optional::object<U> const op(make(fcppt::reference<CQ>(c)));
        VRT_CHECK(op.has_value(), nm + ":missing", "nothing returned for a container of size %d", n);
        if (!op.has_value())
          continue;
        // reference: index sequence of std::uniform_int_distribution<size_type>(0,n-1)
        size_type want[DRAWS];
        typename E::sd ref = sd_engine<E>(seed);
        std::uniform_int_distribution<size_type> rd(0, hi);
        for (int i = 0; i < DRAWS; ++i)
          want[i] = rd(ref);
        auto const next_raw = ref();
        auto run = [&](char const *path, auto &&draw, G &g) {
          for (int i = 0; i < DRAWS; ++i)
          {
            ref_t r = draw();
            auto const *const addr = std::addressof(r);
            bool member = false;
            std::size_t which = 0;
            for (std::size_t k = 0; k < static_cast<std::size_t>(n); ++k)
              if (addr == std::addressof(c[k]))
              {
                member = true;
                which = k;
              }
            if (!member)
            {
              vrt::fail(nm + ":not_an_element", vrt::fmt("%s draw %d: result is not an element of the container", path, i));
              return;
            }
            if (which != want[i])
            {
              vrt::fail(nm + ":sequence", vrt::fmt("%s draw %d: element %zu, std index %zu", path, i, which,
                                                   static_cast<std::size_t>(want[i])));
              return;
            }
          }
          auto const raw = g();
          if (raw != next_raw)
            vrt::fail(nm + ":generator_state", vrt::fmt("%s: generator state differs after %d draws", path, DRAWS));
        };
        {
          G g(fc_seed<E>(seed));
          U u(op.get_unsafe());
          run(
              "uniform_container(gen)", [&]() -> ref_t { return u(g); }, g);
        }
        {
          G g(fc_seed<E>(seed));
          U u(fcppt::reference<CQ>(c),
              typename U::param_type(typename U::param_type::min(0U), typename U::param_type::max(hi)));
          run(
              "uniform_container(ref,param)(gen)", [&]() -> ref_t { return u(g); }, g);
        }
        {
          G g(fc_seed<E>(seed));
          auto v = fcppt::random::make_variate(fcppt::make_ref(g), op.get_unsafe());
          run(
              "make_variate(gen,uniform_container)", [&]() -> ref_t { return v(); }, g);
        }
        // histories (see history<>() in C20_common.hpp): a uniform_container used k times, then
        // wrapped in a variate / copied / moved; the reference index distribution is copied at the
        // same points.  uniform_container has no param()/reset(), so those routes do not exist.
        {
          using V = fcppt::random::variate<G, U>;
          using RD = std::uniform_int_distribution<size_type>;
          G g(fc_seed<E>(seed));
          typename E::sd ref2 = sd_engine<E>(seed);
          bool ok = true;
          int pre = 0;
          auto draw_n = [&](char const *what, int const cnt, auto &&fc, RD &sd) {
            for (int i = 0; ok && i < cnt; ++i)
            {
              ref_t r = fc();
              size_type const w = sd(ref2);
              if (std::addressof(r) != std::addressof(c[w]))
              {
                vrt::fail(nm + ":history:" + what,
                          vrt::fmt("after %d earlier draws, draw %d: result is not element %zu (the index std driven the same way gives)",
                                   pre, i, static_cast<std::size_t>(w)));
                ok = false;
              }
            }
          };
          // a second container of the same size for the distributions that get assigned to
          C other_storage(build<C>::make(n));
          CQ &other = other_storage;
          typename U::param_type const full(typename U::param_type::min(0U), typename U::param_type::max(hi));
          for (int k = 0; ok && k <= 3; ++k)
          {
            pre = k;
            U u(op.get_unsafe());
            RD rd2(0, hi);
            draw_n("direct", k, [&]() -> ref_t { return u(g); }, rd2);
            {
              V v(fcppt::make_ref(g), u);
              RD rc(rd2);
              draw_n("variate(gen,used_distribution)", HIST_N, [&]() -> ref_t { return v(); }, rc);
            }
            {
              auto v = fcppt::random::make_variate(fcppt::make_ref(g), u);
              RD rc(rd2);
              draw_n("make_variate(gen,used_distribution)", HIST_N, [&]() -> ref_t { return v(); }, rc);
            }
            draw_n("original_after_wrapping", HIST_N, [&]() -> ref_t { return u(g); }, rd2);
          }
          for (int j = 1; ok && j <= 3; j += 2)
          {
            pre = j;
            U u(op.get_unsafe());
            RD rd2(0, hi);
            draw_n("direct", j, [&]() -> ref_t { return u(g); }, rd2);
            U uc(u);
            RD rc(rd2);
            U t1(u);
            U um(std::move(t1));
            RD rm(rd2);
            draw_n("distribution_copy_constructed", HIST_N, [&]() -> ref_t { return uc(g); }, rc);
            draw_n("distribution_move_constructed", HIST_N, [&]() -> ref_t { return um(g); }, rm);
            // assignability of uniform_container / variate is not documented: exercised only while it exists
            if constexpr (std::is_copy_assignable_v<U>)
            {
              U ua(fcppt::reference<CQ>(other), full);
              ua = u; // must now refer to c, not to other
              RD ra(rd2);
              draw_n("distribution_copy_assigned", HIST_N, [&]() -> ref_t { return ua(g); }, ra);
            }
            else
              vrt::count("info:uniform_container_not_assignable");
            V v(fcppt::make_ref(g), u);
            RD rv(rd2);
            draw_n("variate_direct", j, [&]() -> ref_t { return v(); }, rv);
            V vc(v);
            RD rvc(rv);
            V t2(v);
            V vm(std::move(t2));
            RD rvm(rv);
            draw_n("variate_copy_constructed", HIST_N, [&]() -> ref_t { return vc(); }, rvc);
            draw_n("variate_move_constructed", HIST_N, [&]() -> ref_t { return vm(); }, rvm);
            if constexpr (std::is_copy_assignable_v<V>)
            {
              V va(fcppt::make_ref(g), U(fcppt::reference<CQ>(other), full));
              va = v;
              RD rva(rv);
              draw_n("variate_copy_assigned", HIST_N, [&]() -> ref_t { return va(); }, rva);
            }
            else
              vrt::count("info:variate_not_assignable");
            draw_n("variate_original_after_copies", HIST_N, [&]() -> ref_t { return v(); }, rv);
            draw_n("distribution_original_after_copies", HIST_N, [&]() -> ref_t { return u(g); }, rd2);
          }
          if (ok && g() != ref2())
            vrt::fail(nm + ":history:generator_state", "generator state differs from the std engine after the histories");
        }
      }
      // every element is reached over the seed set
      char const *const fn_all = intern(nm + ":all_elements");
      if (announce(fn_all, n))
      {
        vrt::nontrivial(n > 1);
        fcppt::optional::object<U> const op(make(fcppt::reference<CQ>(c)));
        if (op.has_value())
        {
          std::vector<bool> seen(static_cast<std::size_t>(n), false);
          int nseen = 0;
          for (u64 const seed : seeds())
          {
            G g(fc_seed<E>(seed));
            U u(op.get_unsafe());
            for (int i = 0; i < DRAWS && nseen < n; ++i)
            {
              auto const *const addr = std::addressof(u(g));
              for (std::size_t k = 0; k < static_cast<std::size_t>(n); ++k)
                if (addr == std::addressof(c[k]) && !seen[k])
                {
                  seen[k] = true;
                  ++nseen;
                }
            }
            if (nseen >= n)
              break;
          }
          for (int k = 0; k < n; ++k)
            VRT_CHECK(seen[static_cast<std::size_t>(k)], nm + ":element_never_reached", "element %d of %d never drawn", k, n);
        }
      }
    }
  }
}

// ------------------------------------------------------------------ container histories
// uniform_container keeps a *reference* to the container: the container may be modified between
// draws as long as the index range [0, size at construction) stays valid (shrinking below it is
// outside the contract).  After each modification of the menu every drawn reference must be the
// address of the CURRENT element container[i], i = the index std::uniform_int_distribution gives
// (identity against &container[i]; the value is then read through the drawn reference, under ASan).
// A cached iterator / pointer / copy of the container shows as a stale address (or a
// heap-use-after-free).  Wrapper copies and variates made before and after the modification
// must behave the same.
enum mutation
{
  m_nothing,
  m_overwrite,
  m_push_within_capacity,
  m_push_past_capacity,
  m_grow_then_shrink_to_fit,
  m_assign_same_size,
  m_swap_equal_size,
  m_push_front, // deque only: elements keep their addresses but change their index
  m_count
};
char const *const mutation_name[] = {"nothing",
                                     "overwrite elements in place",
                                     "push_back within capacity",
                                     "push_back past capacity (reallocation)",
                                     "grow, resize back, shrink_to_fit",
                                     "assign same size",
                                     "swap with an equal-size container",
                                     "push_front"};
char const *const mutation_sig[] = {"nothing", "overwrite", "push_back_within_capacity", "push_back_realloc", "shrink_to_fit",
                                    "assign", "swap", "push_front"};

template <class C> typename C::value_type elem(int const i)
{
  using V = typename C::value_type;
  if constexpr (std::is_same_v<V, std::string>)
    return "elem" + std::to_string(i);
  else if constexpr (std::is_same_v<V, char>)
    return static_cast<char>('a' + i % 26);
  else
    return static_cast<V>(1000 + i);
}

template <class C> constexpr bool has_capacity = requires(C &c) { c.reserve(1U); c.capacity(); };
template <class C> constexpr bool has_push_front = requires(C &c, typename C::value_type v) { c.push_front(v); };

template <class C> bool mutation_applies(int const m)
{
  if (m == m_push_front)
    return has_push_front<C>;
  return true;
}

// bring the container into the state the mutation starts from (before the wrapper is built)
template <class C> void prepare(C &c, int const n, int const m)
{
  c = build<C>::make(n);
  if constexpr (has_capacity<C>)
  {
    if (m == m_push_within_capacity)
      c.reserve(static_cast<std::size_t>(n) + 8U);
    else if (m == m_push_past_capacity || m == m_grow_then_shrink_to_fit)
      c.shrink_to_fit(); // small capacity first, so that growing certainly reallocates
  }
}

template <class C> void mutate(C &c, int const n, int const m)
{
  auto const un = static_cast<std::size_t>(n);
  switch (m)
  {
  case m_nothing:
    break;
  case m_overwrite:
    for (std::size_t i = 0; i < un; ++i)
      c[i] = elem<C>(50 + static_cast<int>(i));
    break;
  case m_push_within_capacity:
    for (int i = 0; i < 3; ++i)
      c.push_back(elem<C>(200 + i));
    break;
  case m_push_past_capacity:
  {
    std::size_t extra = 600U; // deque: many new blocks and a new map
    if constexpr (has_capacity<C>)
      extra = c.capacity() - c.size() + 40U;
    for (std::size_t i = 0; i < extra; ++i)
      c.push_back(elem<C>(300 + static_cast<int>(i)));
    break;
  }
  case m_grow_then_shrink_to_fit:
    for (int i = 0; i < 100; ++i)
      c.push_back(elem<C>(400 + i));
    c.resize(un, elem<C>(0));
    c.shrink_to_fit();
    break;
  case m_assign_same_size:
    c.assign(un, elem<C>(77));
    break;
  case m_swap_equal_size:
  {
    C other;
    for (std::size_t i = 0; i < un; ++i)
      other.push_back(elem<C>(500 + static_cast<int>(i)));
    c.swap(other);
    // `other` (the old storage of c) dies here
    break;
  }
  case m_push_front:
    if constexpr (has_push_front<C>)
      for (int i = 0; i < 5; ++i)
        c.push_front(elem<C>(600 + i));
    break;
  default:
    break;
  }
}

template <class E, class CQ> void container_mutation_family(char const *qual)
{
  using C = std::remove_const_t<CQ>;
  using size_type = typename C::size_type;
  using G = typename E::fc;
  using U = fcppt::random::wrapper::uniform_container<CQ, wrapper_tag>;
  using V = fcppt::random::variate<G, U>;
  using RD = std::uniform_int_distribution<size_type>;
  using ref_t = std::conditional_t<std::is_const_v<CQ>, typename C::const_reference, typename C::reference>;
  constexpr int per_wrapper = 10;
  std::string const nm = std::string("uniform_container<") + build<C>::name + qual + "," + E::name + ">";
  char const *const fn = intern("container_history<" + std::string(build<C>::name) + qual + "," + E::name + ">");
  for (int n = 1; n <= max_size; ++n)
    for (int m = 0; m < m_count; ++m)
    {
      if (!mutation_applies<C>(m))
        continue;
      if (vrt::out_of_time())
        return;
      for (int adv = 0; adv < 2; ++adv)
        for (u64 const seed : seeds())
        {
          if (!vrt::begin_text(fn, vrt::fmt("%s(size=%d, %s, %s, seed=%s)", fn, n, mutation_name[m],
                                            adv ? "make_uniform_container_advanced" : "make_uniform_container",
                                            str128(static_cast<i128>(seed)).c_str())))
            continue;
          vrt::nontrivial(m != m_nothing);
          vrt::maybe_sample();
          C storage;
          prepare(storage, n, m);
          CQ &c = storage;
          fcppt::optional::object<U> const op(
              adv ? fcppt::random::wrapper::make_uniform_container_advanced<wrapper_tag, CQ>(fcppt::reference<CQ>(c))
                  : fcppt::random::wrapper::make_uniform_container(fcppt::reference<CQ>(c)));
          if (!op.has_value())
          {
            vrt::fail(nm + ":missing", "nothing returned for a non-empty container");
            continue;
          }
          G g(fc_seed<E>(seed));
          typename E::sd ref = sd_engine<E>(seed);
          size_type const hi = static_cast<size_type>(n - 1);
          RD rd(0, hi);
          bool ok = true;
          std::string const sig = nm + ":after_" + mutation_sig[m];
          auto draw_n = [&](char const *who, auto &&fc) {
            for (int i = 0; ok && i < per_wrapper; ++i)
            {
              ref_t r = fc();
              size_type const w = rd(ref);
              if (std::addressof(r) != std::addressof(c[w]))
              {
                bool elsewhere = false;
                for (std::size_t k = 0; k < c.size(); ++k)
                  elsewhere = elsewhere || std::addressof(r) == std::addressof(c[k]);
                vrt::fail(sig + (elsewhere ? ":sequence" : ":not_a_current_element"),
                          vrt::fmt("%s draw %d: the drawn reference is %s, expected the current element %zu", who, i,
                                   elsewhere ? "another element of the container" : "not the address of any current element",
                                   static_cast<std::size_t>(w)));
                ok = false;
              }
              else if (!(r == c[w])) // reads through the drawn reference
              {
                vrt::fail(sig + ":value", vrt::fmt("%s draw %d: value read differs from element %zu", who, i, static_cast<std::size_t>(w)));
                ok = false;
              }
            }
          };
          U u(op.get_unsafe());
          draw_n("wrapper before the modification", [&]() -> ref_t { return u(g); });
          U copy_before(u);
          V variate_before(fcppt::make_ref(g), u);
          mutate(storage, n, m);
          U copy_after(u);
          V variate_after(fcppt::make_ref(g), u);
          draw_n("wrapper", [&]() -> ref_t { return u(g); });
          draw_n("copy made before the modification", [&]() -> ref_t { return copy_before(g); });
          draw_n("copy made after the modification", [&]() -> ref_t { return copy_after(g); });
          draw_n("variate made before the modification", [&]() -> ref_t { return variate_before(); });
          draw_n("variate made after the modification", [&]() -> ref_t { return variate_after(); });
          if (ok && g() != ref())
            vrt::fail(sig + ":generator_state", "generator state differs from the std engine");
        }
    }
}

// ------------------------------------------------------------------ several variates on one generator
// A variate holds a *reference* to the generator: three variates (int, long, normal<double>)
// drawing in a fixed interleaving from one fcppt generator must see the same numbers as three
// std distributions drawing from one std engine.
struct share_params
{
  int a1, b1;
  long a2, b2;
  double mean, stddev;
};

template <class E> void shared_family()
{
  using G = typename E::fc;
  using P1 = fcppt::random::distribution::parameters::uniform_int<int>;
  using P2 = fcppt::random::distribution::parameters::uniform_int<long>;
  using P3 = fcppt::random::distribution::parameters::normal<double>;
  using D1 = fcppt::random::distribution::basic<P1>;
  using D2 = fcppt::random::distribution::basic<P2>;
  using D3 = fcppt::random::distribution::basic<P3>;
  std::string const nm = std::string("shared_generator<") + E::name + ">";
  char const *const fn = intern(nm);
  share_params const sets[] = {
      {0, 10, -3, 3, 0., 1.},
      {0, 0, 1, 6, 2., 0.5},
      {-8, 8, 0, 1, -1., 5.},
      {std::numeric_limits<int>::min(), std::numeric_limits<int>::max(), 0, 9, 0., 1.},
      {1, 6, std::numeric_limits<long>::min(), std::numeric_limits<long>::max(), 100., 1e-3},
  };
  int k = 0;
  for (share_params const &sp : sets)
  {
    for (u64 const seed : seeds())
    {
      if (!announce(fn, k, seed))
        continue;
      vrt::nontrivial(true);
      vrt::maybe_sample();
      typename E::sd ref = sd_engine<E>(seed);
      std::uniform_int_distribution<int> r1(sp.a1, sp.b1);
      std::uniform_int_distribution<long> r2(sp.a2, sp.b2);
      std::normal_distribution<double> r3(sp.mean, sp.stddev);
      G g(fc_seed<E>(seed));
      fcppt::random::variate<G, D1> v1(fcppt::make_ref(g), P1(P1::min(sp.a1), P1::max(sp.b1)));
      fcppt::random::variate<G, D2> v2(fcppt::make_ref(g), D2(P2::min(sp.a2), P2::max(sp.b2)));
      auto v3 = fcppt::random::make_variate(fcppt::make_ref(g), D3(P3::mean(sp.mean), P3::stddev(sp.stddev)));
      bool ok = true;
      for (int i = 0; i < DRAWS && ok; ++i)
      {
        switch ((i * 7 + i / 5) % 4) // fixed interleaving, includes direct draws from the generator
        {
        case 0:
        {
          int const w = r1(ref), x = v1();
          ok = w == x && sp.a1 <= x && x <= sp.b1;
          break;
        }
        case 1:
        {
          long const w = r2(ref), x = v2();
          ok = w == x && sp.a2 <= x && x <= sp.b2;
          break;
        }
        case 2:
        {
          double const w = r3(ref), x = v3();
          ok = same(w, x);
          break;
        }
        default:
          ok = ref() == g();
        }
        if (!ok)
          vrt::fail(nm + ":sequence", vrt::fmt("step %d (kind %d) differs from the std engine/distributions", i, (i * 7 + i / 5) % 4));
      }
    }
    ++k;
  }
}

// ------------------------------------------------------------------ param() setter
template <class E> void param_set_family()
{
  using G = typename E::fc;
  using P = fcppt::random::distribution::parameters::uniform_int<int>;
  using D = fcppt::random::distribution::basic<P>;
  using PN = fcppt::random::distribution::parameters::normal<double>;
  using DN = fcppt::random::distribution::basic<PN>;
  std::string const nm = std::string("basic::param(set)<") + E::name + ">";
  char const *const fn = intern(nm);
  int const ivs[][2] = {{0, 0}, {0, 1}, {-8, 8}, {3, 5}, {-100, -50}, {std::numeric_limits<int>::min(), std::numeric_limits<int>::max()}};
  for (auto const &i1 : ivs)
    for (auto const &i2 : ivs)
      for (u64 const seed : seeds())
      {
        if (!announce(fn, i1[0], i1[1], i2[0], i2[1], seed))
          continue;
        vrt::nontrivial(i1[0] != i2[0] || i1[1] != i2[1]);
        vrt::maybe_sample();
        typename E::sd ref = sd_engine<E>(seed);
        std::uniform_int_distribution<int> rd(i1[0], i1[1]);
        std::normal_distribution<double> rn(static_cast<double>(i1[0]) / 4., 1. + (i1[1] & 7));
        G g(fc_seed<E>(seed));
        D d{P(P::min(i1[0]), P::max(i1[1]))};
        DN dn{PN(PN::mean(static_cast<double>(i1[0]) / 4.), PN::stddev(1. + (i1[1] & 7)))};
        for (int i = 0; i < DRAWS; ++i)
        {
          if (i == 5)
          {
            rd.param(std::uniform_int_distribution<int>::param_type(i2[0], i2[1]));
            d.param(P(P::min(i2[0]), P::max(i2[1])));
            rn.param(std::normal_distribution<double>::param_type(static_cast<double>(i2[0]) / 4., 1. + (i2[1] & 7)));
            dn.param(PN(PN::mean(static_cast<double>(i2[0]) / 4.), PN::stddev(1. + (i2[1] & 7))));
            VRT_CHECK(d.min() == i2[0] && d.max() == i2[1], nm + ":min_max", "min/max after param(): %d/%d", d.min(), d.max());
            VRT_CHECK(d.param().convert_from() == rd.param(), nm + ":param_getter_after_set",
                      "uniform_int: param() after param(set) is not what was set");
            VRT_CHECK(dn.param().convert_from() == rn.param(), nm + ":param_getter_after_set",
                      "normal: param() after param(set) is not what was set");
          }
          int const lo = i < 5 ? i1[0] : i2[0], hi = i < 5 ? i1[1] : i2[1];
          int const w = rd(ref), x = d(g);
          if (w != x || x < lo || x > hi)
          {
            vrt::fail(nm + ":sequence", vrt::fmt("uniform_int draw %d: got %d, std %d, interval [%d,%d]", i, x, w, lo, hi));
            break;
          }
          double const wn = rn(ref), xn = dn(g);
          if (!same(wn, xn))
          {
            vrt::fail(nm + ":sequence_normal", vrt::fmt("normal draw %d: got %a, std %a", i, xn, wn));
            break;
          }
        }
      }
}
}

void c20::register_container()
{
  vrt::shard("indices/minstd_rand", [] {
    indices_family<eng_minstd, std::vector<int>>();
    indices_family<eng_minstd, std::string>();
    indices_family<eng_minstd, std::deque<int>>();
    indices_family<eng_minstd, std::list<int>>();
  });
  vrt::shard("indices/mt19937", [] {
    indices_family<eng_mt, std::vector<int>>();
    indices_family<eng_mt, std::string>();
    indices_family<eng_mt, std::deque<int>>();
    indices_family<eng_mt, std::list<int>>();
  });
  vrt::shard("container/minstd_rand", [] {
    container_family<eng_minstd, std::vector<int>>("");
    container_family<eng_minstd, std::vector<int> const>(" const");
    container_family<eng_minstd, std::vector<std::string> const>(" const");
    container_family<eng_minstd, std::deque<int>>("");
  });
  vrt::shard("container/mt19937", [] {
    container_family<eng_mt, std::vector<int>>("");
    container_family<eng_mt, std::vector<int> const>(" const");
    container_family<eng_mt, std::vector<std::string> const>(" const");
    container_family<eng_mt, std::deque<int>>("");
  });
  vrt::shard("container_history/minstd_rand", [] {
    container_mutation_family<eng_minstd, std::vector<int>>("");
    container_mutation_family<eng_minstd, std::vector<int> const>(" const");
    container_mutation_family<eng_minstd, std::vector<std::string> const>(" const");
    container_mutation_family<eng_minstd, std::deque<int>>("");
    container_mutation_family<eng_minstd, std::string>("");
  });
  vrt::shard("container_history/mt19937", [] {
    container_mutation_family<eng_mt, std::vector<int>>("");
    container_mutation_family<eng_mt, std::vector<int> const>(" const");
    container_mutation_family<eng_mt, std::vector<std::string> const>(" const");
    container_mutation_family<eng_mt, std::deque<int>>("");
    container_mutation_family<eng_mt, std::string>("");
  });
  vrt::shard("shared_generator", [] {
    shared_family<eng_minstd>();
    shared_family<eng_mt>();
  });
  vrt::shard("param_set/minstd_rand", [] { param_set_family<eng_minstd>(); });
  vrt::shard("param_set/mt19937", [] { param_set_family<eng_mt>(); });
}

// C20, part 2b: enum result types: make_uniform_enum(_advanced) for enums of size 1..9 and
// all sub-intervals of three enums and of a strong typedef around an enum.
#include "C20_common.hpp"

#include <fcppt/random/distribution/parameters/make_uniform_enum.hpp>
#include <fcppt/random/distribution/parameters/make_uniform_enum_advanced.hpp>
#include <fcppt/random/distribution/parameters/uniform_int_wrapper.hpp>

namespace
{
using namespace c20;

// enums of size 1..9 with different underlying types; the size is stated here,
// independently of fcppt_maximum
enum class e1 : int { v0, fcppt_maximum = v0 };
enum class e2 : unsigned { v0, v1, fcppt_maximum = v1 };
enum class e3 : short { v0, v1, v2, fcppt_maximum = v2 };
enum class e4 : long { v0, v1, v2, v3, fcppt_maximum = v3 };
enum class e5 : unsigned long { v0, v1, v2, v3, v4, fcppt_maximum = v4 };
enum class e6 { v0, v1, v2, v3, v4, v5, fcppt_maximum = v5 };
enum class e7 : unsigned short { v0, v1, v2, v3, v4, v5, v6, fcppt_maximum = v6 };
enum class e8 : long long { v0, v1, v2, v3, v4, v5, v6, v7, fcppt_maximum = v7 };
enum class e9 : int { v0, v1, v2, v3, v4, v5, v6, v7, v8, fcppt_maximum = v8 };
enum e3_unscoped : int { u0, u1, u2, fcppt_maximum = u2 }; // classic enum
FCPPT_MAKE_STRONG_TYPEDEF(e9, st_e9); // strong typedef around an enum

// ------------------------------------------------------------------ make_uniform_enum
template <class E, class Enum> void enum_factory(char const *ename, int const size)
{
  using base = std::underlying_type_t<Enum>;
  using P = fcppt::random::distribution::parameters::uniform_int<Enum>;
  static_assert(std::is_same_v<decltype(fcppt::random::distribution::parameters::make_uniform_enum<Enum>()), P>);
  static_assert(
      std::is_same_v<decltype(fcppt::random::distribution::parameters::make_uniform_enum_advanced<
                              fcppt::random::distribution::parameters::uniform_int_wrapper,
                              Enum>()),
                     P>);
  base const lo = 0, hi = static_cast<base>(size - 1);
  for (int adv = 0; adv < 2; ++adv)
  {
    std::string const nm = std::string(adv ? "make_uniform_enum_advanced<" : "make_uniform_enum<") + ename + "," + E::name + ">";
    char const *const fn = intern(nm);
    auto const make = [adv] {
      return adv ? fcppt::random::distribution::parameters::make_uniform_enum_advanced<
                       fcppt::random::distribution::parameters::uniform_int_wrapper,
                       Enum>()
                 : fcppt::random::distribution::parameters::make_uniform_enum<Enum>();
    };
    for (u64 const seed : seeds())
    {
      if (!announce(fn, size, seed))
        continue;
      vrt::nontrivial(size > 1);
      vrt::maybe_sample();
      P const p(make());
      P const q{typename P::min(static_cast<Enum>(hi)), typename P::max(static_cast<Enum>(hi))}; // stored while drawing with p per call
      lockstep<E>(nm, p, std::uniform_int_distribution<base>(lo, hi), seed, true, lo, hi, no_two_arg{}, q,
                  std::uniform_int_distribution<base>(hi, hi), hi, hi);
    }
    if (vrt::out_of_time())
      return;
    {
      // every enumerator (not only the two ends) must be reachable, nothing else
      char const *const fn_all = intern(nm + ":all_enumerators");
      if (announce(fn_all, size))
      {
        vrt::nontrivial(size > 1);
        std::vector<bool> seen(static_cast<std::size_t>(size), false);
        int nseen = 0;
        for (u64 const seed : seeds())
        {
          typename E::fc g(fc_seed<E>(seed));
          fcppt::random::distribution::basic<P> d(make());
          for (int i = 0; i < DRAWS && nseen < size; ++i)
          {
            i128 const v = static_cast<i128>(static_cast<base>(d(g)));
            if (v < 0 || v >= size)
            {
              vrt::fail(nm + ":out_of_bounds", vrt::fmt("enumerator value %s for an enum of size %d", str128(v).c_str(), size));
              nseen = size;
              break;
            }
            if (!seen[static_cast<std::size_t>(v)])
            {
              seen[static_cast<std::size_t>(v)] = true;
              ++nseen;
            }
          }
          if (nseen >= size)
            break;
        }
        for (int k = 0; k < size; ++k)
          VRT_CHECK(seen[static_cast<std::size_t>(k)], nm + ":enumerator_never_reached", "enumerator %d of %d never drawn", k, size);
      }
    }
  }
}

template <class E> void enum_factories()
{
  enum_factory<E, e1>("e1:int", 1);
  enum_factory<E, e2>("e2:unsigned", 2);
  enum_factory<E, e3>("e3:short", 3);
  enum_factory<E, e4>("e4:long", 4);
  enum_factory<E, e5>("e5:unsigned long", 5);
  enum_factory<E, e6>("e6", 6);
  enum_factory<E, e7>("e7:unsigned short", 7);
  enum_factory<E, e8>("e8:long long", 8);
  enum_factory<E, e9>("e9:int", 9);
  enum_factory<E, e3_unscoped>("e3_unscoped", 3);
}

// sub-intervals of an enum: all [a,b] with 0 <= a <= b <= size-1
template <class B> std::vector<std::pair<B, B>> sub_intervals(int const size)
{
  std::vector<std::pair<B, B>> r;
  for (int a = 0; a < size; ++a)
    for (int b = a; b < size; ++b)
      r.emplace_back(static_cast<B>(a), static_cast<B>(b));
  return r;
}
}

void c20::register_enum()
{
  vrt::shard("uniform_int/enum_subintervals/minstd_rand", [] {
    roundtrip_uniform_int<e9>("e9:int", {0, 1, 2, 3, 4, 5, 6, 7, 8});
    roundtrip_uniform_int<e5>("e5:unsigned long", {0, 1, 2, 3, 4});
    roundtrip_uniform_int<e3>("e3:short", {0, 1, 2});
    roundtrip_uniform_int<e8>("e8:long long", {0, 1, 2, 3, 4, 5, 6, 7});
    roundtrip_uniform_int<st_e9>("strong_typedef<e9:int>", {0, 1, 2, 3, 4, 5, 6, 7, 8});
    uniform_int_family<eng_minstd, e9>("e9:int", sub_intervals<int>(9), 0, 1);
    uniform_int_family<eng_minstd, e5>("e5:unsigned long", sub_intervals<unsigned long>(5), 0, 1);
    uniform_int_family<eng_minstd, e3>("e3:short", sub_intervals<short>(3), 0, 1);
    uniform_int_family<eng_minstd, st_e9>("strong_typedef<e9:int>", sub_intervals<int>(9), 0, 1);
  });
  vrt::shard("uniform_int/enum_subintervals/mt19937", [] {
    uniform_int_family<eng_mt, e9>("e9:int", sub_intervals<int>(9), 0, 1);
    uniform_int_family<eng_mt, e5>("e5:unsigned long", sub_intervals<unsigned long>(5), 0, 1);
    uniform_int_family<eng_mt, e3>("e3:short", sub_intervals<short>(3), 0, 1);
    uniform_int_family<eng_mt, st_e9>("strong_typedef<e9:int>", sub_intervals<int>(9), 0, 1);
  });
  vrt::shard("make_uniform_enum/minstd_rand", [] { enum_factories<eng_minstd>(); });
  vrt::shard("make_uniform_enum/mt19937", [] { enum_factories<eng_mt>(); });
}

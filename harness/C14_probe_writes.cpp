// C14 compile probes: assigning a built-in int through an accessor that is documented to
// return a reference has to compile (for int, `accessor(obj) = 7` is ill-formed as soon as
// the accessor returns a copy).  One translation unit per accessor (C14_PROBE_KIND):
//   1 matrix::at_r_c        2 matrix::at_r + vector::at   3 matrix get_unsafe(r).get_unsafe(c)
//   4 matrix mRC()          5 vector::at                  6 vector x()/y()/z()/w()
//   7 vector get_unsafe     8 dim::at                     9 dim w()/h()/d()
//  10 dim get_unsafe       11 row view x()/y() of at_r
#include <fcppt/no_init.hpp>
#include <fcppt/math/dim/at.hpp>
#include <fcppt/math/dim/object_impl.hpp>
#include <fcppt/math/dim/static.hpp>
#include <fcppt/math/matrix/at_r.hpp>
#include <fcppt/math/matrix/at_r_c.hpp>
#include <fcppt/math/matrix/object_impl.hpp>
#include <fcppt/math/matrix/static.hpp>
#include <fcppt/math/vector/at.hpp>
#include <fcppt/math/vector/object_impl.hpp>
#include <fcppt/math/vector/static.hpp>

#ifndef C14_PROBE_KIND
#error "C14_PROBE_KIND not defined"
#endif

namespace fm = fcppt::math::matrix;
namespace fv = fcppt::math::vector;
namespace fd = fcppt::math::dim;

int c14_probe_writes()
{
  fm::static_<int, 2, 3> m{fcppt::no_init{}};
  fv::static_<int, 4> v{fcppt::no_init{}};
  fd::static_<int, 3> d{fcppt::no_init{}};
#if C14_PROBE_KIND == 1
  fm::at_r_c<1, 2>(m) = 7;
  fm::at_r_c<0, 1>(m) += 7;
#elif C14_PROBE_KIND == 2
  auto row = fm::at_r<1>(m);
  fv::at<2>(row) = 7;
  fv::at<0>(row) *= 7;
#elif C14_PROBE_KIND == 3
  m.get_unsafe(1).get_unsafe(2) = 7;
  m.get_unsafe(0).get_unsafe(1) -= 7;
#elif C14_PROBE_KIND == 4
  m.m12() = 7;
  m.m00() += 7;
#elif C14_PROBE_KIND == 5
  fv::at<3>(v) = 7;
  fv::at<0>(v) += 7;
#elif C14_PROBE_KIND == 6
  v.x() = 7;
  v.y() += 7;
  v.z() *= 7;
  v.w() -= 7;
#elif C14_PROBE_KIND == 7
  v.get_unsafe(2) = 7;
  v.get_unsafe(0) += 7;
#elif C14_PROBE_KIND == 8
  fd::at<2>(d) = 7;
  fd::at<0>(d) += 7;
#elif C14_PROBE_KIND == 9
  d.w() = 7;
  d.h() += 7;
  d.d() *= 7;
#elif C14_PROBE_KIND == 10
  d.get_unsafe(2) = 7;
  d.get_unsafe(0) += 7;
#else
  auto row = fm::at_r<0>(m);
  row.x() = 7;
  row.y() += 7;
#endif
  return m.storage()[0] + v.storage()[0] + d.storage()[0];
}

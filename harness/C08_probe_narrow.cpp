// C08 compile probe: the grid position helpers instantiated with narrow size types (unsigned char, unsigned short),
// as C08_pos.cpp and C08_scale.cpp use them.  If a library change makes one of these public uses ill-formed (typically
// an arithmetic expression on T that promotes to int), this probe is the verdict (compile:narrow_size_types) instead
// of a harness build error.
#include <fcppt/container/grid/at_optional.hpp>
#include <fcppt/container/grid/clamped_min.hpp>
#include <fcppt/container/grid/clamped_sup.hpp>
#include <fcppt/container/grid/in_range.hpp>
#include <fcppt/container/grid/in_range_dim.hpp>
#include <fcppt/container/grid/make_pos_range_start_end.hpp>
#include <fcppt/container/grid/min.hpp>
#include <fcppt/container/grid/min_less_sup.hpp>
#include <fcppt/container/grid/next_position.hpp>
#include <fcppt/container/grid/offset.hpp>
#include <fcppt/container/grid/pos.hpp>
#include <fcppt/container/grid/pos_range.hpp>
#include <fcppt/container/grid/range_dim.hpp>
#include <fcppt/container/grid/range_size.hpp>
#include <fcppt/container/grid/sup.hpp>
#include <fcppt/math/dim/static.hpp>
#include <fcppt/math/vector/static.hpp>

template <class S, fcppt::math::size_type N> void probe()
{
  namespace g = fcppt::container::grid;
  using pos = g::pos<S, N>;
  using dim = fcppt::math::dim::static_<S, N>;
  pos const p(fcppt::math::vector::null<pos>());
  dim const d(fcppt::math::dim::null<dim>());
  (void)g::in_range_dim(d, p);
  (void)g::offset(p, d);
  g::min<S, N> const mn{p};
  g::sup<S, N> const sp{p};
  (void)g::min_less_sup(mn, sp);
  // range_dim / range_size / pos_range::size are not instantiated: for types narrower than int they are ill-formed on
  // the unchanged tree already (T - T promotes to int), as C08_pos.cpp notes (has_range_dim)
  (void)g::next_position(p, mn, sp);
  g::pos_range<S, N> const r(mn, sp);
  for (auto const &q : r)
    (void)q;
}

void c08_probe_narrow()
{
  probe<unsigned char, 1>();
  probe<unsigned char, 2>();
  probe<unsigned char, 3>();
  probe<unsigned short, 1>();
  probe<unsigned short, 2>();
  probe<unsigned short, 3>();
}

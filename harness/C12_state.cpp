// C12 (e) -- stream states and retries: every entry point that reads characters, on a std stream that is
// *already* in a non-good state when the entry point is called.
//
// state_initial: the std stream is handed over in each of {good, eofbit, failbit, badbit, failbit|badbit,
//   eofbit|failbit} (setstate before the call) with exceptions() masks {none, badbit, failbit|badbit}.
// state_retry:   a first operation runs into the end of input or breaks the device (the streambuf throws at its
//   k-th read), then -- optionally after set_position(position saved at the start) -- a second operation of each
//   kind runs on the same stream.
// Entry points (char and wchar_t): stream.get_char(), get_char(ref), get_char_error(ref); basic_char /
// basic_literal{' '} / basic_char_set{' ','\t'} through .parse(), parse(), parse_stream(); phrase_parse and
// phrase_parse_stream of basic_char with skipper epsilon / literal{' '} / char_set{' ','\t'}; skipper::run.
//
// Oracle.  Let i be the number of characters consumed so far (observed on the std stream buffer, which the
// harness owns).  An operation must do one of
//   (N) exactly what it does on a healthy stream at i (reference semantics below: verdict, value, characters
//       consumed) -- required when the std stream is good() before the call;
//   (F) report nothing / a failure and consume nothing -- allowed when the std stream is not good() before the call;
//   (X) leave by an exception, consuming no more than (N) would:
//         fcppt::parse::detail::exception  only from the stream-level entry points (member/free get_char,
//             get_char_error, parser.parse(), skipper::run) and only when the stream was not good();
//             parse / phrase_parse / parse_stream / phrase_parse_stream must turn it into a failure result;
//         std::ios_base::failure           only if the caller's exceptions() mask is not empty;
//         the exception of the streambuf   only if the mask contains badbit (the std stream rethrows it);
//         anything else is a violation.
// A character is therefore never reported unless it is the next character of the text, and the process must not
// terminate (a SIGABRT is attributed to the announced case by the coordinator: crash:<entry point>:abort).
// Afterwards get_position, if it returns, must equal the model at the consumed offset (line/column only for
// entry points that read through the same parse stream object).
#include "C12_common.hpp"
#include "C12_faultbuf.hpp"

#include <fcppt/parse/basic_char.hpp>
#include <fcppt/parse/basic_char_set.hpp>
#include <fcppt/parse/basic_literal.hpp>
#include <fcppt/parse/error.hpp>
#include <fcppt/parse/parse.hpp>
#include <fcppt/parse/parse_stream.hpp>
#include <fcppt/parse/phrase_parse.hpp>
#include <fcppt/parse/phrase_parse_stream.hpp>
#include <fcppt/parse/result.hpp>
#include <fcppt/parse/operators/repetition.hpp>
#include <fcppt/parse/skipper/basic_char_set.hpp>
#include <fcppt/parse/skipper/basic_literal.hpp>
#include <fcppt/parse/skipper/epsilon.hpp>
#include <fcppt/parse/skipper/run.hpp>

#include <array>
#include <memory>

namespace
{
using namespace c12;

constexpr int NOPS = 20;
char const *const op_names[NOPS] = {"stream.get_char()",
                                    "get_char(ref)",
                                    "get_char_error(ref)",
                                    "basic_char.parse",
                                    "basic_literal.parse",
                                    "basic_char_set.parse",
                                    "parse(basic_char)",
                                    "parse(basic_literal)",
                                    "parse(basic_char_set)",
                                    "phrase_parse(basic_char,epsilon)",
                                    "phrase_parse(basic_char,skipper::literal)",
                                    "phrase_parse(basic_char,skipper::char_set)",
                                    "skipper::run(literal)",
                                    "skipper::run(char_set)",
                                    "parse_stream(basic_char)",
                                    "parse_stream(basic_literal)",
                                    "parse_stream(basic_char_set)",
                                    "phrase_parse_stream(basic_char,epsilon)",
                                    "phrase_parse_stream(basic_char,skipper::literal)",
                                    "phrase_parse_stream(basic_char,skipper::char_set)"};
// stream-level entry points: an fcppt::parse::detail::exception may reach the caller
bool stream_level(int op) { return op <= 5 || op == 12 || op == 13; }
// entry points that build their own parse stream on the std stream
bool own_stream(int op) { return op >= 14; }

template <class Ch> bool in_set(Ch c) { return c == Ch(' ') || c == Ch('\t'); }

// reference semantics on a healthy stream at index i
struct normal
{
  bool success;
  bool has_value;
  std::size_t value_index; // index of the character that is the value
  std::size_t consumed;
};
template <class Ch> normal reference(int op, std::basic_string<Ch> const &text, std::size_t i)
{
  std::size_t const n = text.size();
  bool const avail = i < n;
  switch (op)
  {
  case 0: case 1: case 2: case 3: case 6: case 9: case 14: case 17: // the next character
    return normal{avail, avail, i, avail ? 1U : 0U};
  case 4: case 7: case 15: // literal ' '
    return normal{avail && text[i] == Ch(' '), false, 0, avail ? 1U : 0U};
  case 5: case 8: case 16: // set
    return normal{avail && in_set(text[i]), avail && in_set(text[i]), i, avail ? 1U : 0U};
  case 12: // skipper literal
    return normal{avail && text[i] == Ch(' '), false, 0, avail ? 1U : 0U};
  case 13:
    return normal{avail && in_set(text[i]), false, 0, avail ? 1U : 0U};
  default: // 10, 11, 18, 19: skipper first, then the next character
  {
    bool const lit = op == 10 || op == 18;
    if (!avail)
      return normal{false, false, 0, 0};
    bool const skip_ok = lit ? text[i] == Ch(' ') : in_set(text[i]);
    if (!skip_ok)
      return normal{false, false, 0, 1};
    bool const more = i + 1 < n;
    return normal{more, more, i + 1, more ? 2U : 1U};
  }
  }
}

enum exc_kind
{
  NO_EXC = 0,
  STREAM_EXC,
  IOS_FAILURE,
  INJECTED,
  FOREIGN
};
template <class Ch> struct outcome
{
  int exc = NO_EXC;
  std::string exc_text;
  bool success = false;
  bool has_value = false;
  Ch value = Ch();
  std::basic_string<Ch> message;
};

template <class Ch> struct world
{
  std::basic_string<Ch> text;
  std::unique_ptr<faulty_buf<Ch>> buf; // device that breaks (state_retry) ...
  std::unique_ptr<std::basic_istringstream<Ch>> iss; // ... or a plain string stream
  std::unique_ptr<std::basic_istream<Ch>> own;
  std::basic_istream<Ch> *is = nullptr;
  std::unique_ptr<real_stream<Ch>> rs;

  // throw_at == 0: std::basic_istringstream
  world(std::basic_string<Ch> const &t, int throw_at) : text(t)
  {
    if (throw_at == 0)
    {
      iss = std::make_unique<std::basic_istringstream<Ch>>(t);
      is = iss.get();
    }
    else
    {
      buf = std::make_unique<faulty_buf<Ch>>(t, THROW_READ, throw_at);
      own = std::make_unique<std::basic_istream<Ch>>(buf.get());
      is = own.get();
    }
    rs = std::make_unique<real_stream<Ch>>(*is);
  }
  // characters consumed from the device; does not touch the std stream's state
  std::size_t offset()
  {
    if (buf)
      return buf->idx;
    return static_cast<std::size_t>(std::streamoff(is->rdbuf()->pubseekoff(0, std::ios_base::cur, std::ios_base::in)));
  }
};

template <class Ch, class R> void take_result(outcome<Ch> &o, R const &r)
{
  o.success = r.has_success();
  if (r.has_success())
  {
    if constexpr (std::is_same_v<std::remove_cvref_t<decltype(r.get_success_unsafe())>, Ch>)
    {
      o.has_value = true;
      o.value = r.get_success_unsafe();
    }
  }
  else
    o.message = r.get_failure_unsafe().get();
}

template <class Ch> outcome<Ch> run_op(world<Ch> &w, int op)
{
  namespace p = fcppt::parse;
  outcome<Ch> o;
  p::basic_char<Ch> const ch{};
  p::basic_literal<Ch> const lit{Ch(' ')};
  p::basic_char_set<Ch> const set{Ch(' '), Ch('\t')};
  p::skipper::basic_literal<Ch> const slit{Ch(' ')};
  p::skipper::basic_char_set<Ch> const sset{Ch(' '), Ch('\t')};
  p::skipper::epsilon const eps{};
  try
  {
    switch (op)
    {
    case 0:
    case 1:
    {
      fcppt::optional::object<Ch> const g = op == 0 ? w.rs->st.get_char() : p::get_char(w.rs->ref());
      o.success = o.has_value = g.has_value();
      if (g.has_value())
        o.value = g.get_unsafe();
      break;
    }
    case 2: take_result(o, p::get_char_error(w.rs->ref())); break;
    case 3: take_result(o, ch.parse(w.rs->ref(), eps)); break;
    case 4: take_result(o, lit.parse(w.rs->ref(), eps)); break;
    case 5: take_result(o, set.parse(w.rs->ref(), eps)); break;
    case 6: take_result(o, p::parse(ch, w.rs->st)); break;
    case 7: take_result(o, p::parse(lit, w.rs->st)); break;
    case 8: take_result(o, p::parse(set, w.rs->st)); break;
    case 9: take_result(o, p::phrase_parse(ch, w.rs->st, eps)); break;
    case 10: take_result(o, p::phrase_parse(ch, w.rs->st, slit)); break;
    case 11: take_result(o, p::phrase_parse(ch, w.rs->st, sset)); break;
    case 12: take_result(o, p::skipper::run(slit, w.rs->ref())); break;
    case 13: take_result(o, p::skipper::run(sset, w.rs->ref())); break;
    case 14: take_result(o, p::parse_stream(ch, *w.is)); break;
    case 15: take_result(o, p::parse_stream(lit, *w.is)); break;
    case 16: take_result(o, p::parse_stream(set, *w.is)); break;
    case 17: take_result(o, p::phrase_parse_stream(ch, *w.is, eps)); break;
    case 18: take_result(o, p::phrase_parse_stream(ch, *w.is, slit)); break;
    case 19: take_result(o, p::phrase_parse_stream(ch, *w.is, sset)); break;
    default: vrt::fail("harness:bad_op", "unknown entry point");
    }
  }
  catch (p::detail::exception<Ch> const &e)
  {
    o.exc = STREAM_EXC;
    o.exc_text = narrow_msg(e.what());
  }
  catch (injected_failure const &e)
  {
    o.exc = INJECTED;
    o.exc_text = e.what();
  }
  catch (std::ios_base::failure const &e)
  {
    o.exc = IOS_FAILURE;
    o.exc_text = e.what();
  }
  catch (std::exception const &e)
  {
    o.exc = FOREIGN;
    o.exc_text = vrt::demangle(typeid(e).name()) + ": " + e.what();
  }
  catch (...)
  {
    o.exc = FOREIGN;
    o.exc_text = "unknown exception";
  }
  return o;
}

std::string state_name(std::ios_base::iostate s)
{
  if (s == std::ios_base::goodbit)
    return "good";
  std::string r;
  auto add = [&](std::ios_base::iostate b, char const *n) {
    if (s & b)
      r += (r.empty() ? "" : "|") + std::string(n);
  };
  add(std::ios_base::eofbit, "eof");
  add(std::ios_base::failbit, "fail");
  add(std::ios_base::badbit, "bad");
  return r;
}

// run entry point `op` and judge it; returns false if the world should not be used further
template <class Ch> void judged_op(world<Ch> &w, int op, std::string const &sigbase, bool through_same_stream)
{
  std::string const t = std::string("<") + cname<Ch>::v + ">";
  std::string const sig = sigbase + ":" + op_names[op] + t;
  std::ios_base::iostate const before_state = w.is->rdstate();
  std::ios_base::iostate const mask = w.is->exceptions();
  bool const healthy = before_state == std::ios_base::goodbit;
  std::size_t const i = w.offset();
  normal const nrm = reference(op, w.text, i);
  outcome<Ch> const o = run_op(w, op);
  std::size_t const after = w.offset();
  std::string const ctx = vrt::fmt("std stream %s, exceptions(%s), %zu of %s consumed", state_name(before_state).c_str(), state_name(mask).c_str(), i,
                                   show_text(w.text).c_str());
  bool consumed_known = true;
  if (o.exc != NO_EXC)
  {
    switch (o.exc)
    {
    case STREAM_EXC:
      VRT_CHECK(stream_level(op), sig + ":stream_exception_escaped", "%s: '%s' escaped instead of becoming a failure result", ctx.c_str(), o.exc_text.c_str());
      VRT_CHECK(!healthy, sig + ":exception_on_good_stream", "%s: '%s' thrown although the std stream was good()", ctx.c_str(), o.exc_text.c_str());
      break;
    case IOS_FAILURE:
      VRT_CHECK(mask != std::ios_base::goodbit, sig + ":ios_failure_not_asked_for", "%s: std::ios_base::failure (%s) escaped although exceptions() is empty",
                ctx.c_str(), o.exc_text.c_str());
      break;
    case INJECTED:
      VRT_CHECK((mask & std::ios_base::badbit) != 0, sig + ":device_exception_escaped", "%s: the exception of the streambuf escaped although exceptions() has no badbit",
                ctx.c_str());
      break;
    default:
      vrt::fail(sig + ":foreign_exception", ctx + ": " + o.exc_text);
    }
    VRT_CHECK(after >= i && after - i <= nrm.consumed, sig + ":consumed_on_exception", "%s: %zu characters consumed before the exception, a healthy run consumes %zu",
              ctx.c_str(), after - i, nrm.consumed);
  }
  else
  {
    bool const as_normal = o.success == nrm.success && o.has_value == nrm.has_value &&
                           (!nrm.has_value || (nrm.value_index < w.text.size() && o.value == w.text[nrm.value_index])) && after - i == nrm.consumed &&
                           after >= i;
    bool const as_failure = !o.success && after == i;
    if (o.has_value)
      VRT_CHECK(nrm.has_value && nrm.value_index < w.text.size() && o.value == w.text[nrm.value_index], sig + ":wrong_char",
                "%s: reported '%s', which is not the next character of the text", ctx.c_str(), show_char(o.value).c_str());
    if (healthy)
      VRT_CHECK(as_normal, sig + ":good_stream", "%s: %s%s, %zu consumed; reference: %s, %zu consumed", ctx.c_str(), o.success ? "success" : "failure",
                o.has_value ? (" '" + show_char(o.value) + "'").c_str() : "", after - i, nrm.success ? "success" : "failure", nrm.consumed);
    else
      VRT_CHECK(as_normal || as_failure, sig + ":failing_stream", "%s: %s%s, %zu consumed; expected a failure that consumes nothing", ctx.c_str(),
                o.success ? "success" : "failure", o.has_value ? (" '" + show_char(o.value) + "'").c_str() : "", after - i);
    consumed_known = as_normal || as_failure;
  }
  // positions stay as the model says
  if (consumed_known)
  {
    try
    {
      position<Ch> const p = fcppt::parse::get_position(w.rs->ref());
      long long const off = static_cast<long long>(std::streamoff(p.pos()));
      VRT_CHECK(off == static_cast<long long>(after), sig + ":position_after", "%s: get_position afterwards says offset %lld, %zu characters are consumed",
                ctx.c_str(), off, after);
      if (through_same_stream && !own_stream(op))
      {
        std::string const d = position_diff(p, w.text, after);
        VRT_CHECK(d.empty(), sig + ":position_after", "%s: afterwards %s", ctx.c_str(), d.c_str());
      }
    }
    catch (fcppt::parse::detail::exception<Ch> const &)
    {
      // get_position on a stream that is (still) failing: the documented report
      VRT_CHECK(w.is->rdstate() != std::ios_base::goodbit || !healthy, sig + ":position_exception", "%s: get_position threw on a good stream", ctx.c_str());
    }
    catch (std::ios_base::failure const &)
    {
      VRT_CHECK(mask != std::ios_base::goodbit, sig + ":ios_failure_not_asked_for", "%s: get_position: std::ios_base::failure although exceptions() is empty",
                ctx.c_str());
    }
  }
}

// stable storage for the case-family names (the coordinator keeps the pointer)
template <class Ch> std::array<std::string, NOPS> const &family_names(char const *family)
{
  static std::map<std::string, std::array<std::string, NOPS>> names;
  auto it = names.find(family);
  if (it == names.end())
  {
    std::array<std::string, NOPS> a;
    for (int op = 0; op < NOPS; ++op)
      a[static_cast<std::size_t>(op)] = std::string(family) + ":" + op_names[op] + "<" + cname<Ch>::v + ">";
    it = names.emplace(family, a).first;
  }
  return it->second;
}

template <class Ch> std::vector<std::basic_string<Ch>> const &texts()
{
  static std::vector<std::basic_string<Ch>> const v = [] {
    std::vector<std::basic_string<Ch>> r;
    for (char const *s : {"", "a", "\n", " ", "\t", " a", "\t\n", "\n ", "a\n", "  "})
      r.push_back(widen<Ch>(s));
    return r;
  }();
  return v;
}

std::ios_base::iostate const states[6] = {std::ios_base::goodbit,
                                          std::ios_base::eofbit,
                                          std::ios_base::failbit,
                                          std::ios_base::badbit,
                                          std::ios_base::failbit | std::ios_base::badbit,
                                          std::ios_base::eofbit | std::ios_base::failbit};
std::ios_base::iostate const masks[3] = {std::ios_base::goodbit, std::ios_base::badbit, std::ios_base::failbit | std::ios_base::badbit};

template <class Ch> void set_mask_and_state(world<Ch> &w, std::ios_base::iostate mask, std::ios_base::iostate st)
{
  w.is->exceptions(mask); // the stream is good here: does not throw
  try
  {
    if (st != std::ios_base::goodbit)
      w.is->setstate(st);
  }
  catch (std::ios_base::failure const &)
  {
    // the caller asked for it; the state is set
  }
}

// ---------------------------------------------------------------- state_initial
char const *const mask_tag[3] = {"[exceptions=none]", "[exceptions=bad]", "[exceptions=fail|bad]"};

// one shard per exceptions() mask m (a crash costs a restart of the shard, and the coordinator gives up after 40)
template <class Ch> void initial_part(int m)
{
  auto const &names = family_names<Ch>((std::string("state_initial") + mask_tag[m]).c_str());
  // states with badbit first: "the device broke earlier" is the situation the statement names
  int const order[6] = {3, 4, 2, 5, 1, 0};
  for (int si = 0; si < 6; ++si)
    for (auto const &text : texts<Ch>())
      for (std::size_t pre = 0; pre <= text.size() && pre <= 1; ++pre) // characters read through the parse stream before the state is set
          for (int op = 0; op < NOPS; ++op)
          {
            int const s = order[si];
            if (!vrt::begin_text(names[static_cast<std::size_t>(op)].c_str(),
                                 vrt::fmt("%s on %s after %zu get_char: std stream handed over with setstate(%s), exceptions(%s)", op_names[op],
                                          show_text(text).c_str(), pre, state_name(states[s]).c_str(), state_name(masks[m]).c_str())))
              continue;
            vrt::nontrivial(s != 0);
            vrt::maybe_sample();
            world<Ch> w(text, 0);
            for (std::size_t i = 0; i < pre; ++i)
              (void)fcppt::parse::get_char(w.rs->ref());
            set_mask_and_state(w, masks[m], states[s]);
            VRT_CHECK(w.is->rdstate() == states[s], "harness:state_setup", "rdstate is %s", state_name(w.is->rdstate()).c_str());
            judged_op(w, op, "state_initial", true);
          }
}

// ---------------------------------------------------------------- state_retry
// first operation: 0 = get_char until it yields nothing; 1 = phrase_parse(*basic_char, stream, epsilon)
template <class Ch> void first_operation(world<Ch> &w, int first, std::string const &sigbase)
{
  std::string const t = std::string("<") + cname<Ch>::v + ">";
  std::ios_base::iostate const mask = w.is->exceptions();
  try
  {
    if (first == 0)
    {
      for (std::size_t guard = 0; guard < w.text.size() + 2; ++guard)
      {
        std::size_t const i = w.offset();
        fcppt::optional::object<Ch> const g = fcppt::parse::get_char(w.rs->ref());
        if (!g.has_value())
          break;
        VRT_CHECK(i < w.text.size() && g.get_unsafe() == w.text[i], sigbase + ":first:get_char" + t + ":wrong_char", "index %zu of %s: %s", i,
                  show_text(w.text).c_str(), show_opt(g).c_str());
      }
    }
    else
    {
      fcppt::parse::result<Ch, std::basic_string<Ch>> const r =
          fcppt::parse::phrase_parse(*fcppt::parse::basic_char<Ch>{}, w.rs->st, fcppt::parse::skipper::epsilon());
      if (r.has_success())
      {
        std::basic_string<Ch> const &v = r.get_success_unsafe();
        VRT_CHECK(v.size() <= w.text.size() && w.text.compare(0, v.size(), v) == 0, sigbase + ":first:phrase_parse" + t + ":not_a_prefix", "%s from %s",
                  show_text(v).c_str(), show_text(w.text).c_str());
        VRT_CHECK(!(w.buf && w.buf->fired_ever), sigbase + ":first:phrase_parse" + t + ":success_on_throwing_buffer", "the device threw, the result is success %s",
                  show_text(v).c_str());
      }
    }
  }
  catch (fcppt::parse::detail::exception<Ch> const &e)
  {
    vrt::fail(sigbase + ":first" + t + ":stream_exception", "'" + narrow_msg(e.what()) + "' from the first operation (the stream was good when it started)");
  }
  catch (injected_failure const &)
  {
    VRT_CHECK((mask & std::ios_base::badbit) != 0, sigbase + ":first" + t + ":device_exception_escaped", "exceptions() has no badbit");
  }
  catch (std::ios_base::failure const &)
  {
    VRT_CHECK(mask != std::ios_base::goodbit, sigbase + ":first" + t + ":ios_failure_not_asked_for", "exceptions() is empty");
  }
}

template <class Ch> void retry_part(int m)
{
  auto const &names = family_names<Ch>((std::string("state_retry") + mask_tag[m]).c_str());
  for (auto const &text : texts<Ch>())
    for (int ti = 0; ti <= static_cast<int>(text.size()) + 1; ++ti)
      for (int first = 0; first < 2; ++first)
        for (int mid = 0; mid < 2; ++mid)
            for (int op = 0; op < NOPS; ++op)
            {
              // the device throws at read #1, #2, .. #n+1; last: healthy device, the first operation reads to the end
              int const throw_at = ti == static_cast<int>(text.size()) + 1 ? 0 : ti + 1;
              std::string const what_first = first == 0 ? "get_char until nothing" : "phrase_parse(*basic_char)";
              std::string const dev = throw_at == 0 ? std::string("string stream") : vrt::fmt("device throws at read #%d", throw_at);
              if (!vrt::begin_text(names[static_cast<std::size_t>(op)].c_str(),
                                   vrt::fmt("%s, exceptions(%s), %s: %s; %s%s", show_text(text).c_str(), state_name(masks[m]).c_str(), dev.c_str(),
                                            what_first.c_str(), mid ? "set_position(saved at start); " : "", op_names[op])))
                continue;
              vrt::nontrivial(true);
              vrt::maybe_sample();
              std::string const t = std::string("<") + cname<Ch>::v + ">";
              world<Ch> w(text, throw_at);
              w.is->exceptions(masks[m]);
              std::optional<position<Ch>> start;
              try
              {
                start = fcppt::parse::get_position(w.rs->ref());
              }
              catch (fcppt::parse::detail::exception<Ch> const &e)
              {
                vrt::fail("state_retry:get_position" + t + ":exception", "'" + narrow_msg(e.what()) + "' on a fresh stream");
                continue;
              }
              first_operation(w, first, "state_retry");
              bool same_stream_location_valid = true;
              if (mid)
              {
                bool const bad = (w.is->rdstate() & std::ios_base::badbit) != 0;
                try
                {
                  fcppt::parse::set_position(w.rs->ref(), *start);
                  VRT_CHECK(w.offset() == 0, "state_retry:set_position" + t + ":offset", "the device is at %zu after set_position(start)", w.offset());
                  VRT_CHECK(w.is->rdstate() == std::ios_base::goodbit || bad, "state_retry:set_position" + t + ":state",
                            "set_position returned normally, the std stream is %s", state_name(w.is->rdstate()).c_str());
                }
                catch (fcppt::parse::detail::exception<Ch> const &e)
                {
                  VRT_CHECK(bad, "state_retry:set_position" + t + ":exception", "'%s' although the device never broke", narrow_msg(e.what()).c_str());
                }
                catch (std::ios_base::failure const &)
                {
                  VRT_CHECK(masks[m] != std::ios_base::goodbit, "state_retry:set_position" + t + ":ios_failure_not_asked_for", "exceptions() is empty");
                  same_stream_location_valid = false;
                }
              }
              judged_op(w, op, "state_retry", same_stream_location_valid);
            }
}
}

void c12::register_state()
{
  for (int m = 0; m < 3; ++m)
  {
    vrt::shard("state_initial<char>/" + std::to_string(m), [m] { initial_part<char>(m); });
    vrt::shard("state_initial<wchar_t>/" + std::to_string(m), [m] { initial_part<wchar_t>(m); });
    vrt::shard("state_retry<char>/" + std::to_string(m), [m] { retry_part<char>(m); });
    vrt::shard("state_retry<wchar_t>/" + std::to_string(m), [m] { retry_part<wchar_t>(m); });
  }
}

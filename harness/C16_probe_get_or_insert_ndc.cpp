// C16 compile probe: get_or_insert / get_or_insert_with_result only need Create to produce the mapped object
// ("_create is called ... to create a new mapped object which is then inserted"): a mapped type without a default
// constructor must be accepted.
#include <fcppt/container/get_or_insert.hpp>
#include <fcppt/container/get_or_insert_with_result.hpp>
#include <map>
#include <unordered_map>

namespace
{
struct no_default
{
  explicit no_default(int const _v) : v{_v} {}
  int v;
};
}

int c16_probe_ndc(std::map<int, no_default> &m, std::unordered_map<int, no_default> &u)
{
  auto const create = [](int const k) { return no_default{k}; };
  return fcppt::container::get_or_insert(m, 1, create).v + fcppt::container::get_or_insert_with_result(u, 2, create).element().v;
}

// C01, part 3: fcppt::filesystem over a private directory tree, options::impl::is_flag / next_arg,
// options::parse / parse_help.
#include "C01_common.hpp"

#include <fcppt/args_vector.hpp>
#include <fcppt/exception.hpp>
#include <fcppt/optional_error_code.hpp>
#include <fcppt/string.hpp>
#include <fcppt/string_view.hpp>
#include <fcppt/text.hpp>
#include <fcppt/either/object_impl.hpp>
#include <fcppt/filesystem/create_directories_recursive.hpp>
#include <fcppt/filesystem/create_directory.hpp>
#include <fcppt/filesystem/directory_range.hpp>
#include <fcppt/filesystem/extension.hpp>
#include <fcppt/filesystem/extension_without_dot.hpp>
#include <fcppt/filesystem/file_size.hpp>
#include <fcppt/filesystem/make_directory_range.hpp>
#include <fcppt/filesystem/make_recursive_directory_range.hpp>
#include <fcppt/filesystem/normalize.hpp>
#include <fcppt/filesystem/num_subpaths.hpp>
#include <fcppt/filesystem/open.hpp>
#include <fcppt/filesystem/open_exn.hpp>
#include <fcppt/filesystem/optional_size.hpp>
#include <fcppt/filesystem/path_to_string.hpp>
#include <fcppt/filesystem/recursive_directory_range.hpp>
#include <fcppt/filesystem/remove_extension.hpp>
#include <fcppt/filesystem/replace_extension.hpp>
#include <fcppt/filesystem/stem.hpp>
#include <fcppt/filesystem/strip_prefix.hpp>
#include <fcppt/optional/object_impl.hpp>
#include <fcppt/options/apply.hpp>
#include <fcppt/options/argument.hpp>
#include <fcppt/options/default_help_switch.hpp>
#include <fcppt/options/flag.hpp>
#include <fcppt/options/long_name.hpp>
#include <fcppt/options/make_active_value.hpp>
#include <fcppt/options/make_default_value.hpp>
#include <fcppt/options/make_inactive_value.hpp>
#include <fcppt/options/make_many.hpp>
#include <fcppt/options/make_optional.hpp>
#include <fcppt/options/no_default_value.hpp>
#include <fcppt/options/option.hpp>
#include <fcppt/options/option_name.hpp>
#include <fcppt/options/option_name_set.hpp>
#include <fcppt/options/optional_help_text.hpp>
#include <fcppt/options/optional_short_name.hpp>
#include <fcppt/options/parse.hpp>
#include <fcppt/options/parse_help.hpp>
#include <fcppt/options/short_name.hpp>
#include <fcppt/options/switch.hpp>
#include <fcppt/options/detail/flag_is_short.hpp>
#include <fcppt/options/impl/is_flag.hpp>
#include <fcppt/options/impl/next_arg.hpp>
#include <fcppt/record/get.hpp>
#include <fcppt/record/make_label.hpp>
#include <fcppt/variant/object_impl.hpp>

#include <dirent.h>
#include <fcntl.h>
#include <filesystem>
#include <fstream>
#include <string>
#include <sys/stat.h>
#include <sys/types.h>
#include <system_error>
#include <unistd.h>
#include <utility>

using namespace c01;
namespace sfs = std::filesystem;

namespace
{
// ------------------------------------------------------------ the private tree
// (re)created at the start of every filesystem shard, also after a restart: the content is a pure function of the code
std::string make_tree(std::string const &tag)
{
  std::string const root = vrt::S().cfg.tmp + "/C01_tree_" + tag;
  std::error_code ec;
  sfs::remove_all(root, ec);
  sfs::create_directories(root + "/dir/sub", ec);
  sfs::create_directories(root + "/emptydir", ec);
  auto put = [&](char const *name, char const *content) {
    std::ofstream f(root + "/" + name, std::ios::binary);
    f << content;
  };
  put("empty", "");
  put("five", "12345");
  put("name.ext", "x");
  put("noext", "xy");
  put(".hidden", "xyz");
  put("a.b.c", "abc");
  put("trail.", "t");
  put("dir/inner.txt", "inner");
  put("dir/sub/deep", "d");
  int r = 0;
  r |= ::symlink("nowhere", (root + "/dangling").c_str());
  r |= ::symlink("five", (root + "/link_five").c_str());
  r |= ::symlink("dir", (root + "/link_dir").c_str());
  r |= ::symlink("loop", (root + "/loop").c_str());
  if (r != 0)
    vrt::fail("harness:tree", "cannot create the symlinks of the private tree in " + root);
  return root;
}

struct fs_case
{
  std::string text; // path as written
  bool real;        // below the private root
  bool touch;       // the functions that look at the file system are run on it (never on relative paths that exist: they
                    // would depend on the working directory)
};

std::vector<fs_case> fs_paths(std::string const &root)
{
  std::vector<fs_case> r;
  for (char const *n : {"missing", "empty", "five", "dir", "dir/", "dir/.", "dir/..", "dir/inner.txt", "dir/sub", "emptydir", "dangling",
                        "link_five", "link_dir", "link_dir/inner.txt", "loop", "name.ext", "noext", ".hidden", "a.b.c", "trail.",
                        "missing/deeper", "five/below", "five/", "missing.ext", "dir//inner.txt", ""})
    r.push_back({root + "/" + n, true, true});
  for (char const *n : {"", ".", "..", "/", "//", "a/b/c.d", "a/.b", "a/b.", "a//b.c", "/x.y", "...", "a/..", "a/.", "a.b/c", ".x.y", "x..y",
                        "a/b/", " ", "-", "nonexistent-C01/none.txt"})
    r.push_back({n, false, std::string(n).empty() || n[0] == 'n'});
  return r;
}

// independent reference: POSIX stat
bool ref_regular_size(std::string const &p, std::uintmax_t &size)
{
  struct stat st;
  if (::stat(p.c_str(), &st) != 0 || !S_ISREG(st.st_mode))
    return false;
  size = static_cast<std::uintmax_t>(st.st_size);
  return true;
}

long ref_dir_entries(std::string const &p) // -1: cannot be opened as a directory
{
  DIR *d = ::opendir(p.c_str());
  if (!d)
    return -1;
  long n = 0;
  while (dirent *e = ::readdir(d))
  {
    std::string const name = e->d_name;
    if (name != "." && name != "..")
      ++n;
  }
  ::closedir(d);
  return n;
}

long ref_tree_entries(std::string const &p) // recursive, not following symlinks; -1: cannot be opened
{
  DIR *d = ::opendir(p.c_str());
  if (!d)
    return -1;
  long n = 0;
  std::vector<std::string> subs;
  while (dirent *e = ::readdir(d))
  {
    std::string const name = e->d_name;
    if (name == "." || name == "..")
      continue;
    ++n;
    struct stat st;
    if (::lstat((p + "/" + name).c_str(), &st) == 0 && S_ISDIR(st.st_mode))
      subs.push_back(p + "/" + name);
  }
  ::closedir(d);
  for (auto const &s : subs)
  {
    long const k = ref_tree_entries(s);
    if (k > 0)
      n += k;
  }
  return n;
}

void filesystem_queries()
{
  std::string const root = make_tree("q");
  auto const paths = fs_paths(root);
  auto rel = [&](fs_case const &c) { return c.real ? "<root>" + c.text.substr(root.size()) : "\"" + c.text + "\""; };

  entry e_size("filesystem::file_size");
  entry e_ext("filesystem::extension");
  entry e_extnd("filesystem::extension_without_dot");
  entry e_stem("filesystem::stem");
  entry e_rmext("filesystem::remove_extension");
  entry e_repl("filesystem::replace_extension");
  entry e_norm("filesystem::normalize");
  entry e_nsub("filesystem::num_subpaths");
  entry e_p2s("filesystem::path_to_string");
  entry e_strip("filesystem::strip_prefix", "prefix that is not a prefix of path (documented: behaviour undefined)");
  entry e_range("filesystem::make_directory_range");
  entry e_rrange("filesystem::make_recursive_directory_range");
  entry e_open("filesystem::open<std::ifstream>");
  entry e_openx("filesystem::open_exn<std::ifstream>");
  vrt::info("documented_exception:filesystem::open_exn", "\"fcppt::exception (open_exn.hpp: throw an exception on failure)\"");

  for (auto const &c : paths)
  {
    sfs::path const p(c.text);
    std::string const d = rel(c);
    std::uintmax_t rsize = 0;
    bool const regular = ref_regular_size(c.text, rsize);

    if (c.touch && e_size.begin_text(d))
    {
      vrt::nontrivial(!regular);
      vrt::maybe_sample();
      guarded(e_size.name, [&] {
        fcppt::filesystem::optional_size const r = fcppt::filesystem::file_size(p);
        VRT_CHECK(r.has_value() == regular, e_size.name + (regular ? ":missing" : ":spurious"), "has_value=%d", (int)r.has_value());
        if (regular && r.has_value())
          VRT_CHECK(r.get_unsafe() == rsize, e_size.name + ":wrong_size", "got %llu want %llu", (unsigned long long)r.get_unsafe(),
                    (unsigned long long)rsize);
      });
    }
    // lexical reference: last component after the last '/', split at its last dot (not a leading one, not "." / "..")
    std::string fname = c.text.substr(c.text.find_last_of('/') == std::string::npos ? 0 : c.text.find_last_of('/') + 1);
    std::string rstem = fname, rext;
    if (fname != "." && fname != "..")
    {
      std::size_t const dot = fname.find_last_of('.');
      if (dot != std::string::npos && dot != 0)
      {
        rstem = fname.substr(0, dot);
        rext = fname.substr(dot);
      }
    }
    if (e_ext.begin_text(d))
    {
      vrt::nontrivial(rext.empty() || fname[0] == '.');
      guarded(e_ext.name, [&] {
        fcppt::string const r = fcppt::filesystem::extension(p);
        VRT_CHECK(r == rext, e_ext.name + ":wrong", "got \"%s\" want \"%s\"", r.c_str(), rext.c_str());
      });
    }
    if (e_extnd.begin_text(d))
    {
      vrt::nontrivial(rext.empty() || fname[0] == '.');
      vrt::maybe_sample();
      guarded(e_extnd.name, [&] {
        fcppt::string const r = fcppt::filesystem::extension_without_dot(p);
        std::string const want = rext.empty() ? rext : rext.substr(1);
        VRT_CHECK(r == want, e_extnd.name + ":wrong", "got \"%s\" want \"%s\"", r.c_str(), want.c_str());
      });
    }
    if (e_stem.begin_text(d))
    {
      vrt::nontrivial(rext.empty() || fname[0] == '.');
      guarded(e_stem.name, [&] {
        fcppt::string const r = fcppt::filesystem::stem(p);
        VRT_CHECK(r == rstem, e_stem.name + ":wrong", "got \"%s\" want \"%s\"", r.c_str(), rstem.c_str());
      });
    }
    if (e_rmext.begin_text(d))
    {
      vrt::nontrivial(rext.empty() || fname[0] == '.');
      vrt::maybe_sample();
      guarded(e_rmext.name, [&] {
        sfs::path const r = fcppt::filesystem::remove_extension(p);
        // documented: the extension including the dot is removed if there is one; compared up to redundant separators
        std::string const want = c.text.substr(0, c.text.size() - rext.size());
        VRT_CHECK(r.lexically_normal() == sfs::path(want).lexically_normal(), e_rmext.name + ":wrong", "got \"%s\" want \"%s\"",
                  r.string().c_str(), want.c_str());
      });
    }
    for (char const *x : {"", "x", "tar.gz", ".x", "-"})
    {
      if (!e_repl.begin_text(d + ", \"" + x + "\""))
        continue;
      vrt::nontrivial(x[0] == 0 || rext.empty());
      exact<char> const buf{std::string(x)};
      guarded(e_repl.name, [&] {
        sfs::path const r = fcppt::filesystem::replace_extension(p, buf.view());
        if (!fname.empty() && fname != "." && fname != ".." && x[0] != 0 && x[0] != '.')
          // documented: "Replaces the extension of path with new_extension ... excluding the dot"; compared up to redundant
          // separators, like remove_extension
          VRT_CHECK(r.lexically_normal() == sfs::path(c.text.substr(0, c.text.size() - rext.size()) + "." + x).lexically_normal(),
                    e_repl.name + ":wrong", "got \"%s\"", r.string().c_str());
      });
    }
    if (e_norm.begin_text(d))
    {
      vrt::nontrivial(!c.text.empty() && c.text.back() == '/');
      guarded(e_norm.name, [&] { (void)fcppt::filesystem::normalize(p); });
    }
    std::size_t ncomp = 0;
    for (auto it = p.begin(); it != p.end(); ++it)
      ++ncomp;
    if (e_nsub.begin_text(d))
    {
      vrt::nontrivial(ncomp <= 1);
      guarded(e_nsub.name, [&] {
        std::size_t const r = fcppt::filesystem::num_subpaths(p);
        VRT_CHECK(r == ncomp, e_nsub.name + ":wrong", "got %zu want %zu", r, ncomp);
      });
    }
    if (e_p2s.begin_text(d))
    {
      vrt::nontrivial(c.text.empty());
      guarded(e_p2s.name, [&] {
        fcppt::string const r = fcppt::filesystem::path_to_string(p);
        VRT_CHECK(r == c.text, e_p2s.name + ":wrong", "got \"%s\"", r.c_str());
      });
    }
    // every prefix of p that consists of its first k components
    {
      sfs::path prefix;
      auto it = p.begin();
      for (std::size_t k = 0; k <= ncomp; ++k)
      {
        if (k > 0)
        {
          prefix /= *it;
          ++it;
        }
        if (!e_strip.begin_text("first " + std::to_string(k) + " of " + std::to_string(ncomp) + " components of " + d))
          continue;
        vrt::nontrivial(k == 0 || k == ncomp);
        vrt::maybe_sample();
        guarded(e_strip.name, [&] {
          sfs::path const r = fcppt::filesystem::strip_prefix(prefix, p);
          std::size_t n = 0;
          for (auto j = r.begin(); j != r.end(); ++j)
            ++n;
          if (k == ncomp)
            VRT_CHECK(r.empty(), e_strip.name + ":not_empty", "stripping the whole path left \"%s\"", r.string().c_str());
          if (k == 0)
            VRT_CHECK(r.lexically_normal() == p.lexically_normal(), e_strip.name + ":changed", "stripping nothing gave \"%s\"",
                      r.string().c_str());
        });
      }
    }
    long const rentries = c.touch ? ref_dir_entries(c.text) : -1;
    if (c.touch && e_range.begin_text(d))
    {
      vrt::nontrivial(rentries <= 0);
      vrt::maybe_sample();
      guarded(e_range.name, [&] {
        auto const r = fcppt::filesystem::make_directory_range(p, sfs::directory_options::none);
        VRT_CHECK(r.has_success() == (rentries >= 0), e_range.name + (rentries >= 0 ? ":missing" : ":spurious"), "has_success=%d",
                  (int)r.has_success());
        if (r.has_success())
        {
          long n = 0;
          for (sfs::directory_entry const &en : r.get_success_unsafe())
          {
            (void)en;
            ++n;
          }
          VRT_CHECK(n == rentries, e_range.name + ":wrong_count", "%ld entries, readdir sees %ld", n, rentries);
        }
      });
    }
    long const rtree = c.touch ? ref_tree_entries(c.text) : -1;
    if (c.touch && e_rrange.begin_text(d))
    {
      vrt::nontrivial(rtree <= 0);
      guarded(e_rrange.name, [&] {
        auto const r = fcppt::filesystem::make_recursive_directory_range(p, sfs::directory_options::none);
        VRT_CHECK(r.has_success() == (rtree >= 0), e_rrange.name + (rtree >= 0 ? ":missing" : ":spurious"), "has_success=%d",
                  (int)r.has_success());
        if (r.has_success())
        {
          long n = 0;
          for (sfs::directory_entry const &en : r.get_success_unsafe())
          {
            (void)en;
            ++n;
          }
          VRT_CHECK(n == rtree, e_rrange.name + ":wrong_count", "%ld entries, the reference walk sees %ld", n, rtree);
        }
      });
    }
    int const fd = c.touch ? ::open(c.text.c_str(), O_RDONLY) : -1;
    if (fd >= 0)
      ::close(fd);
    if (c.touch && e_open.begin_text(d))
    {
      vrt::nontrivial(fd < 0);
      guarded(e_open.name, [&] {
        auto const r = fcppt::filesystem::open<std::ifstream>(p, std::ios_base::in);
        if (regular)
          VRT_CHECK(r.has_value(), e_open.name + ":missing", "readable regular file not opened");
        if (fd < 0)
          VRT_CHECK(!r.has_value(), e_open.name + ":spurious", "open(2) fails but a stream was returned");
      });
    }
    if (c.touch && e_openx.begin_text(d))
    {
      vrt::nontrivial(fd < 0);
      int const how = guarded_allow<fcppt::exception>(e_openx.name, [&] {
        std::ifstream const s = fcppt::filesystem::open_exn<std::ifstream>(p, std::ios_base::in);
        VRT_CHECK(s.is_open(), e_openx.name + ":closed", "returned a closed stream");
      });
      if (regular)
        VRT_CHECK(how == 1, e_openx.name + ":missing", "readable regular file not opened");
      if (fd < 0)
        VRT_CHECK(how == 0, e_openx.name + ":spurious", "open(2) fails but no exception");
      if (how == 0)
        vrt::count("documented_exception:filesystem::open_exn");
    }
  }
}

// the two functions that change the file system: every case starts from the pristine tree state for that path
void filesystem_create()
{
  std::string const root = make_tree("c");
  entry e_cd("filesystem::create_directory");
  entry e_cdr("filesystem::create_directories_recursive");
  for (char const *n : {"missing", "empty", "five", "dir", "dir/", "dir/sub", "emptydir", "dangling", "link_five", "link_dir", "loop",
                        "missing/deeper", "five/below", "dir/new", "dir/new/", "link_dir/new", "new.ext", "a/b/c", "dir/sub/x/y/z", ""})
  {
    std::string const text = root + "/" + n;
    sfs::path const p(text);
    std::string const d = std::string("<root>/") + n;
    for (int which = 0; which < 2; ++which)
    {
      entry &e = which ? e_cdr : e_cd;
      if (!e.begin_text(d))
        continue;
      struct stat st;
      bool const existed = ::lstat(text.c_str(), &st) == 0;
      bool const was_dir = ::stat(text.c_str(), &st) == 0 && S_ISDIR(st.st_mode);
      // the first component below root that does not exist yet (to restore the tree afterwards)
      std::string first_new;
      {
        std::string cur = root;
        std::string rest = n;
        while (!rest.empty())
        {
          std::size_t const s = rest.find('/');
          std::string const comp = rest.substr(0, s);
          rest = s == std::string::npos ? "" : rest.substr(s + 1);
          if (comp.empty())
            continue;
          cur += "/" + comp;
          struct stat t;
          if (::lstat(cur.c_str(), &t) != 0)
          {
            first_new = cur;
            break;
          }
        }
      }
      vrt::nontrivial(existed && !was_dir);
      vrt::maybe_sample();
      guarded(e.name, [&] {
        fcppt::optional_error_code const r =
            which ? fcppt::filesystem::create_directories_recursive(p) : fcppt::filesystem::create_directory(p);
        struct stat t;
        bool const is_dir = ::stat(text.c_str(), &t) == 0 && S_ISDIR(t.st_mode);
        // C01: a failure has to be reported through the optional_error_code: no error => the path is a directory afterwards
        if (!is_dir)
          VRT_CHECK(r.has_value(), e.name + ":silent_failure", "no error reported but the path is not a directory afterwards");
        // the converse (no error for a path that is a directory afterwards, in particular for one that already existed) is
        // what std::filesystem::create_directory does but not what the fcppt documentation promises: information only
        if (is_dir)
          C01_INFO(!r.has_value(), e.name + ":error_although_directory_exists");
      });
      if (!first_new.empty())
      {
        std::error_code ec;
        sfs::remove_all(first_new, ec);
      }
    }
  }
}

// ------------------------------------------------------------ options::impl
std::vector<std::string> flag_strings() { return all_strings<char>("-a1 ", vrt::thorough() ? 8U : 5U); }

void is_flag_all()
{
  entry e("options::impl::is_flag");
  for (auto const &s : flag_strings())
  {
    if (!e.begin_text(show(s)))
      continue;
    vrt::nontrivial(!s.empty() && s[0] == '-');
    vrt::maybe_sample();
    exact<char> const buf(s); // exactly s.size() bytes: a read at end() is a heap-buffer-overflow
    guarded(e.name, [&] {
      auto const r = fcppt::options::impl::is_flag(buf.view());
      // is_flag is an undocumented internal function: what it returns is an implementation detail of options::parse
      // (whose results are the subject of C03); only its totality is a verdict here, the values are information
      bool const flag = !s.empty() && s[0] == '-';
      C01_INFO(r.has_value() == flag, e.name + (flag ? ":missing" : ":spurious"));
      if (flag && r.has_value() && s.size() >= 2) // "-" alone: no expectation about the name
      {
        bool const is_long = s[1] == '-';
        std::string const name = s.substr(is_long ? 2 : 1);
        C01_INFO(r.get_unsafe().first.get() == !is_long && r.get_unsafe().second == name, e.name + ":wrong");
      }
    });
  }
}

std::vector<std::vector<std::string>> arg_vectors(std::vector<std::string> const &tokens, unsigned maxlen)
{
  std::vector<std::vector<std::string>> r{{}};
  std::size_t from = 0;
  for (unsigned l = 1; l <= maxlen; ++l)
  {
    std::size_t const to = r.size();
    for (std::size_t i = from; i < to; ++i)
      for (auto const &t : tokens)
      {
        auto v = r[i];
        v.push_back(t);
        r.push_back(v);
      }
    from = to;
  }
  return r;
}

std::string show_args(std::vector<std::string> const &a)
{
  std::string r = "[";
  for (std::size_t i = 0; i < a.size(); ++i)
    r += (i ? "," : "") + ("\"" + a[i] + "\"");
  return r + "]";
}

std::vector<std::string> const base_tokens{"-", "--", "-a", "--a", "x", "1"};

void next_arg_all()
{
  entry e("options::impl::next_arg");
  for (auto const &args : arg_vectors(base_tokens, vrt::thorough() ? 5U : 3U))
    for (int set = 0; set < 4; ++set) // bit 0: short option "a", bit 1: long option "a"
    {
      if (!e.begin_text(show_args(args) + ", options {" + ((set & 1) ? "-a " : "") + ((set & 2) ? "--a" : "") + "}"))
        continue;
      bool has_lone_dash = false;
      for (auto const &a : args)
        has_lone_dash = has_lone_dash || a == "-";
      vrt::nontrivial(!args.empty() && args[0][0] == '-');
      vrt::maybe_sample();
      guarded(e.name, [&] {
        fcppt::options::option_name_set names;
        if (set & 1)
          names.insert(fcppt::options::option_name{fcppt::string{"a"}, fcppt::options::option_name::is_short{true}});
        if (set & 2)
          names.insert(fcppt::options::option_name{fcppt::string{"a"}, fcppt::options::option_name::is_short{false}});
        fcppt::args_vector const v(args.begin(), args.end());
        auto const r = fcppt::options::impl::next_arg(v, names);
        if (r.has_value())
          VRT_CHECK(r.get_unsafe() >= v.begin() && r.get_unsafe() < v.end(), e.name + ":out_of_range", "iterator outside the vector");
        if (!has_lone_dash)
        {
          // reference: flags are skipped; a flag whose name is an option name also skips its value
          std::size_t cur = 0;
          long want = -1;
          while (cur < args.size())
          {
            std::string const &a = args[cur];
            if (a[0] != '-')
            {
              want = static_cast<long>(cur);
              break;
            }
            bool const is_long = a.size() >= 2 && a[1] == '-';
            std::string const name = a.substr(is_long ? 2 : 1);
            ++cur;
            if (cur < args.size() && name == "a" && (set & (is_long ? 2 : 1)))
              ++cur;
          }
          long const got = r.has_value() ? static_cast<long>(r.get_unsafe() - v.begin()) : -1;
          // which argument an internal helper picks is an implementation detail (C03 checks the parse results): information
          C01_INFO(got == want, e.name + ":wrong");
        }
      });
    }
}

// ------------------------------------------------------------ options::parse
FCPPT_RECORD_MAKE_LABEL(l_switch);
FCPPT_RECORD_MAKE_LABEL(l_flag);
FCPPT_RECORD_MAKE_LABEL(l_option);
FCPPT_RECORD_MAKE_LABEL(l_arg);
FCPPT_RECORD_MAKE_LABEL(l_arg2);

namespace o = fcppt::options;

auto mk_switch()
{
  // (a short and a long name may not be equal: documented duplicate_names from the constructor)
  return o::switch_<l_switch>{o::optional_short_name{o::short_name{FCPPT_TEXT("a")}}, o::long_name{FCPPT_TEXT("all")}, o::optional_help_text{}};
}
auto mk_flag()
{
  return o::flag<l_flag, int>{o::optional_short_name{}, o::long_name{FCPPT_TEXT("a")},
                              o::make_active_value(1), o::make_inactive_value(0), o::optional_help_text{}};
}
auto mk_option()
{
  return o::option<l_option, int>{o::optional_short_name{o::short_name{FCPPT_TEXT("a")}}, o::long_name{FCPPT_TEXT("opt")},
                                  o::no_default_value<int>(), o::optional_help_text{}};
}
auto mk_option_default()
{
  return o::option<l_option, int>{o::optional_short_name{}, o::long_name{FCPPT_TEXT("a")},
                                  o::make_default_value(fcppt::optional::object<int>{7}), o::optional_help_text{}};
}
auto mk_arg_int() { return o::argument<l_arg, int>{o::long_name{FCPPT_TEXT("arg")}, o::optional_help_text{}}; }
auto mk_arg_str() { return o::argument<l_arg2, fcppt::string>{o::long_name{FCPPT_TEXT("arg2")}, o::optional_help_text{}}; }

template <class Parser> void parse_with(char const *pname, Parser const &parser, std::vector<std::vector<std::string>> const &vectors)
{
  entry e(std::string("options::parse<") + pname + ">");
  for (auto const &args : vectors)
  {
    if (!e.begin_text(show_args(args)))
      continue;
    vrt::nontrivial(!args.empty() && args[0][0] == '-');
    vrt::maybe_sample();
    guarded(e.name, [&] {
      fcppt::args_vector const v(args.begin(), args.end());
      auto const r = o::parse(parser, v);
      if (r.has_success())
        vrt::count("options::parse successes");
      VRT_CHECK(r.has_success() != r.has_failure(), e.name + ":either", "neither success nor failure");
    });
  }
}

template <class Parser> void parse_help_with(char const *pname, Parser const &parser, std::vector<std::vector<std::string>> const &vectors)
{
  entry e(std::string("options::parse_help<") + pname + ">");
  auto const help = o::default_help_switch();
  for (auto const &args : vectors)
  {
    if (!e.begin_text(show_args(args)))
      continue;
    bool has_help = false;
    for (auto const &a : args)
      has_help = has_help || a == "--help";
    vrt::nontrivial(has_help);
    vrt::maybe_sample();
    guarded(e.name, [&] {
      fcppt::args_vector const v(args.begin(), args.end());
      auto const r = o::parse_help(help, parser, v);
      (void)r;
    });
  }
}

void options_parse_a()
{
  auto const vectors = arg_vectors(base_tokens, vrt::thorough() ? 5U : 3U);
  parse_with("switch -a/--all", mk_switch(), vectors);
  parse_with("flag<int> --a", mk_flag(), vectors);
  parse_with("option<int> -a/--opt", mk_option(), vectors);
  parse_with("option<int> --a with default", mk_option_default(), vectors);
  parse_with("argument<int>", mk_arg_int(), vectors);
  parse_with("argument<string>", mk_arg_str(), vectors);
}

void options_parse_b()
{
  auto const vectors = arg_vectors(base_tokens, vrt::thorough() ? 5U : 3U);
  parse_with("apply(argument<int>,switch)", o::apply(mk_arg_int(), mk_switch()), vectors);
  parse_with("apply(option<int>,argument<string>)", o::apply(mk_option(), mk_arg_str()), vectors);
  parse_with("optional(argument<int>)", o::make_optional(mk_arg_int()), vectors);
  parse_with("many(argument<string>)", o::make_many(mk_arg_str()), vectors);
  parse_with("apply(many(argument<int>),flag<int>)", o::apply(o::make_many(mk_arg_int()), mk_flag()), vectors);
}

void options_parse_help()
{
  auto tokens = base_tokens;
  tokens.push_back("--help");
  tokens.push_back("-h");
  auto const vectors = arg_vectors(tokens, vrt::thorough() ? 4U : 3U);
  parse_help_with("argument<int>", mk_arg_int(), vectors);
  parse_help_with("apply(option<int>,argument<string>)", o::apply(mk_option(), mk_arg_str()), vectors);
}
}

void c01::register_fs_options()
{
  vrt::shard("filesystem_queries", [] { filesystem_queries(); });
  vrt::shard("filesystem_create", [] { filesystem_create(); });
  vrt::shard("options_is_flag", [] { is_flag_all(); });
  vrt::shard("options_next_arg", [] { next_arg_all(); });
  vrt::shard("options_parse_a", [] { options_parse_a(); });
  vrt::shard("options_parse_b", [] { options_parse_b(); });
  vrt::shard("options_parse_help", [] { options_parse_help(); });
}

// C20, part 2: strong-typedef / enum result types (re-wrapping), make_uniform_enum(_advanced)
// for enums of size 1..9, uniform_real and normal (bit-exact transparency).
#include "C20_common.hpp"

#include <fcppt/random/distribution/parameters/make_uniform_enum.hpp>
#include <fcppt/random/distribution/parameters/make_uniform_enum_advanced.hpp>
#include <fcppt/random/distribution/parameters/normal.hpp>
#include <fcppt/random/distribution/parameters/uniform_int_wrapper.hpp>
#include <fcppt/random/distribution/parameters/uniform_real.hpp>

namespace
{
using namespace c20;

// ------------------------------------------------------------------ result types
FCPPT_MAKE_STRONG_TYPEDEF(int, st_int);
FCPPT_MAKE_STRONG_TYPEDEF(short, st_short);
FCPPT_MAKE_STRONG_TYPEDEF(unsigned long, st_ulong);
FCPPT_MAKE_STRONG_TYPEDEF(st_int, st_st_int); // nested: two type constructors to strip / re-apply
FCPPT_MAKE_STRONG_TYPEDEF(double, st_double);

// enums of size 1..9 with different underlying types; the size is stated here,
// independently of fcppt_maximum
enum class e1 : int { v0, fcppt_maximum = v0 };
enum class e2 : unsigned { v0, v1, fcppt_maximum = v1 };
enum class e3 : short { v0, v1, v2, fcppt_maximum = v2 };
enum class e4 : long { v0, v1, v2, v3, fcppt_maximum = v3 };
enum class e5 : unsigned long { v0, v1, v2, v3, v4, fcppt_maximum = v4 };
enum class e6 { v0, v1, v2, v3, v4, v5, fcppt_maximum = v5 };
enum class e7 : unsigned short { v0, v1, v2, v3, v4, v5, v6, fcppt_maximum = v6 };
enum class e8 : long long { v0, v1, v2, v3, v4, v5, v6, v7, fcppt_maximum = v7 };
enum class e9 : int { v0, v1, v2, v3, v4, v5, v6, v7, v8, fcppt_maximum = v8 };
enum e3_unscoped : int { u0, u1, u2, fcppt_maximum = u2 }; // classic enum
FCPPT_MAKE_STRONG_TYPEDEF(e9, st_e9); // strong typedef around an enum

// ------------------------------------------------------------------ make_uniform_enum
template <class E, class Enum> void enum_factory(char const *ename, int const size)
{
  using base = std::underlying_type_t<Enum>;
  using P = fcppt::random::distribution::parameters::uniform_int<Enum>;
  static_assert(std::is_same_v<decltype(fcppt::random::distribution::parameters::make_uniform_enum<Enum>()), P>);
  static_assert(
      std::is_same_v<decltype(fcppt::random::distribution::parameters::make_uniform_enum_advanced<
                              fcppt::random::distribution::parameters::uniform_int_wrapper,
                              Enum>()),
                     P>);
  base const lo = 0, hi = static_cast<base>(size - 1);
  for (int adv = 0; adv < 2; ++adv)
  {
    std::string const nm = std::string(adv ? "make_uniform_enum_advanced<" : "make_uniform_enum<") + ename + "," + E::name + ">";
    char const *const fn = intern(nm);
    auto const make = [adv] {
      return adv ? fcppt::random::distribution::parameters::make_uniform_enum_advanced<
                       fcppt::random::distribution::parameters::uniform_int_wrapper,
                       Enum>()
                 : fcppt::random::distribution::parameters::make_uniform_enum<Enum>();
    };
    for (u64 const seed : seeds())
    {
      if (!announce(fn, size, seed))
        continue;
      vrt::nontrivial(size > 1);
      vrt::maybe_sample();
      P const p(make());
      P const q{typename P::min(static_cast<Enum>(hi)), typename P::max(static_cast<Enum>(hi))}; // stored while drawing with p per call
      lockstep<E>(nm, p, std::uniform_int_distribution<base>(lo, hi), seed, true, lo, hi, no_two_arg{}, q,
                  std::uniform_int_distribution<base>(hi, hi), hi, hi);
    }
    if (vrt::out_of_time())
      return;
    {
      // every enumerator (not only the two ends) must be reachable, nothing else
      char const *const fn_all = intern(nm + ":all_enumerators");
      if (announce(fn_all, size))
      {
        vrt::nontrivial(size > 1);
        std::vector<bool> seen(static_cast<std::size_t>(size), false);
        int nseen = 0;
        for (u64 const seed : seeds())
        {
          typename E::fc g(fc_seed<E>(seed));
          fcppt::random::distribution::basic<P> d(make());
          for (int i = 0; i < DRAWS && nseen < size; ++i)
          {
            i128 const v = static_cast<i128>(static_cast<base>(d(g)));
            if (v < 0 || v >= size)
            {
              vrt::fail(nm + ":out_of_bounds", vrt::fmt("enumerator value %s for an enum of size %d", str128(v).c_str(), size));
              nseen = size;
              break;
            }
            if (!seen[static_cast<std::size_t>(v)])
            {
              seen[static_cast<std::size_t>(v)] = true;
              ++nseen;
            }
          }
          if (nseen >= size)
            break;
        }
        for (int k = 0; k < size; ++k)
          VRT_CHECK(seen[static_cast<std::size_t>(k)], nm + ":enumerator_never_reached", "enumerator %d of %d never drawn", k, size);
      }
    }
  }
}

template <class E> void enum_factories()
{
  enum_factory<E, e1>("e1:int", 1);
  enum_factory<E, e2>("e2:unsigned", 2);
  enum_factory<E, e3>("e3:short", 3);
  enum_factory<E, e4>("e4:long", 4);
  enum_factory<E, e5>("e5:unsigned long", 5);
  enum_factory<E, e6>("e6", 6);
  enum_factory<E, e7>("e7:unsigned short", 7);
  enum_factory<E, e8>("e8:long long", 8);
  enum_factory<E, e9>("e9:int", 9);
  enum_factory<E, e3_unscoped>("e3_unscoped", 3);
}

// sub-intervals of an enum: all [a,b] with 0 <= a <= b <= size-1
template <class B> std::vector<std::pair<B, B>> sub_intervals(int const size)
{
  std::vector<std::pair<B, B>> r;
  for (int a = 0; a < size; ++a)
    for (int b = a; b < size; ++b)
      r.emplace_back(static_cast<B>(a), static_cast<B>(b));
  return r;
}

// ------------------------------------------------------------------ real-valued distributions
struct real_pair
{
  double x, y;
};

std::vector<real_pair> uniform_real_params()
{
  std::vector<real_pair> r;
  double const grid[] = {-8., -1., -0.5, 0., 0.25, 1., 3., 8.};
  for (double a : grid)
    for (double b : grid)
      if (a < b)
        r.push_back({a, b});
  r.push_back({0., 1e30});
  r.push_back({-1e-30, 1e-30});
  r.push_back({1., 1.0000001});
  r.push_back({-1e6, 1e6});
  return r;
}

std::vector<real_pair> normal_params()
{
  std::vector<real_pair> r;
  for (double m : {-2., 0., 0.5, 1e6})
    for (double s : {1e-3, 0.25, 1., 5.})
      r.push_back({m, s});
  return r;
}

template <class E, class R> void uniform_real_family(char const *rname)
{
  using base = typename rt<R>::base;
  using P = fcppt::random::distribution::parameters::uniform_real<R>;
  static_assert(std::is_same_v<typename P::distribution, std::uniform_real_distribution<base>>);
  std::string const nm = std::string("uniform_real<") + rname + "," + E::name + ">";
  char const *const fn = intern(nm);
  std::vector<real_pair> const params = uniform_real_params();
  for (std::size_t k = 0; k < params.size(); ++k)
  {
    real_pair const &pr = params[k];
    if (vrt::out_of_time())
      return;
    base const a = static_cast<base>(pr.x), b = static_cast<base>(pr.y);
    if (!(a < b))
      continue; // not distinct in float
    // the other parameter set (stored while drawing with per-call parameters)
    std::size_t kq = (k + 5) % params.size();
    while (!(static_cast<base>(params[kq].x) < static_cast<base>(params[kq].y)))
      kq = (kq + 1) % params.size();
    base const qa = static_cast<base>(params[kq].x), qb = static_cast<base>(params[kq].y);
    for (u64 const seed : seeds())
    {
      for (int reset_at : {-1, 3})
      {
        if (!vrt::begin_text(fn, vrt::fmt("%s(min=%.9g, sup=%.9g, seed=%s%s)", nm.c_str(), static_cast<double>(a),
                                          static_cast<double>(b), str128(static_cast<i128>(seed)).c_str(),
                                          reset_at >= 0 ? ", reset() after 3 draws" : "")))
          continue;
        vrt::nontrivial(true);
        vrt::maybe_sample();
        P const p{typename P::min(rt<R>::wrap(a)), typename P::sup(rt<R>::wrap(b))};
        P const q{typename P::min(rt<R>::wrap(qa)), typename P::sup(rt<R>::wrap(qb))};
        lockstep<E>(
            nm, p, std::uniform_real_distribution<base>(a, b), seed, false, a, b,
            [&] {
              return fcppt::random::distribution::basic<P>(typename P::min(rt<R>::wrap(a)), typename P::sup(rt<R>::wrap(b)));
            },
            q, std::uniform_real_distribution<base>(qa, qb), qa, qb, reset_at);
      }
    }
  }
}

template <class E, class R> void normal_family(char const *rname)
{
  using base = typename rt<R>::base;
  using P = fcppt::random::distribution::parameters::normal<R>;
  static_assert(std::is_same_v<typename P::distribution, std::normal_distribution<base>>);
  std::string const nm = std::string("normal<") + rname + "," + E::name + ">";
  char const *const fn = intern(nm);
  std::vector<real_pair> const params = normal_params();
  for (std::size_t k = 0; k < params.size(); ++k)
  {
    real_pair const &pr = params[k];
    if (vrt::out_of_time())
      return;
    base const m = static_cast<base>(pr.x), s = static_cast<base>(pr.y);
    real_pair const &prq = params[(k + 5) % params.size()]; // stored while drawing with per-call parameters
    base const qm = static_cast<base>(prq.x), qs = static_cast<base>(prq.y);
    for (u64 const seed : seeds())
    {
      // normal_distribution keeps a second value between calls: reset() after an odd
      // number of draws changes the sequence, so forwarding of reset() is visible
      for (int reset_at : {-1, 1, 3})
      {
        if (!vrt::begin_text(fn, vrt::fmt("%s(mean=%.9g, stddev=%.9g, seed=%s%s)", nm.c_str(), static_cast<double>(m),
                                          static_cast<double>(s), str128(static_cast<i128>(seed)).c_str(),
                                          reset_at >= 0 ? vrt::fmt(", reset() after %d draws", reset_at).c_str() : "")))
          continue;
        vrt::nontrivial(true);
        vrt::maybe_sample();
        P const p{typename P::mean(rt<R>::wrap(m)), typename P::stddev(rt<R>::wrap(s))};
        P const q{typename P::mean(rt<R>::wrap(qm)), typename P::stddev(rt<R>::wrap(qs))};
        lockstep<E>(
            nm, p, std::normal_distribution<base>(m, s), seed, false, m, s,
            [&] {
              return fcppt::random::distribution::basic<P>(typename P::mean(rt<R>::wrap(m)), typename P::stddev(rt<R>::wrap(s)));
            },
            q, std::normal_distribution<base>(qm, qs), qm, qs, reset_at);
      }
    }
  }
}

template <class R> void wrapped_shards(char const *rname, char const *shardname)
{
  using base = typename rt<R>::base;
  std::string const t = rname;
  constexpr unsigned nparts = 2;
  for (unsigned part = 0; part < nparts; ++part)
  {
    vrt::shard(std::string("uniform_int/") + shardname + "/minstd_rand/" + std::to_string(part),
               [t, part] { uniform_int_family<eng_minstd, R>(t, all_intervals<base>(), part, nparts); });
    vrt::shard(std::string("uniform_int/") + shardname + "/mt19937/" + std::to_string(part),
               [t, part] { uniform_int_family<eng_mt, R>(t, all_intervals<base>(), part, nparts); });
  }
}
}

void c20::register_wrapped()
{
  wrapped_shards<st_int>("strong_typedef<int>", "st_int");
  wrapped_shards<st_short>("strong_typedef<short>", "st_short");
  wrapped_shards<st_ulong>("strong_typedef<unsigned long>", "st_ulong");
  wrapped_shards<st_st_int>("strong_typedef<strong_typedef<int>>", "st_st_int");
  vrt::shard("uniform_int/enum_subintervals/minstd_rand", [] {
    uniform_int_family<eng_minstd, e9>("e9:int", sub_intervals<int>(9), 0, 1);
    uniform_int_family<eng_minstd, e5>("e5:unsigned long", sub_intervals<unsigned long>(5), 0, 1);
    uniform_int_family<eng_minstd, e3>("e3:short", sub_intervals<short>(3), 0, 1);
    uniform_int_family<eng_minstd, st_e9>("strong_typedef<e9:int>", sub_intervals<int>(9), 0, 1);
  });
  vrt::shard("uniform_int/enum_subintervals/mt19937", [] {
    uniform_int_family<eng_mt, e9>("e9:int", sub_intervals<int>(9), 0, 1);
    uniform_int_family<eng_mt, e5>("e5:unsigned long", sub_intervals<unsigned long>(5), 0, 1);
    uniform_int_family<eng_mt, e3>("e3:short", sub_intervals<short>(3), 0, 1);
    uniform_int_family<eng_mt, st_e9>("strong_typedef<e9:int>", sub_intervals<int>(9), 0, 1);
  });
  vrt::shard("make_uniform_enum/minstd_rand", [] { enum_factories<eng_minstd>(); });
  vrt::shard("make_uniform_enum/mt19937", [] { enum_factories<eng_mt>(); });
  vrt::shard("uniform_real/minstd_rand", [] {
    uniform_real_family<eng_minstd, double>("double");
    uniform_real_family<eng_minstd, float>("float");
    uniform_real_family<eng_minstd, st_double>("strong_typedef<double>");
  });
  vrt::shard("uniform_real/mt19937", [] {
    uniform_real_family<eng_mt, double>("double");
    uniform_real_family<eng_mt, float>("float");
    uniform_real_family<eng_mt, st_double>("strong_typedef<double>");
  });
  vrt::shard("normal/minstd_rand", [] {
    normal_family<eng_minstd, double>("double");
    normal_family<eng_minstd, float>("float");
    normal_family<eng_minstd, st_double>("strong_typedef<double>");
  });
  vrt::shard("normal/mt19937", [] {
    normal_family<eng_mt, double>("double");
    normal_family<eng_mt, float>("float");
    normal_family<eng_mt, st_double>("strong_typedef<double>");
  });
}

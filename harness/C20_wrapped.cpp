// C20, part 2: strong-typedef result types (re-wrapping) for uniform_int.
#include "C20_common.hpp"

namespace
{
using namespace c20;

FCPPT_MAKE_STRONG_TYPEDEF(int, st_int);
FCPPT_MAKE_STRONG_TYPEDEF(short, st_short);
FCPPT_MAKE_STRONG_TYPEDEF(unsigned long, st_ulong);
FCPPT_MAKE_STRONG_TYPEDEF(st_int, st_st_int); // nested: two type constructors to strip / re-apply

template <class R> void wrapped_shards(char const *rname, char const *shardname)
{
  using base = typename rt<R>::base;
  std::string const t = rname;
  constexpr unsigned nparts = 2;
  for (unsigned part = 0; part < nparts; ++part)
  {
    vrt::shard(std::string("uniform_int/") + shardname + "/minstd_rand/" + std::to_string(part),
               [t, part] {
                 if (part == 0)
                   roundtrip_uniform_int<R>(t, boundary_values<base>());
                 uniform_int_family<eng_minstd, R>(t, all_intervals<base>(), part, nparts);
               });
    vrt::shard(std::string("uniform_int/") + shardname + "/mt19937/" + std::to_string(part),
               [t, part] { uniform_int_family<eng_mt, R>(t, all_intervals<base>(), part, nparts); });
  }
}
}

void c20::register_wrapped()
{
  wrapped_shards<st_int>("strong_typedef<int>", "st_int");
  wrapped_shards<st_short>("strong_typedef<short>", "st_short");
  wrapped_shards<st_ulong>("strong_typedef<unsigned long>", "st_ulong");
  wrapped_shards<st_st_int>("strong_typedef<strong_typedef<int>>", "st_st_int");
}

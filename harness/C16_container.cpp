// C16, part 3: container::join, at_optional, find_opt_iterator / find_opt / find_opt_mapped, get_or_insert(_with_result),
// key_set, map_values_copy, map_values_ref, set_union / set_intersection / set_difference, index_map.
#include "C16_common.hpp"

#include <fcppt/reference_impl.hpp>
#include <fcppt/container/at_optional.hpp>
#include <fcppt/container/find_opt.hpp>
#include <fcppt/container/find_opt_iterator.hpp>
#include <fcppt/container/find_opt_mapped.hpp>
#include <fcppt/container/get_or_insert.hpp>
#include <fcppt/container/get_or_insert_result.hpp>
#include <fcppt/container/get_or_insert_with_result.hpp>
#include <fcppt/container/index_map.hpp>
#include <fcppt/container/join.hpp>
#include <fcppt/container/key_set.hpp>
#include <fcppt/container/map_values_copy.hpp>
#include <fcppt/container/map_values_ref.hpp>
#include <fcppt/container/set_difference.hpp>
#include <fcppt/container/set_intersection.hpp>
#include <fcppt/container/set_union.hpp>
#include <fcppt/optional/object_impl.hpp>
#include <fcppt/range/begin.hpp>
#include <fcppt/range/empty.hpp>
#include <fcppt/range/end.hpp>
#include <fcppt/range/from_pair.hpp>
#include <fcppt/range/singular.hpp>
#include <fcppt/range/size.hpp>

#include <functional>
#include <limits>
#include <type_traits>
#include <unordered_map>

namespace c16
{
namespace
{
template <bool Const, class C> decltype(auto) constness(C &c)
{
  if constexpr (Const)
    return std::as_const(c);
  else
    return (c);
}

std::vector<seq> short_seqs(int maxlen)
{
  return all_seqs(3, maxlen);
}

// ------------------------------------------------------------------ join
template <class K> void check_join()
{
  static std::string const n1 = std::string("join(") + K::name + ")";
  static std::string const n2 = std::string("join(") + K::name + "," + K::name + ")";
  static std::string const n3 = std::string("join(") + K::name + "," + K::name + "," + K::name + ")";
  using C = typename K::type;
  auto const cat = [](std::initializer_list<seq const *> parts) {
    seq r;
    for (seq const *p : parts)
      r.insert(r.end(), p->begin(), p->end());
    return r;
  };
  std::vector<seq> const two = short_seqs(vrt::thorough() ? 5 : 3), three = short_seqs(vrt::thorough() ? 3 : 2);
  for (seq const &a : two)
  {
    if (vrt::begin_text(n1.c_str(), n1 + " " + show(a)))
    {
      vrt::nontrivial(!a.empty());
      C ca = K::make(a);
      C const r1 = fcppt::container::join(std::as_const(ca));
      C const r2 = fcppt::container::join(K::make(a));
      VRT_CHECK(contents(r1) == K::order(a) && contents(r2) == K::order(a), n1 + ":wrong", "got %s / %s",
                show(contents(r1)).c_str(), show(contents(r2)).c_str());
    }
    for (seq const &b : two)
      for (int mode = 0; mode < 5; ++mode)
      {
        // 0: (const&, const&)  1: (&&, &&)  2: (&&, const&)  3: (const&, &&)  4: (x, x) with the same lvalue twice
        if (mode == 4 && &a != &b)
          continue;
        static char const *const mn[5] = {"(const&,const&)", "(&&,&&)", "(&&,const&)", "(const&,&&)", "(x,x)"};
        if (!vrt::begin_text(n2.c_str(), n2 + " " + show(a) + " " + show(b) + " " + mn[mode]))
          continue;
        vrt::nontrivial(!a.empty() && !b.empty());
        vrt::maybe_sample();
        C ca = K::make(a), cb = K::make(b);
        C const r = mode == 0   ? fcppt::container::join(std::as_const(ca), std::as_const(cb))
                    : mode == 1 ? fcppt::container::join(std::move(ca), std::move(cb))
                    : mode == 2 ? fcppt::container::join(std::move(ca), std::as_const(cb))
                    : mode == 3 ? fcppt::container::join(std::as_const(ca), std::move(cb))
                                : fcppt::container::join(std::as_const(ca), std::as_const(ca));
        seq const want = K::order(cat({&a, &b}));
        VRT_CHECK(contents(r) == want, n2 + ":wrong", "got %s want %s", show(contents(r)).c_str(), show(want).c_str());
        if (mode == 0 || mode == 3 || mode == 4)
          VRT_CHECK(contents(ca) == K::order(a), n2 + ":first_changed", "first is now %s", show(contents(ca)).c_str());
        if (mode == 0 || mode == 2)
          VRT_CHECK(contents(cb) == K::order(b), n2 + ":second_changed", "second is now %s", show(contents(cb)).c_str());
      }
  }
  for (seq const &a : three)
    for (seq const &b : three)
      for (seq const &c : three)
      {
        if (!vrt::begin_text(n3.c_str(), n3 + " " + show(a) + " " + show(b) + " " + show(c)))
          continue;
        vrt::nontrivial(!a.empty() && !b.empty() && !c.empty());
        C ca = K::make(a), cb = K::make(b), cc = K::make(c);
        C const r = fcppt::container::join(std::as_const(ca), std::as_const(cb), std::as_const(cc));
        C const r2 = fcppt::container::join(K::make(a), cb, K::make(c));
        seq const want = K::order(cat({&a, &b, &c}));
        VRT_CHECK(contents(r) == want, n3 + ":wrong", "got %s want %s", show(contents(r)).c_str(), show(want).c_str());
        VRT_CHECK(contents(r2) == want, n3 + ":wrong_mixed", "got %s want %s", show(contents(r2)).c_str(), show(want).c_str());
        VRT_CHECK(contents(cb) == K::order(b), n3 + ":second_changed", "second is now %s", show(contents(cb)).c_str());
      }
}

void check_join_maps()
{
  static std::string const name = "join(map,map)";
  auto const maps = all_maps(3);
  for (auto const &a : maps)
    for (auto const &b : maps)
    {
      if (!vrt::begin_text(name.c_str(), name + " " + show(a) + " " + show(b)))
        continue;
      std::map<int, int> want = a; // elements of the other containers are inserted: present keys stay
      bool clash = false;
      for (auto const &kv : b)
      {
        if (want.count(kv.first))
          clash = clash || want[kv.first] != kv.second;
        else
          want[kv.first] = kv.second;
      }
      vrt::nontrivial(clash);
      vrt::maybe_sample();
      std::map<int, int> const r1 = fcppt::container::join(a, b);
      std::map<int, int> const r2 = fcppt::container::join(std::map<int, int>(a), std::map<int, int>(b));
      VRT_CHECK(r1 == want, name + ":wrong", "got %s want %s", show(r1).c_str(), show(want).c_str());
      VRT_CHECK(r2 == want, name + ":wrong_rvalue", "got %s want %s", show(r2).c_str(), show(want).c_str());
    }
}

// ------------------------------------------------------------------ at_optional
template <class K, bool Const> void check_at_optional()
{
  static std::string const name = std::string("at_optional(") + K::name + (Const ? " const)" : ")");
  using C = typename K::type;
  constexpr std::size_t mx = std::numeric_limits<std::size_t>::max();
  for (seq const &s : seqs3())
  {
    C c = K::make(s);
    std::vector<std::size_t> idx;
    for (std::size_t i = 0; i <= s.size() + 2; ++i)
      idx.push_back(i);
    for (std::size_t big : {mx, mx - 1, mx / 2, mx / 2 + 1, mx / 2 + 2})
      idx.push_back(big);
    for (std::size_t i : idx)
    {
      if (!vrt::begin_text(name.c_str(), name + " " + show(s) + " index=" + std::to_string(i)))
        continue;
      vrt::nontrivial(i + 1 >= s.size()); // last element or beyond
      vrt::maybe_sample();
      auto const r = fcppt::container::at_optional(constness<Const>(c), i);
      static_assert(std::is_same_v<
                    std::remove_cvref_t<decltype(r)>,
                    fcppt::optional::object<fcppt::reference<
                        std::conditional_t<Const, typename C::value_type const, typename C::value_type>>>>);
      if (i < s.size())
      {
        VRT_CHECK(r.has_value(), name + ":missing", "index %zu < size %zu gave nothing", i, s.size());
        if (r.has_value())
          VRT_CHECK(&r.get_unsafe().get() == &c[i], name + ":wrong_element", "reference is not element %zu", i);
      }
      else
        VRT_CHECK(!r.has_value(), name + ":spurious", "index %zu >= size %zu gave an element", i, s.size());
    }
  }
}

// ------------------------------------------------------------------ range::empty / singular / size / begin / end / from_pair
// obvious reference: empty <=> no element, singular <=> exactly one element, size = number of elements,
// [begin, end) and from_pair(pair(begin, end)) enumerate the container's own sequence
template <class K> void check_range_helpers()
{
  static std::string const name = std::string("range_helpers(") + K::name + ")";
  using C = typename K::type;
  for (seq const &s : seqs3())
  {
    if (!vrt::begin_text(name.c_str(), name + " " + show(s)))
      continue;
    C const c = K::make(s);
    seq const want = K::order(s);
    vrt::nontrivial(want.size() <= 2);
    vrt::maybe_sample();
    VRT_CHECK(fcppt::range::empty(c) == want.empty(), name + ":empty", "empty() wrong for %zu elements", want.size());
    VRT_CHECK(fcppt::range::singular(c) == (want.size() == 1), name + ":singular", "singular() wrong for %zu elements", want.size());
    VRT_CHECK(static_cast<std::size_t>(fcppt::range::size(c)) == want.size(), name + ":size", "size() %zu for %zu elements",
              static_cast<std::size_t>(fcppt::range::size(c)), want.size());
    seq const via_be(fcppt::range::begin(c), fcppt::range::end(c));
    VRT_CHECK(via_be == want, name + ":begin_end", "[begin,end) = %s, want %s", show(via_be).c_str(), show(want).c_str());
    auto const r = fcppt::range::from_pair(std::make_pair(c.begin(), c.end()));
    seq const via_pair(r.begin(), r.end());
    VRT_CHECK(via_pair == want, name + ":from_pair", "from_pair = %s, want %s", show(via_pair).c_str(), show(want).c_str());
    VRT_CHECK(fcppt::range::singular(r) == (want.size() == 1) && fcppt::range::empty(r) == want.empty(), name + ":from_pair_shape",
              "empty/singular of from_pair wrong for %zu elements", want.size());
    if constexpr (std::is_same_v<K, k_multiset>)
      for (int key = 0; key < 3; ++key)
      {
        // the classic use: the pair returned by equal_range
        auto const er = fcppt::range::from_pair(c.equal_range(key));
        std::size_t const n = static_cast<std::size_t>(std::count(want.begin(), want.end(), key));
        seq const got(er.begin(), er.end());
        VRT_CHECK(got == seq(n, key), name + ":from_pair_equal_range", "equal_range(%d) gave %s, want %zu copies", key, show(got).c_str(), n);
        VRT_CHECK(fcppt::range::singular(er) == (n == 1), name + ":singular_equal_range", "singular wrong for %zu copies of %d", n, key);
      }
  }
}

// ------------------------------------------------------------------ find_opt_iterator, find_opt, find_opt_mapped
template <class M, bool Const> void check_map_find(char const *mn)
{
  static std::string const cs = std::string(mn) + (Const ? " const" : "");
  static std::string const n_it = "find_opt_iterator(" + cs + ")";
  static std::string const n_fo = "container::find_opt(" + cs + ")";
  static std::string const n_fm = "find_opt_mapped(" + cs + ")";
  for (auto const &ref : all_maps(map_keys()))
  {
    M m(ref.begin(), ref.end());
    for (int k = -1; k <= map_keys(); ++k)
    {
      bool const present = ref.count(k) != 0;
      std::string const descr = " " + show(ref) + " key=" + std::to_string(k);
      auto const direct = constness<Const>(m).find(k); // the container's own find as ground truth
      if (vrt::begin_text(n_it.c_str(), n_it + descr))
      {
        vrt::nontrivial(present && ref.size() >= 2);
        auto const r = fcppt::container::find_opt_iterator(constness<Const>(m), k);
        VRT_CHECK(r.has_value() == present, n_it + ":presence", "has_value=%d present=%d", int(r.has_value()), int(present));
        if (r.has_value() && present)
          VRT_CHECK(r.get_unsafe() == direct, n_it + ":wrong", "iterator points at key %d", r.get_unsafe()->first);
      }
      if (vrt::begin_text(n_fo.c_str(), n_fo + descr))
      {
        vrt::nontrivial(present && ref.size() >= 2);
        auto const r = fcppt::container::find_opt(constness<Const>(m), k);
        VRT_CHECK(r.has_value() == present, n_fo + ":presence", "has_value=%d present=%d", int(r.has_value()), int(present));
        if (r.has_value() && present)
          VRT_CHECK(&r.get_unsafe().get() == &*direct, n_fo + ":wrong", "reference to key %d", r.get_unsafe().get().first);
      }
      if (vrt::begin_text(n_fm.c_str(), n_fm + descr))
      {
        vrt::nontrivial(present && ref.size() >= 2);
        vrt::maybe_sample();
        auto const r = fcppt::container::find_opt_mapped(constness<Const>(m), k);
        static_assert(std::is_same_v<std::remove_cvref_t<decltype(r)>,
                                     fcppt::optional::object<fcppt::reference<std::conditional_t<Const, int const, int>>>>);
        VRT_CHECK(r.has_value() == present, n_fm + ":presence", "has_value=%d present=%d", int(r.has_value()), int(present));
        if (r.has_value() && present)
          VRT_CHECK(&r.get_unsafe().get() == &direct->second && r.get_unsafe().get() == ref.at(k), n_fm + ":wrong",
                    "mapped value %d want %d", r.get_unsafe().get(), ref.at(k));
      }
    }
  }
}

// ------------------------------------------------------------------ get_or_insert, get_or_insert_with_result
template <class M> void check_get_or_insert(char const *mn)
{
  static std::string const n_r = std::string("get_or_insert_with_result(") + mn + ")";
  static std::string const n_g = std::string("get_or_insert(") + mn + ")";
  seq &log = call_log();
  for (auto const &ref : all_maps(map_keys()))
    for (int k = -1; k <= map_keys(); ++k)
      for (int which = 0; which < 2; ++which)
      {
        std::string const &name = which ? n_g : n_r;
        if (!vrt::begin_text(name.c_str(), name + " " + show(ref) + " key=" + std::to_string(k)))
          continue;
        bool const present = ref.count(k) != 0;
        vrt::nontrivial(!ref.empty());
        vrt::maybe_sample();
        M m(ref.begin(), ref.end());
        int const *const before = present ? &m.find(k)->second : nullptr;
        log.clear();
        auto const create = [&log](int key) {
          log.push_back(key);
          return 100 + key;
        };
        int *elem = nullptr;
        if (which)
          elem = &fcppt::container::get_or_insert(m, k, create);
        else
        {
          fcppt::container::get_or_insert_result<int &> const r = fcppt::container::get_or_insert_with_result(m, k, create);
          elem = &r.element();
          // get_or_insert_result::inserted(): "true if the element was inserted, false if it was found"
          VRT_CHECK(r.inserted() == !present, name + ":inserted_flag", "inserted()=%d but the key was %s", int(r.inserted()),
                    present ? "present" : "absent");
        }
        std::map<int, int> want = ref;
        if (!present)
          want[k] = 100 + k;
        std::map<int, int> const got(m.begin(), m.end());
        VRT_CHECK(got == want && m.size() == want.size(), name + ":map", "map is %s want %s", show(got).c_str(),
                  show(want).c_str());
        VRT_CHECK(log == (present ? seq{} : seq{k}), name + ":create_calls", "create called with %s", show(log).c_str());
        VRT_CHECK(elem == &m.find(k)->second, name + ":element", "result does not refer to the mapped object of key %d", k);
        if (present)
          VRT_CHECK(elem == before, name + ":element_moved", "found element is not the one that was in the map");
      }
}

// ------------------------------------------------------------------ key_set, map_values_copy, map_values_ref
void check_map_views()
{
  static std::string const n_ks = "key_set<set>(map)";
  static std::string const n_ksm = "key_set<set>(multimap)";
  static std::string const n_vc = "map_values_copy<vector>(map)";
  static std::string const n_vcm = "map_values_copy<vector>(multimap)";
  static std::string const n_vr = "map_values_ref<vector<reference<int>>>(map)";
  static std::string const n_vrc = "map_values_ref<vector<reference<int const>>>(map const)";
  for (auto const &ref : all_maps(map_keys()))
  {
    std::string const ms = " " + show(ref);
    seq keys, values;
    for (auto const &kv : ref)
    {
      keys.push_back(kv.first);
      values.push_back(kv.second);
    }
    if (vrt::begin_text(n_ks.c_str(), n_ks + ms))
    {
      vrt::nontrivial(ref.size() >= 2);
      std::set<int> const r = fcppt::container::key_set<std::set<int>>(ref);
      VRT_CHECK(contents(r) == keys, n_ks + ":wrong", "got %s want %s", show(contents(r)).c_str(), show(keys).c_str());
    }
    if (vrt::begin_text(n_vc.c_str(), n_vc + ms))
    {
      vrt::nontrivial(ref.size() >= 2);
      vrt::maybe_sample();
      std::vector<int> const r = fcppt::container::map_values_copy<std::vector<int>>(ref);
      VRT_CHECK(r == values, n_vc + ":wrong", "got %s want %s", show(r).c_str(), show(values).c_str());
    }
    if (vrt::begin_text(n_vr.c_str(), n_vr + ms))
    {
      vrt::nontrivial(ref.size() >= 2);
      std::map<int, int> m = ref;
      auto const r = fcppt::container::map_values_ref<std::vector<fcppt::reference<int>>>(m);
      bool ok = r.size() == m.size();
      std::size_t i = 0;
      for (auto &kv : m)
      {
        ok = ok && i < r.size() && &r[i].get() == &kv.second;
        ++i;
      }
      VRT_CHECK(ok, n_vr + ":wrong", "%zu references, not the mapped objects in key order", r.size());
    }
    if (vrt::begin_text(n_vrc.c_str(), n_vrc + ms))
    {
      vrt::nontrivial(ref.size() >= 2);
      auto const r = fcppt::container::map_values_ref<std::vector<fcppt::reference<int const>>>(ref);
      bool ok = r.size() == ref.size();
      std::size_t i = 0;
      for (auto const &kv : ref)
      {
        ok = ok && i < r.size() && &r[i].get() == &kv.second;
        ++i;
      }
      VRT_CHECK(ok, n_vrc + ":wrong", "%zu references, not the mapped objects in key order", r.size());
    }
  }
  // multimaps with duplicate keys: entries (s[i], i)
  for (seq const &s : seqs3())
  {
    std::multimap<int, int> mm;
    for (std::size_t i = 0; i < s.size(); ++i)
      mm.emplace(s[i], static_cast<int>(i));
    seq values; // equal keys keep their insertion order: stable sort by key
    for (int key = 0; key < 3; ++key)
      for (std::size_t i = 0; i < s.size(); ++i)
        if (s[i] == key)
          values.push_back(static_cast<int>(i));
    if (vrt::begin_text(n_ksm.c_str(), n_ksm + " keys=" + show(s)))
    {
      vrt::nontrivial(sorted_unique(s).size() < s.size());
      std::set<int> const r = fcppt::container::key_set<std::set<int>>(mm);
      VRT_CHECK(contents(r) == sorted_unique(s), n_ksm + ":wrong", "got %s", show(contents(r)).c_str());
    }
    if (vrt::begin_text(n_vcm.c_str(), n_vcm + " keys=" + show(s)))
    {
      vrt::nontrivial(sorted_unique(s).size() < s.size());
      std::vector<int> const r = fcppt::container::map_values_copy<std::vector<int>>(mm);
      VRT_CHECK(r == values, n_vcm + ":wrong", "got %s want %s", show(r).c_str(), show(values).c_str());
    }
  }
}

// ------------------------------------------------------------------ set_union, set_intersection, set_difference
template <class Set> void check_set_ops(char const *sn)
{
  static std::string const n_u = std::string("set_union<") + sn + ">";
  static std::string const n_i = std::string("set_intersection<") + sn + ">";
  static std::string const n_d = std::string("set_difference<") + sn + ">";
  int const universe = vrt::thorough() ? 7 : 5;
  auto const members = [universe](int bits) {
    seq r;
    for (int k = 0; k < universe; ++k)
      if ((bits >> k) & 1)
        r.push_back(k);
    return r;
  };
  for (int a = 0; a < (1 << universe); ++a)
    for (int b = 0; b < (1 << universe); ++b)
    {
      seq const ma = members(a), mb = members(b);
      Set const sa(ma.begin(), ma.end()), sb(mb.begin(), mb.end());
      std::string const descr = " " + show(ma) + " " + show(mb);
      auto const as_bits = [](Set const &s) {
        int r = 0;
        for (int v : s)
          r |= 1 << v;
        return r;
      };
      bool const overlap = (a & b) != 0 && (a & ~b) != 0 && (b & ~a) != 0;
      if (vrt::begin_text(n_u.c_str(), n_u + descr))
      {
        vrt::nontrivial(overlap);
        Set const r = fcppt::container::set_union(sa, sb);
        VRT_CHECK(as_bits(r) == (a | b) && r.size() == members(a | b).size(), n_u + ":wrong", "got %s want %s",
                  show(members(as_bits(r))).c_str(), show(members(a | b)).c_str());
      }
      if (vrt::begin_text(n_i.c_str(), n_i + descr))
      {
        vrt::nontrivial(overlap);
        vrt::maybe_sample();
        Set const r = fcppt::container::set_intersection(sa, sb);
        VRT_CHECK(as_bits(r) == (a & b) && r.size() == members(a & b).size(), n_i + ":wrong", "got %s want %s",
                  show(members(as_bits(r))).c_str(), show(members(a & b)).c_str());
      }
      if (vrt::begin_text(n_d.c_str(), n_d + descr))
      {
        vrt::nontrivial(overlap);
        Set const r = fcppt::container::set_difference(sa, sb);
        VRT_CHECK(as_bits(r) == (a & ~b) && r.size() == members(a & ~b).size(), n_d + ":wrong", "got %s want %s",
                  show(members(as_bits(r))).c_str(), show(members(a & ~b)).c_str());
      }
    }
}

// ------------------------------------------------------------------ index_map
// every history of get(i, insert) / operator[](i), i in 0..3, up to length 3 (thorough: 5); after each step the value
// just read is overwritten through the returned reference
void check_index_map()
{
  static std::string const name = "index_map";
  int const maxlen = vrt::thorough() ? 5 : 3;
  std::vector<seq> hist = all_seqs(8, maxlen);
  for (seq const &h : hist)
  {
    if (h.empty())
      continue;
    std::string d = name + " ";
    for (int op : h)
      d += (op < 4 ? "get(" : "[](") + std::to_string(op % 4) + ") ";
    if (!vrt::begin_text(name.c_str(), d))
      continue;
    vrt::maybe_sample();
    fcppt::container::index_map<int> im;
    std::vector<int> model;
    int counter = 1000;
    bool grew_by_many = false;
    for (std::size_t step = 0; step < h.size(); ++step)
    {
      std::size_t const i = static_cast<std::size_t>(h[step] % 4);
      bool const is_get = h[step] < 4;
      std::size_t const before = model.size();
      int calls = 0;
      int &r = is_get ? im.get(i, fcppt::container::index_map<int>::insert_function{[&counter, &calls] {
        ++calls;
        return counter++;
      }})
                      : im[i];
      // documented: "Returns the element at index. If there is no such element, the result of insert() is inserted. Note
      // that insert might be called multiple times" ([]: "T() is inserted"): the container grows to index+1, existing
      // elements stay, every new element is a result of insert() (resp. T()).  How often insert() is called and which
      // result lands where is not documented: information counters only.
      std::size_t const want_size = std::max(before, i + 1);
      std::vector<int> const &now = im.impl();
      bool ok = now.size() == want_size && std::equal(model.begin(), model.end(), now.begin());
      bool sequential = true;
      for (std::size_t j = before; ok && j < now.size(); ++j)
      {
        ok = is_get ? (now[j] >= counter - calls && now[j] < counter) : now[j] == 0;
        sequential = sequential && (!is_get || now[j] == counter - calls + static_cast<int>(j - before));
      }
      VRT_CHECK(ok, name + ":contents", "step %zu: contents %s after %s, insert() produced %d..%d", step, show(now).c_str(),
                show(model).c_str(), counter - calls, counter - 1);
      if (is_get && (static_cast<std::size_t>(calls) != want_size - before || !sequential))
        vrt::count("info:index_map:insert_calls_or_order");
      grew_by_many = grew_by_many || want_size - before >= 2;
      model = now;
      VRT_CHECK(&r == &im.impl()[i], name + ":reference", "step %zu: result is not element %zu", step, i);
      r = 50 + static_cast<int>(step);
      model[i] = 50 + static_cast<int>(step);
      VRT_CHECK(im.impl() == model, name + ":write_through", "step %zu: contents %s want %s", step, show(im.impl()).c_str(),
                show(model).c_str());
    }
    vrt::nontrivial(grew_by_many);
  }
}
}

void register_container_shards()
{
  c16::shard("join/sequences", [] {
    check_join<k_vector>();
    check_join<k_list>();
  });
  c16::shard("join/sequences_b", [] {
    check_join<k_deque>();
    check_join<k_string>();
  });
  c16::shard("join/assoc", [] {
    check_join<k_set>();
    check_join<k_multiset>();
    check_join_maps();
  });
  c16::shard("at_optional", [] {
    check_at_optional<k_vector, false>();
    check_at_optional<k_vector, true>();
    check_at_optional<k_deque, false>();
    check_at_optional<k_string, true>();
  });
  c16::shard("range_helpers", [] {
    check_range_helpers<k_vector>();
    check_range_helpers<k_list>();
    check_range_helpers<k_deque>();
    check_range_helpers<k_set>();
    check_range_helpers<k_multiset>();
  });
  c16::shard("map_find", [] {
    check_map_find<std::map<int, int>, false>("std::map");
    check_map_find<std::map<int, int>, true>("std::map");
    check_map_find<std::unordered_map<int, int>, false>("std::unordered_map");
  });
  c16::shard("get_or_insert", [] {
    check_get_or_insert<std::map<int, int>>("std::map");
    check_get_or_insert<std::unordered_map<int, int>>("std::unordered_map");
  });
  c16::shard("map_views", [] { check_map_views(); });
  c16::shard("set_ops/less", [] { check_set_ops<std::set<int>>("std::set<int>"); });
  c16::shard("set_ops/greater", [] { check_set_ops<std::set<int, std::greater<int>>>("std::set<int,greater>"); });
  c16::shard("index_map", [] { check_index_map(); });
}
}

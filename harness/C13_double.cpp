// C13: instantiations for T = double (decimal lattice with ulp neighbours, extreme values), N = 1,2
#include <C13_impl.hpp>
void c13::reg_double()
{
  c13::reg_fp<double>();
  c13::reg_callbacks<double>(); // init_max / init_dim with counting, stream-like and throwing callbacks
}

// C17 (element semantics, part 2): raw_vector (all sequences of length 0..3), grid, tree, math vector / dim /
// matrix / box / sphere over component types double / padded / nr (see C17_elem.hpp).
#include <C17_elem.hpp>

#include <fcppt/container/grid/comparison.hpp>
#include <fcppt/container/grid/object.hpp>
#include <fcppt/container/raw_vector/comparison.hpp>
#include <fcppt/container/raw_vector/object.hpp>
#include <fcppt/container/tree/comparison.hpp>
#include <fcppt/container/tree/object.hpp>
#include <fcppt/math/box/comparison.hpp>
#include <fcppt/math/box/object.hpp>
#include <fcppt/math/dim/comparison.hpp>
#include <fcppt/math/dim/object.hpp>
#include <fcppt/math/dim/static.hpp>
#include <fcppt/math/dim/std_hash.hpp>
#include <fcppt/math/matrix/comparison.hpp>
#include <fcppt/math/matrix/object.hpp>
#include <fcppt/math/matrix/row.hpp>
#include <fcppt/math/matrix/static.hpp>
#include <fcppt/math/matrix/std_hash.hpp>
#include <fcppt/math/sphere/comparison.hpp>
#include <fcppt/math/sphere/object.hpp>
#include <fcppt/math/vector/comparison.hpp>
#include <fcppt/math/vector/object.hpp>
#include <fcppt/math/vector/static.hpp>
#include <fcppt/math/vector/std_hash.hpp>
#include <fcppt/range/hash.hpp>

#include <string>
#include <vector>

namespace
{
using namespace c17e;
using key_t = c17::key_t; // hides ::key_t of <sys/types.h>

template <class E> struct et;
template <> struct et<double>
{
  static constexpr char const *name = "double";
  static std::vector<leaf> dom() { return doubles(); }
  static double val(leaf const &l) { return l.d; }
  static void fix(double &, leaf const &) {}
};
template <> struct et<padded>
{
  static constexpr char const *name = "padded";
  static std::vector<leaf> dom() { return paddeds(); }
  static padded val(leaf const &l) { return padded_value(l.pidx); }
  static void fix(padded &dst, leaf const &l) { place(dst, l.pidx); }
};
template <> struct et<nr>
{
  static constexpr char const *name = "nr";
  static std::vector<leaf> dom() { return nrs(); }
  static nr val(leaf const &l) { return l.n; }
  static void fix(nr &, leaf const &) {}
};

// ------------------------------------------------------------------ raw_vector
struct no_hash
{
};

template <class E> void raw_vectors()
{
  using rv = fcppt::container::raw_vector::object<E>;
  euniverse<rv> u;
  for (unsigned n = 0; n <= 3; ++n)
    for (auto const &s : sequences(et<E>::dom(), n))
      for (int round = 0; round < 2; ++round) // every sequence in two different objects (same bytes, other storage)
      {
        rv v;
        if (round)
          v.reserve(8);
        for (leaf const &l : s)
          v.push_back(et<E>::val(l));
        for (unsigned i = 0; i < n; ++i)
          et<E>::fix(v[i], s[i]); // padded: exact byte image including padding
        eadd(u, std::move(v), key_t{static_cast<long>(n)}, s, round ? "reserve(8), second object" : "");
      }
  if constexpr (std::is_same_v<E, padded>)
  {
    // the padding bytes really differ inside the container (values #0 and #1 differ in padding only)
    rv a, b;
    a.push_back(padded_value(0));
    b.push_back(padded_value(0));
    place(a[0], 0);
    place(b[0], 1);
    if (std::memcmp(a.data(), b.data(), sizeof(padded)) == 0 || !(a[0] == b[0]))
      vrt::fail("harness:padding_not_preserved", "padded#0 and padded#1 have the same bytes inside a raw_vector");
  }
  std::string const inst = std::string("<") + et<E>::name + ">";
  if constexpr (std::is_same_v<E, double>)
    check_elem<c17::NE | c17::LT | c17::REL | c17::LEX_INFO | c17::HASH>("raw_vector", inst, u, lex_elems{}, fcppt::range::hash<rv>{});
  else
    check_elem<c17::NE | c17::LT | c17::REL | c17::LEX_INFO>("raw_vector", inst, u, lex_elems{});
}

// ------------------------------------------------------------------ grid, tree
template <class E> void grids()
{
  using grid = fcppt::container::grid::object<E, 1>;
  using dim = typename grid::dim;
  using pos = typename grid::pos;
  euniverse<grid> u;
  for (unsigned w = 0; w <= 2; ++w)
    for (auto const &s : sequences(et<E>::dom(), w))
      for (int round = 0; round < 2; ++round)
      {
        grid g(dim(w), [&](pos const &p) { return et<E>::val(s[p.x()]); });
        for (unsigned x = 0; x < w; ++x)
          et<E>::fix(g.get_unsafe(pos(x)), s[x]);
        eadd(u, std::move(g), key_t{static_cast<long>(w)}, s, round ? "second object" : "");
      }
  check_elem<c17::NE | c17::LT | c17::REL | c17::LEX>("grid", std::string("<") + et<E>::name + ",1>", u, shape_then_elems{});
}

template <class E> void trees()
{
  using tree = fcppt::container::tree::object<E>;
  euniverse<tree> u;
  for (unsigned kids = 0; kids <= 2; ++kids)
    for (auto const &s : sequences(et<E>::dom(), kids + 1)) // root value, then the children's values
    {
      tree t{et<E>::val(s[0])};
      et<E>::fix(t.value(), s[0]);
      for (unsigned k = 1; k <= kids; ++k)
      {
        auto const child = t.push_back(et<E>::val(s[k])); // fcppt::reference<tree>
        et<E>::fix(child.get().value(), s[k]);
      }
      eadd(u, std::move(t), key_t{static_cast<long>(kids)}, s);
    }
  check_elem<c17::NE>("tree", std::string("<") + et<E>::name + ">", u);
}

// ------------------------------------------------------------------ math (double components)
void maths()
{
  auto const D = doubles();
  {
    using vec = fcppt::math::vector::static_<double, 2>;
    using dimt = fcppt::math::dim::static_<double, 2>;
    euniverse<vec> uv;
    euniverse<dimt> ud;
    for (auto const &s : sequences(D, 2))
      for (int round = 0; round < 2; ++round)
      {
        eadd(uv, vec(s[0].d, s[1].d), key_t{}, s, round ? "second object" : "");
        eadd(ud, dimt(s[0].d, s[1].d), key_t{}, s, round ? "second object" : "");
      }
    check_elem<c17::NE | c17::LT | c17::REL | c17::LEX | c17::HASH>("vector", "<double,2>", uv, lex_elems{});
    check_elem<c17::NE | c17::LT | c17::REL | c17::LEX | c17::HASH>("dim", "<double,2>", ud, lex_elems{});
  }
  {
    using mat = fcppt::math::matrix::static_<double, 2, 2>;
    using fcppt::math::matrix::row;
    euniverse<mat> u;
    for (auto const &s : sequences(D, 4))
      eadd(u, mat(row(s[0].d, s[1].d), row(s[2].d, s[3].d)), key_t{}, s);
    check_elem<c17::NE | c17::HASH>("matrix", "<double,2,2>", u);
  }
  {
    // box stores min and max; == compares pos() and size() = max - pos component-wise (documented), so the
    // plain components are pos and max - pos computed here in plain double arithmetic
    using box = fcppt::math::box::object<double, 1>;
    euniverse<box> u;
    for (auto const &s : sequences(D, 2))
    {
      double const pos = s[0].d, max = s[1].d;
      eadd(u, box(typename box::vector(pos), typename box::vector(max)), key_t{}, {L(pos), L(max - pos)}, "ctor(min,max)");
    }
    for (auto const &s : sequences(D, 2))
    {
      double const pos = s[0].d, size = s[1].d;
      // size() is derived from the stored corners; skip the cases where max - pos does not give back the size
      // that was passed in (inf, NaN), because whether size() then reports `size` or `(pos+size)-pos` is a
      // representation detail
      if (!((pos + size) - pos == size))
        continue;
      eadd(u, box(typename box::vector(pos), typename box::dim(size)), key_t{}, {L(pos), L((pos + size) - pos)}, "ctor(pos,size)");
    }
    check_elem<c17::NE | c17::LT | c17::LEX>("box", "<double,1>", u, lex_elems{});
  }
  {
    using sph = fcppt::math::sphere::object<double, 1>;
    euniverse<sph> u;
    for (auto const &s : sequences(D, 2))
      for (int round = 0; round < 2; ++round)
        eadd(u, sph(typename sph::point_type(s[0].d), s[1].d), key_t{}, s, round ? "second object" : "");
    check_elem<c17::NE>("sphere", "<double,1>", u);
  }
}

} // namespace

void register_elem_containers()
{
  vrt::shard("elem_raw_vector<double>", [] { raw_vectors<double>(); });
  vrt::shard("elem_raw_vector<padded>", [] { raw_vectors<padded>(); });
  vrt::shard("elem_raw_vector<nr>", [] { raw_vectors<nr>(); });
  vrt::shard("elem_grid_tree", [] {
    grids<double>();
    grids<padded>();
    grids<nr>();
    trees<double>();
    trees<padded>();
    trees<nr>();
  });
  vrt::shard("elem_math", [] { maths(); });
}

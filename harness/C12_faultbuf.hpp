// C12 -- the misbehaving std::basic_streambuf shared by the fault enumeration (C12_fault.cpp) and the
// stream-state / retry enumeration (C12_state.cpp).  Unbuffered: one uflow per std::istream::get().
#pragma once
#include "C12_common.hpp"

#include <stdexcept>
#include <streambuf>

namespace c12
{
// what the buffer throws (so that the harness can tell it from anything fcppt or the std library throws)
struct injected_failure : std::runtime_error
{
  using std::runtime_error::runtime_error;
};

enum fault_mode
{
  NONE = 0,
  EOF_ONCE,
  EOF_FOREVER,
  THROW_READ,
  SEEK_FAIL,
  SEEK_THROW
};
inline char const *mode_name(int m)
{
  char const *n[] = {"none", "eof_once", "eof_forever", "throw_read", "seek_fail", "seek_throw"};
  return n[m];
}

template <class Ch> struct faulty_buf : std::basic_streambuf<Ch>
{
  using base = std::basic_streambuf<Ch>;
  using traits = typename base::traits_type;
  using int_type = typename base::int_type;
  using pos_type = typename base::pos_type;
  using off_type = typename base::off_type;

  std::basic_string<Ch> text;
  std::size_t idx = 0;
  int mode = NONE;
  int k = 0;
  int reads = 0, seeks = 0;
  bool fired_now = false, fired_ever = false;

  faulty_buf(std::basic_string<Ch> t, int m, int kk) : text(std::move(t)), mode(m), k(kk) {}

  int_type read(bool consume)
  {
    ++reads;
    bool const f = (mode == EOF_ONCE || mode == THROW_READ) ? reads == k : mode == EOF_FOREVER ? reads >= k : false;
    if (f)
    {
      fired_now = fired_ever = true;
      if (mode == THROW_READ)
        throw injected_failure("injected read failure");
      return traits::eof();
    }
    if (idx >= text.size())
      return traits::eof();
    Ch const c = text[idx];
    if (consume)
      ++idx;
    return traits::to_int_type(c);
  }
  int_type underflow() override { return read(false); }
  int_type uflow() override { return read(true); }
  pos_type seekoff(off_type off, std::ios_base::seekdir dir, std::ios_base::openmode which) override
  {
    ++seeks;
    if ((mode == SEEK_FAIL || mode == SEEK_THROW) && seeks == k)
    {
      fired_now = fired_ever = true;
      if (mode == SEEK_THROW)
        throw injected_failure("injected seek failure");
      return pos_type(off_type(-1));
    }
    if (!(which & std::ios_base::in))
      return pos_type(off_type(-1));
    off_type const b = dir == std::ios_base::beg ? off_type(0) : dir == std::ios_base::cur ? static_cast<off_type>(idx) : static_cast<off_type>(text.size());
    off_type const np = b + off;
    if (np < 0 || np > static_cast<off_type>(text.size()))
      return pos_type(off_type(-1));
    idx = static_cast<std::size_t>(np);
    return pos_type(np);
  }
  pos_type seekpos(pos_type p, std::ios_base::openmode which) override { return seekoff(off_type(p), std::ios_base::beg, which); }
};
}

// C01, part 2: containers, grid, array::from_range, runtime_index, cast::dynamic, enum_::from_string,
// extract_from_string, io::*, narrow / widen.
#include "C01_common.hpp"

#include <fcppt/array/from_range.hpp>
#include <fcppt/array/object_impl.hpp>
#include <fcppt/cast/dynamic.hpp>
#include <fcppt/container/at_optional.hpp>
#include <fcppt/container/find_opt.hpp>
#include <fcppt/container/find_opt_iterator.hpp>
#include <fcppt/container/find_opt_mapped.hpp>
#include <fcppt/container/maybe_back.hpp>
#include <fcppt/container/maybe_front.hpp>
#include <fcppt/container/pop_back.hpp>
#include <fcppt/container/pop_front.hpp>
#include <fcppt/container/grid/at_optional.hpp>
#include <fcppt/container/grid/dim.hpp>
#include <fcppt/container/grid/object.hpp>
#include <fcppt/container/grid/pos.hpp>
#include <fcppt/container/raw_vector/object_impl.hpp>
#include <fcppt/enum/from_string.hpp>
#include <fcppt/enum/to_string_impl_fwd.hpp>
#include <fcppt/extract_from_string.hpp>
#include <fcppt/io/buffer.hpp>
#include <fcppt/io/extract.hpp>
#include <fcppt/io/get.hpp>
#include <fcppt/io/optional_buffer.hpp>
#include <fcppt/io/peek.hpp>
#include <fcppt/io/read.hpp>
#include <fcppt/io/read_chars.hpp>
#include <fcppt/io/stream_to_string.hpp>
#include <fcppt/narrow.hpp>
#include <fcppt/optional/object_impl.hpp>
#include <fcppt/optional/reference.hpp>
#include <fcppt/optional_std_string.hpp>
#include <fcppt/reference_impl.hpp>
#include <fcppt/runtime_index.hpp>
#include <fcppt/widen.hpp>

#include <array>
#include <bit>
#include <deque>
#include <list>
#include <map>
#include <set>
#include <sstream>
#include <stdexcept>
#include <string>
#include <type_traits>
#include <unordered_map>
#include <utility>

using namespace c01;

// ------------------------------------------------------------ enum for from_string
namespace
{
enum class name_enum : std::uint8_t { e_a, e_1, e_a1, e_dash_a, e_empty, e_aa1_, fcppt_maximum = e_aa1_ };
char const *const name_enum_names[] = {"a", "1", "a1", "-a", "", "aa1 "};
}
namespace fcppt::enum_
{
template <> struct to_string_impl<name_enum>
{
  static std::string_view get(name_enum const v) { return name_enum_names[static_cast<unsigned>(v)]; }
};
}

namespace
{
constexpr std::size_t SZMAX = static_cast<std::size_t>(-1);

std::vector<std::size_t> indices(std::size_t len)
{
  std::vector<std::size_t> r;
  for (std::size_t i = 0; i <= len + 2; ++i)
    r.push_back(i);
  // beyond any margin: values that become negative or wrap when converted to the difference type / to 32 bit
  for (std::size_t v : {SZMAX, SZMAX - 1, SZMAX / 2 + 1, SZMAX / 2, (std::size_t(1) << 32), (std::size_t(1) << 32) - 1,
                        (std::size_t(1) << 32) + 1, (std::size_t(1) << 31)})
    r.push_back(v);
  return r;
}

bool boundary_index(std::size_t i, std::size_t len) { return i + 1 >= len; }

template <class C> C make(std::vector<int> const &s)
{
  using V = typename C::value_type;
  C c;
  for (int v : s)
    c.insert(c.end(), static_cast<V>(v));
  return c;
}

unsigned maxlen() { return vrt::thorough() ? 6U : 4U; }

// ------------------------------------------------------------ at_optional / maybe_front / maybe_back
template <class C, bool Const> void at_optional_for(char const *cname)
{
  entry e(std::string("container::at_optional<") + cname + (Const ? " const>" : ">"));
  for (auto const &s : all_seqs(maxlen()))
  {
    std::remove_const_t<C> store = make<std::remove_const_t<C>>(s);
    std::conditional_t<Const, std::remove_const_t<C> const, std::remove_const_t<C>> &c = store;
    for (std::size_t i : indices(s.size()))
    {
      if (!e.begin_text(show_seq(s) + ", " + std::to_string(i)))
        continue;
      vrt::nontrivial(boundary_index(i, s.size()));
      vrt::maybe_sample();
      guarded(e.name, [&] {
        auto const r = fcppt::container::at_optional(c, static_cast<typename std::remove_const_t<C>::size_type>(i));
        bool const in = i < s.size();
        VRT_CHECK(r.has_value() == in, e.name + (in ? ":missing" : ":spurious"), "size %zu index %zu has_value=%d", s.size(), i,
                  (int)r.has_value());
        if (in && r.has_value())
          VRT_CHECK(&r.get_unsafe().get() == &c[i], e.name + ":wrong_element", "reference to another element");
      });
    }
  }
}

template <class C, bool Const> void front_back_for(char const *cname)
{
  entry e_f(std::string("container::maybe_front<") + cname + (Const ? " const>" : ">"));
  entry e_b(std::string("container::maybe_back<") + cname + (Const ? " const>" : ">"));
  for (auto const &s : all_seqs(maxlen()))
  {
    C store = make<C>(s);
    std::conditional_t<Const, C const, C> &c = store;
    if (e_f.begin_text(show_seq(s)))
    {
      vrt::nontrivial(s.size() <= 1);
      vrt::maybe_sample();
      guarded(e_f.name, [&] {
        auto const r = fcppt::container::maybe_front(c);
        VRT_CHECK(r.has_value() == !s.empty(), e_f.name + ":guard", "size %zu has_value=%d", s.size(), (int)r.has_value());
        if (!s.empty() && r.has_value())
          VRT_CHECK(&r.get_unsafe().get() == &c.front(), e_f.name + ":wrong_element", "not the front");
      });
    }
    if (e_b.begin_text(show_seq(s)))
    {
      vrt::nontrivial(s.size() <= 1);
      guarded(e_b.name, [&] {
        auto const r = fcppt::container::maybe_back(c);
        VRT_CHECK(r.has_value() == !s.empty(), e_b.name + ":guard", "size %zu has_value=%d", s.size(), (int)r.has_value());
        if (!s.empty() && r.has_value())
          VRT_CHECK(&r.get_unsafe().get() == &c.back(), e_b.name + ":wrong_element", "not the back");
      });
    }
  }
}

template <class C, bool Front> void pop_for(char const *cname)
{
  entry e(std::string(Front ? "container::pop_front<" : "container::pop_back<") + cname + ">");
  for (auto const &s : all_seqs(maxlen()))
  {
    if (!e.begin_text(show_seq(s)))
      continue;
    vrt::nontrivial(s.size() <= 1);
    vrt::maybe_sample();
    guarded(e.name, [&] {
      C c = make<C>(s);
      fcppt::optional::object<int> r{};
      if constexpr (Front)
        r = fcppt::container::pop_front(c);
      else
        r = fcppt::container::pop_back(c);
      VRT_CHECK(r.has_value() == !s.empty(), e.name + ":guard", "size %zu has_value=%d", s.size(), (int)r.has_value());
      std::vector<int> rest(c.begin(), c.end());
      std::vector<int> want = s;
      if (!s.empty())
      {
        int const v = Front ? s.front() : s.back();
        if (Front)
          want.erase(want.begin());
        else
          want.pop_back();
        VRT_CHECK(r.has_value() && r.get_unsafe() == v, e.name + ":wrong_value", "popped the wrong value");
      }
      VRT_CHECK(rest == want, e.name + ":wrong_rest", "remaining container wrong: %s", show_seq(rest).c_str());
    });
  }
}

// ------------------------------------------------------------ find_opt / find_opt_mapped / find_opt_iterator
template <class M, bool Const> void find_map_for(char const *cname)
{
  entry e_f(std::string("container::find_opt<") + cname + (Const ? " const>" : ">"));
  entry e_m(std::string("container::find_opt_mapped<") + cname + (Const ? " const>" : ">"));
  entry e_i(std::string("container::find_opt_iterator<") + cname + (Const ? " const>" : ">"));
  for (auto const &s : all_seqs(maxlen()))
  {
    M store;
    std::map<int, int> ref;
    for (std::size_t i = 0; i < s.size(); ++i)
    {
      store.insert(std::make_pair(s[i], static_cast<int>(10 * i + 7)));
      ref.insert(std::make_pair(s[i], static_cast<int>(10 * i + 7)));
    }
    std::conditional_t<Const, M const, M> &m = store;
    for (int key = -1; key <= 3; ++key)
    {
      bool const in = ref.count(key) != 0;
      std::string const d = show_seq(s) + ", key " + std::to_string(key);
      if (e_f.begin_text(d))
      {
        vrt::nontrivial(!in || ref.size() == 1);
        vrt::maybe_sample();
        guarded(e_f.name, [&] {
          auto const r = fcppt::container::find_opt(m, key);
          VRT_CHECK(r.has_value() == in, e_f.name + (in ? ":missing" : ":spurious"), "has_value=%d", (int)r.has_value());
          if (in && r.has_value())
            VRT_CHECK(r.get_unsafe().get().first == key && r.get_unsafe().get().second == ref[key], e_f.name + ":wrong_element",
                      "wrong element");
        });
      }
      if (e_m.begin_text(d))
      {
        vrt::nontrivial(!in || ref.size() == 1);
        guarded(e_m.name, [&] {
          auto const r = fcppt::container::find_opt_mapped(m, key);
          VRT_CHECK(r.has_value() == in, e_m.name + (in ? ":missing" : ":spurious"), "has_value=%d", (int)r.has_value());
          if (in && r.has_value())
            VRT_CHECK(r.get_unsafe().get() == ref[key] && &r.get_unsafe().get() == &m.find(key)->second,
                      e_m.name + ":wrong_element", "wrong mapped object");
        });
      }
      if (e_i.begin_text(d))
      {
        vrt::nontrivial(!in || ref.size() == 1);
        guarded(e_i.name, [&] {
          auto const r = fcppt::container::find_opt_iterator(m, key);
          VRT_CHECK(r.has_value() == in, e_i.name + (in ? ":missing" : ":spurious"), "has_value=%d", (int)r.has_value());
          if (in && r.has_value())
            VRT_CHECK(r.get_unsafe() == m.find(key), e_i.name + ":wrong_element", "wrong iterator");
        });
      }
    }
  }
}

void find_set()
{
  entry e("container::find_opt<std::set<int> const>");
  for (auto const &s : all_seqs(maxlen()))
  {
    std::set<int> const c(s.begin(), s.end());
    for (int key = -1; key <= 3; ++key)
    {
      if (!e.begin_text(show_seq(s) + ", key " + std::to_string(key)))
        continue;
      bool const in = c.count(key) != 0;
      vrt::nontrivial(!in || c.size() == 1);
      guarded(e.name, [&] {
        auto const r = fcppt::container::find_opt(c, key);
        VRT_CHECK(r.has_value() == in, e.name + (in ? ":missing" : ":spurious"), "has_value=%d", (int)r.has_value());
        if (in && r.has_value())
          VRT_CHECK(r.get_unsafe().get() == key, e.name + ":wrong_element", "wrong element");
      });
    }
  }
}

// ------------------------------------------------------------ grid::at_optional
namespace g = fcppt::container::grid;

template <std::size_t N> void grid_at_optional()
{
  using grid_t = g::object<int, N>;
  using S = typename grid_t::size_type;
  entry e("container::grid::at_optional<int," + std::to_string(N) + ">");
  std::size_t const maxdim = N == 1 ? 4 : (N == 2 ? 3 : 2);
  std::vector<std::size_t> big{SZMAX, SZMAX / 2 + 1, (std::size_t(1) << 32), (std::size_t(1) << 32) + 1};
  std::array<std::size_t, 3> sz{1, 1, 1};
  auto mkpos = [](std::array<std::size_t, 3> const &a) {
    if constexpr (N == 1)
      return typename grid_t::pos(static_cast<S>(a[0]));
    else if constexpr (N == 2)
      return typename grid_t::pos(static_cast<S>(a[0]), static_cast<S>(a[1]));
    else
      return typename grid_t::pos(static_cast<S>(a[0]), static_cast<S>(a[1]), static_cast<S>(a[2]));
  };
  auto mkdim = [](std::array<std::size_t, 3> const &a) {
    if constexpr (N == 1)
      return typename grid_t::dim(static_cast<S>(a[0]));
    else if constexpr (N == 2)
      return typename grid_t::dim(static_cast<S>(a[0]), static_cast<S>(a[1]));
    else
      return typename grid_t::dim(static_cast<S>(a[0]), static_cast<S>(a[1]), static_cast<S>(a[2]));
  };
  auto code = [](std::array<std::size_t, 3> const &a) { return static_cast<int>(1 + a[0] + 10 * a[1] + 100 * a[2]); };
  for (sz[0] = 0; sz[0] <= maxdim; ++sz[0])
    for (sz[1] = (N >= 2 ? 0 : 1); sz[1] <= (N >= 2 ? maxdim : 1); ++sz[1])
      for (sz[2] = (N >= 3 ? 0 : 1); sz[2] <= (N >= 3 ? maxdim : 1); ++sz[2])
      {
        grid_t grid(mkdim(sz), 0);
        {
          std::array<std::size_t, 3> p{};
          for (p[0] = 0; p[0] < sz[0]; ++p[0])
            for (p[1] = 0; p[1] < sz[1]; ++p[1])
              for (p[2] = 0; p[2] < sz[2]; ++p[2])
                grid.get_unsafe(mkpos(p)) = code(p);
        }
        grid_t const &cgrid = grid;
        // coordinates: the margin 0..size+1 and the big values, per axis
        std::array<std::vector<std::size_t>, 3> coords;
        for (std::size_t ax = 0; ax < 3; ++ax)
        {
          if (ax >= N)
          {
            coords[ax] = {0};
            continue;
          }
          for (std::size_t v = 0; v <= sz[ax] + 1; ++v)
            coords[ax].push_back(v);
          for (std::size_t v : big)
            coords[ax].push_back(v);
        }
        for (std::size_t x : coords[0])
          for (std::size_t y : coords[1])
            for (std::size_t z : coords[2])
            {
              std::array<std::size_t, 3> const p{x, y, z};
              std::string d = "size (";
              for (std::size_t ax = 0; ax < N; ++ax)
                d += (ax ? "," : "") + std::to_string(sz[ax]);
              d += "), pos (";
              for (std::size_t ax = 0; ax < N; ++ax)
                d += (ax ? "," : "") + std::to_string(p[ax]);
              d += ")";
              if (!e.begin_text(d))
                continue;
              bool in = true, edge = false;
              for (std::size_t ax = 0; ax < N; ++ax)
              {
                in = in && p[ax] < sz[ax];
                edge = edge || p[ax] + 1 >= sz[ax];
              }
              vrt::nontrivial(edge);
              vrt::maybe_sample();
              guarded(e.name, [&] {
                fcppt::optional::reference<int> const r = g::at_optional(grid, mkpos(p));
                fcppt::optional::reference<int const> const cr = g::at_optional(cgrid, mkpos(p));
                VRT_CHECK(r.has_value() == in && cr.has_value() == in, e.name + (in ? ":missing" : ":spurious"),
                          "has_value=%d/%d", (int)r.has_value(), (int)cr.has_value());
                if (in && r.has_value() && cr.has_value())
                  VRT_CHECK(r.get_unsafe().get() == code(p) && &r.get_unsafe().get() == &cr.get_unsafe().get(),
                            e.name + ":wrong_element", "wrong element %d", r.get_unsafe().get());
              });
            }
      }
}

// ------------------------------------------------------------ array::from_range
template <std::size_t N, class Src> void from_range_one(entry &e, std::vector<int> const &s, char const *how)
{
  if (!e.begin_text(std::string(how) + " " + show_seq(s)))
    return;
  vrt::nontrivial(s.size() + 1 >= N && s.size() <= N + 1);
  vrt::maybe_sample();
  guarded(e.name, [&] {
    Src src = make<Src>(s);
    Src const &csrc = src;
    auto check = [&](auto const &r) {
      VRT_CHECK(r.has_value() == (s.size() == N), e.name + (s.size() == N ? ":missing" : ":spurious"), "size %zu has_value=%d",
                s.size(), (int)r.has_value());
      if (s.size() == N && r.has_value())
        for (std::size_t i = 0; i < N; ++i)
          VRT_CHECK(r.get_unsafe().get_unsafe(i) == s[i], e.name + ":wrong_value", "element %zu wrong", i);
    };
    if (how[0] == 'l')
      check(fcppt::array::from_range<N>(src));
    else if (how[0] == 'c')
      check(fcppt::array::from_range<N>(csrc));
    else
      check(fcppt::array::from_range<N>(std::move(src)));
  });
}

template <std::size_t N> void from_range_n()
{
  entry e_v("array::from_range<" + std::to_string(N) + ">(std::vector<int>)");
  entry e_d("array::from_range<" + std::to_string(N) + ">(std::deque<int>)");
  for (auto const &s : all_seqs(maxlen()))
  {
    for (char const *how : {"lvalue", "const", "rvalue"})
    {
      from_range_one<N, std::vector<int>>(e_v, s, how);
      from_range_one<N, std::deque<int>>(e_d, s, how);
    }
  }
}

// ------------------------------------------------------------ runtime_index
template <class Index, Index Max> void runtime_index_for()
{
  entry e(std::string("runtime_index<") + tname<Index>::v + "," + std::to_string(static_cast<unsigned long long>(Max)) + ">");
  using max_c = std::integral_constant<Index, Max>;
  for (Index i : domain<Index>())
  {
    if (!e.begin(i))
      continue;
    vrt::nontrivial(static_cast<i128>(i) + 1 >= static_cast<i128>(Max));
    vrt::maybe_sample();
    guarded(e.name, [&] {
      long long const r = fcppt::runtime_index<max_c>(
          i, []<Index I>(std::integral_constant<Index, I>) -> long long { return static_cast<long long>(I); },
          []() -> long long { return -1; });
      long long const want = i < Max ? static_cast<long long>(i) : -1;
      VRT_CHECK(r == want, e.name + ":wrong", "got %lld want %lld", r, want);
    });
  }
}

// ------------------------------------------------------------ cast::dynamic
struct base
{
  virtual ~base() = default;
};
struct derived1 : base
{
};
struct derived2 : base
{
};
struct derived11 : derived1
{
};

void dynamic_all()
{
  entry e("cast::dynamic");
  base b;
  derived1 d1;
  derived2 d2;
  derived11 d11;
  base *objs[] = {&b, &d1, &d2, &d11};
  for (int o = 0; o < 4; ++o)
    for (int t = 0; t < 4; ++t)
    {
      if (!e.begin(o, t))
        continue;
      // reference: which dynamic types are-a target
      bool const is_a[4][4] = {{true, false, false, false}, {true, true, false, false}, {true, false, true, false}, {true, true, false, true}};
      bool const want = is_a[o][t];
      vrt::nontrivial(!want);
      vrt::maybe_sample();
      guarded(e.name, [&] {
        base &src = *objs[o];
        base const &csrc = src;
        bool got = false, cgot = false;
        void const *addr = nullptr;
        switch (t)
        {
        case 0:
          got = fcppt::cast::dynamic<base>(src).has_value();
          cgot = fcppt::cast::dynamic<base const>(csrc).has_value();
          break;
        case 1:
        {
          auto r = fcppt::cast::dynamic<derived1>(src);
          got = r.has_value();
          if (got)
            addr = static_cast<base const *>(&r.get_unsafe().get());
          cgot = fcppt::cast::dynamic<derived1 const>(csrc).has_value();
          break;
        }
        case 2:
          got = fcppt::cast::dynamic<derived2>(src).has_value();
          cgot = fcppt::cast::dynamic<derived2 const>(csrc).has_value();
          break;
        default:
          got = fcppt::cast::dynamic<derived11>(src).has_value();
          cgot = fcppt::cast::dynamic<derived11 const>(csrc).has_value();
        }
        VRT_CHECK(got == want && cgot == want, e.name + (want ? ":missing" : ":spurious"), "has_value=%d/%d", (int)got, (int)cgot);
        if (addr)
          VRT_CHECK(addr == objs[o], e.name + ":wrong_object", "reference to another object");
      });
    }
}

// ------------------------------------------------------------ strings
std::vector<std::string> text_strings(unsigned extra = 0) { return all_strings<char>("-a1 ", (vrt::thorough() ? 6U : 4U) + extra); }

void enum_from_string()
{
  entry e("enum_::from_string<name_enum>");
  for (auto const &s : text_strings())
  {
    if (!e.begin_text(show(s)))
      continue;
    int want = -1;
    for (int i = 0; i < 6; ++i)
      if (s == name_enum_names[i])
        want = i;
    vrt::nontrivial(want >= 0 || s.size() <= 1);
    vrt::maybe_sample();
    exact<char> const buf(s);
    guarded(e.name, [&] {
      fcppt::optional::object<name_enum> const r = fcppt::enum_::from_string<name_enum>(buf.view());
      VRT_CHECK(r.has_value() == (want >= 0), e.name + (want >= 0 ? ":missing" : ":spurious"), "has_value=%d", (int)r.has_value());
      if (want >= 0 && r.has_value())
        VRT_CHECK(static_cast<int>(r.get_unsafe()) == want, e.name + ":wrong_value", "got %d want %d",
                  static_cast<int>(r.get_unsafe()), want);
    });
  }
}

// decimal strings around the limits of every integer type, and longer than any of them
std::vector<std::string> limit_strings()
{
  std::set<std::string> r;
  auto add = [&](i128 v) {
    bool const neg = v < 0;
    unsigned __int128 u = neg ? static_cast<unsigned __int128>(-(v + 1)) + 1 : static_cast<unsigned __int128>(v);
    std::string s;
    do
    {
      s.insert(s.begin(), static_cast<char>('0' + static_cast<int>(u % 10)));
      u /= 10;
    } while (u != 0);
    r.insert(neg ? "-" + s : s);
    if (!neg)
      r.insert("+" + s);
  };
  for (int bits : {8, 16, 32, 64})
  {
    i128 const p = i128(1) << bits, h = i128(1) << (bits - 1);
    for (i128 v : {p - 1, p, p + 1, h - 1, h, h + 1, -h + 1, -h, -h - 1, -p, -p + 1, -p - 1})
      add(v);
  }
  for (unsigned n : {19U, 20U, 21U, 40U})
  {
    r.insert(std::string(n, '9'));
    r.insert("-" + std::string(n, '9'));
  }
  for (char const *s : {"0", "-0", "00", "0x10", "1e5", "1e999", "-1e999", "1e-999", "inf", "-inf", "nan", "true", "false", ".", "1.", ".5", "1 ",
                        " 1", "\t1", "1\n", "--1", "+-1", "+", "2", "10", "01"})
    r.insert(s);
  return std::vector<std::string>(r.begin(), r.end());
}

template <class T> bool all_ones_value(std::string const &s, T &out)
{
  if (s.empty() || s.find_first_not_of('1') != std::string::npos)
    return false;
  i128 v = 0;
  for (std::size_t i = 0; i < s.size(); ++i)
    v = v * 10 + 1;
  if (!fits<T>(v))
    return false;
  out = static_cast<T>(v);
  return true;
}

template <class T, class Ch> void extract_for(char const *tn, char const *chn)
{
  entry e(std::string("extract_from_string<") + tn + ">(" + chn + ")");
  auto strs = text_strings();
  for (auto const &s : limit_strings())
    strs.push_back(s);
  for (auto const &s : strs)
  {
    if (!e.begin_text(show(s)))
      continue;
    vrt::nontrivial(!s.empty() && (s[0] == '-' || s[0] == ' ' || s.size() > 4));
    vrt::maybe_sample();
    std::basic_string<Ch> const src(s.begin(), s.end());
    guarded(e.name, [&] {
      fcppt::optional::object<T> const r = fcppt::extract_from_string<T>(src);
      if constexpr (std::is_integral_v<T> && sizeof(T) >= 2 && !std::is_same_v<T, bool> && !std::is_same_v<T, wchar_t>)
      {
        T want{};
        if (all_ones_value<T>(s, want))
          VRT_CHECK(r.has_value() && r.get_unsafe() == want, e.name + ":digits", "plain digit string not converted");
      }
      else
        (void)r;
    });
  }
}

// ------------------------------------------------------------ io
void io_all()
{
  auto const strs = text_strings();
  {
    entry e("io::stream_to_string<char>");
    entry ew("io::stream_to_string<wchar_t>");
    // stream state before the call: 0 fresh, 1 one character consumed, 2 everything consumed (eofbit), 3 failbit, 4 badbit
    for (auto const &s : strs)
      for (int st = 0; st < 5; ++st)
      {
        auto prepare = [&](auto &stream) {
          using traits = typename std::remove_reference_t<decltype(stream)>::traits_type;
          if (st == 1)
            stream.get();
          else if (st == 2)
            while (stream.get() != traits::eof())
            {
            }
          else if (st == 3)
            stream.setstate(std::ios_base::failbit);
          else if (st == 4)
            stream.setstate(std::ios_base::badbit);
        };
        std::string const d = show(s) + ", state " + std::to_string(st);
        if (e.begin_text(d))
        {
          vrt::nontrivial(s.empty() || st != 0);
          vrt::maybe_sample();
          guarded(e.name, [&] {
            std::istringstream stream{s};
            prepare(stream);
            fcppt::optional::object<std::string> const r = fcppt::io::stream_to_string(stream);
            if (st == 0)
              VRT_CHECK(r.has_value() && r.get_unsafe() == s, e.name + ":fresh", "content of a fresh stream not returned");
            if (st == 1 && !s.empty())
              VRT_CHECK(r.has_value() && r.get_unsafe() == s.substr(1), e.name + ":rest", "rest of the stream not returned");
            if (r.has_value())
              VRT_CHECK(r.get_unsafe().size() <= s.size(), e.name + ":too_long", "more characters than the stream holds");
          });
        }
        if (ew.begin_text(d))
        {
          vrt::nontrivial(s.empty() || st != 0);
          guarded(ew.name, [&] {
            std::wstring const ws(s.begin(), s.end());
            std::wistringstream stream{ws};
            prepare(stream);
            fcppt::optional::object<std::wstring> const r = fcppt::io::stream_to_string(stream);
            if (st == 0)
              VRT_CHECK(r.has_value() && r.get_unsafe() == ws, ew.name + ":fresh", "content of a fresh stream not returned");
          });
        }
      }
  }
  {
    entry e("io::read_chars");
    for (auto const &s : strs)
      for (std::size_t count = 0; count <= s.size() + 2; ++count)
        for (int st = 0; st < 2; ++st) // 1: one character already consumed
        {
          if (st == 1 && s.empty())
            continue;
          if (!e.begin_text(show(s) + ", count " + std::to_string(count) + (st ? ", after one get" : "")))
            continue;
          std::string const avail = s.substr(static_cast<std::size_t>(st));
          vrt::nontrivial(count + 1 >= avail.size());
          vrt::maybe_sample();
          guarded(e.name, [&] {
            std::istringstream stream{s};
            if (st)
              stream.get();
            fcppt::io::optional_buffer const r = fcppt::io::read_chars(stream, count);
            if (r.has_value())
            {
              fcppt::io::buffer const &b = r.get_unsafe();
              bool ok = b.size() == count && count <= avail.size();
              for (std::size_t i = 0; ok && i < count; ++i)
                ok = b[i] == avail[i];
              VRT_CHECK(ok, e.name + ":wrong_content", "buffer of %zu chars does not equal the next %zu chars", (std::size_t)b.size(), count);
            }
            else
              VRT_CHECK(count == 0 || count > avail.size(), e.name + ":missing", "%zu of %zu available chars not read", count,
                        avail.size());
          });
        }
  }
  {
    entry e_g("io::get<char>");
    entry e_p("io::peek<char>");
    entry e_gw("io::get<wchar_t>");
    entry e_pw("io::peek<wchar_t>");
    for (auto const &s : strs)
      for (std::size_t k = 0; k <= s.size() + 1; ++k) // k characters consumed before
      {
        std::string const d = show(s) + ", after " + std::to_string(k) + " gets";
        auto run = [&](entry &e, bool peek, auto tag) {
          using Ch = decltype(tag);
          if (!e.begin_text(d))
            return;
          vrt::nontrivial(k + 1 >= s.size());
          vrt::maybe_sample();
          guarded(e.name, [&] {
            std::basic_istringstream<Ch> stream{std::basic_string<Ch>(s.begin(), s.end())};
            for (std::size_t i = 0; i < k; ++i)
              stream.get();
            fcppt::optional::object<Ch> const r = peek ? fcppt::io::peek(stream) : fcppt::io::get(stream);
            bool const in = k < s.size();
            VRT_CHECK(r.has_value() == in, e.name + (in ? ":missing" : ":spurious"), "has_value=%d", (int)r.has_value());
            if (in && r.has_value())
              VRT_CHECK(r.get_unsafe() == static_cast<Ch>(s[k]), e.name + ":wrong_char", "wrong character");
            // peek must not consume, get must consume exactly one
            fcppt::optional::object<Ch> const n = fcppt::io::get(stream);
            std::size_t const next = peek ? k : k + 1;
            VRT_CHECK(n.has_value() == (next < s.size()) && (!n.has_value() || n.get_unsafe() == static_cast<Ch>(s[next])),
                      e.name + ":position", "stream position after the call is wrong");
          });
        };
        run(e_g, false, char{});
        run(e_p, true, char{});
        run(e_gw, false, wchar_t{});
        run(e_pw, true, wchar_t{});
      }
  }
  {
    // io::read<T>: all byte strings over {00,01,80,ff} up to length 5, both byte orders
    auto const bytes = all_strings<char>(std::string("\x00\x01\x80\xff", 4), vrt::thorough() ? 5U : 4U);
    auto run = [&](auto tag, char const *tn) {
      using T = decltype(tag);
      entry e(std::string("io::read<") + tn + ">");
      for (auto const &s : bytes)
        for (int en = 0; en < 2; ++en)
        {
          if (!e.begin_text(show(s) + (en ? ", big" : ", little")))
            continue;
          vrt::nontrivial(s.size() + 1 >= sizeof(T) && s.size() <= sizeof(T) + 1);
          vrt::maybe_sample();
          guarded(e.name, [&] {
            std::istringstream stream{s};
            fcppt::optional::object<T> const r = fcppt::io::read<T>(stream, en ? std::endian::big : std::endian::little);
            bool const in = s.size() >= sizeof(T);
            VRT_CHECK(r.has_value() == in, e.name + (in ? ":missing" : ":spurious"), "has_value=%d", (int)r.has_value());
            if (in && r.has_value())
            {
              std::uint64_t want = 0;
              for (std::size_t i = 0; i < sizeof(T); ++i)
              {
                std::uint64_t const byte = static_cast<unsigned char>(s[i]);
                want |= byte << (8 * (en ? sizeof(T) - 1 - i : i));
              }
              VRT_CHECK(static_cast<std::uint64_t>(static_cast<std::make_unsigned_t<T>>(r.get_unsafe())) == want, e.name + ":wrong_value",
                        "wrong value");
            }
          });
        }
    };
    run(u8{}, "u8");
    run(u16{}, "u16");
    run(i16{}, "i16");
    run(u32{}, "u32");
    run(i32{}, "i32");
    run(u64{}, "u64");
  }
}

// ------------------------------------------------------------ narrow / widen (string_conv_locale = locale(""), C.UTF-8 in the harness runs)
void widen_all()
{
  {
    // widen_locale documents std::runtime_error for a failed conversion
    entry e("widen", nullptr);
    vrt::info("documented_exception:widen", "\"std::runtime_error (widen_locale.hpp: \\\\throw std::runtime_error If the conversion fails)\"");
    auto const strs = all_strings<char>(std::string("a-\xc3\xa9\xe2\x82\xac\xff", 8), vrt::thorough() ? 5U : 4U);
    for (auto const &s : strs)
    {
      if (!e.begin_text(show(s)))
        continue;
      bool ascii = true;
      for (char c : s)
        ascii = ascii && static_cast<unsigned char>(c) < 0x80;
      vrt::nontrivial(!ascii);
      vrt::maybe_sample();
      exact<char> const buf(s);
      std::wstring r;
      int const how = guarded_allow<std::runtime_error>(e.name, [&] { r = fcppt::widen(buf.view()); });
      if (ascii)
        VRT_CHECK(how == 1 && r == std::wstring(s.begin(), s.end()), e.name + ":ascii", "ASCII string not widened one to one");
      if (how == 0)
        vrt::count("documented_exception:widen");
    }
  }
}

void narrow_all()
{
  {
    entry e("narrow");
    std::wstring alpha = L"a-";
    alpha += static_cast<wchar_t>(0xe9);
    alpha += static_cast<wchar_t>(0x20ac);
    alpha += static_cast<wchar_t>(0x10348);
    alpha += static_cast<wchar_t>(0xd800);   // lone surrogate: not encodable
    alpha += static_cast<wchar_t>(0x110000); // beyond Unicode
    alpha += static_cast<wchar_t>(-1);
    auto const strs = all_strings<wchar_t>(alpha, vrt::thorough() ? 5U : 4U);
    for (auto const &s : strs)
    {
      if (!e.begin_text(show(s)))
        continue;
      bool ascii = true;
      for (wchar_t c : s)
        ascii = ascii && static_cast<unsigned long>(c) < 0x80;
      vrt::nontrivial(!ascii);
      vrt::maybe_sample();
      exact<wchar_t> const buf(s);
      guarded(e.name, [&] {
        fcppt::optional_std_string const r = fcppt::narrow(buf.view());
        if (ascii)
          VRT_CHECK(r.has_value() && r.get_unsafe() == std::string(s.begin(), s.end()), e.name + ":ascii", "ASCII string not narrowed one to one");
      });
    }
  }
}
}

void c01::register_containers()
{
  vrt::shard("at_optional", [] {
    at_optional_for<std::vector<int>, false>("std::vector<int>");
    at_optional_for<std::vector<int>, true>("std::vector<int>");
    at_optional_for<std::deque<int>, false>("std::deque<int>");
    at_optional_for<std::deque<int>, true>("std::deque<int>");
    at_optional_for<std::string, false>("std::string");
    at_optional_for<fcppt::container::raw_vector::object<int>, false>("raw_vector<int>");
  });
  vrt::shard("front_back_pop", [] {
    front_back_for<std::vector<int>, false>("std::vector<int>");
    front_back_for<std::vector<int>, true>("std::vector<int>");
    front_back_for<std::deque<int>, false>("std::deque<int>");
    front_back_for<std::list<int>, false>("std::list<int>");
    front_back_for<std::list<int>, true>("std::list<int>");
    front_back_for<std::string, false>("std::string");
    pop_for<std::vector<int>, false>("std::vector<int>");
    pop_for<std::deque<int>, false>("std::deque<int>");
    pop_for<std::list<int>, false>("std::list<int>");
    pop_for<std::deque<int>, true>("std::deque<int>");
    pop_for<std::list<int>, true>("std::list<int>");
  });
  vrt::shard("find_opt", [] {
    find_map_for<std::map<int, int>, false>("std::map<int,int>");
    find_map_for<std::map<int, int>, true>("std::map<int,int>");
    find_map_for<std::unordered_map<int, int>, false>("std::unordered_map<int,int>");
    find_map_for<std::unordered_map<int, int>, true>("std::unordered_map<int,int>");
    find_set();
  });
  vrt::shard("grid_at_optional", [] {
    grid_at_optional<1>();
    grid_at_optional<2>();
    grid_at_optional<3>();
  });
  vrt::shard("from_range", [] {
    from_range_n<0>();
    from_range_n<1>();
    from_range_n<2>();
    from_range_n<3>();
    from_range_n<4>();
    from_range_n<5>();
    from_range_n<6>();
  });
  vrt::shard("runtime_index", [] {
    runtime_index_for<u8, 0>();
    runtime_index_for<u8, 1>();
    runtime_index_for<u8, 3>();
    runtime_index_for<u8, 255>();
    runtime_index_for<u16, 0>();
    runtime_index_for<u16, 5>();
    runtime_index_for<u32, 4>();
    runtime_index_for<u64, 4>();
    dynamic_all();
  });
  vrt::shard("enum_from_string", [] { enum_from_string(); });
  vrt::shard("extract_from_string_a", [] {
    extract_for<int, char>("int", "std::string");
    extract_for<unsigned, char>("unsigned", "std::string");
    extract_for<short, char>("short", "std::string");
    extract_for<unsigned short, char>("unsigned short", "std::string");
    extract_for<long long, char>("long long", "std::string");
    extract_for<unsigned long long, char>("unsigned long long", "std::string");
  });
  vrt::shard("extract_from_string_b", [] {
    extract_for<char, char>("char", "std::string");
    extract_for<signed char, char>("signed char", "std::string");
    extract_for<unsigned char, char>("unsigned char", "std::string");
    extract_for<bool, char>("bool", "std::string");
    extract_for<float, char>("float", "std::string");
    extract_for<double, char>("double", "std::string");
    extract_for<std::string, char>("std::string", "std::string");
  });
  vrt::shard("extract_from_string_w", [] {
    extract_for<int, wchar_t>("int", "std::wstring");
    extract_for<unsigned long long, wchar_t>("unsigned long long", "std::wstring");
    extract_for<wchar_t, wchar_t>("wchar_t", "std::wstring");
    extract_for<double, wchar_t>("double", "std::wstring");
    extract_for<std::wstring, wchar_t>("std::wstring", "std::wstring");
  });
  vrt::shard("io", [] { io_all(); });
  vrt::shard("widen", [] { widen_all(); });
  vrt::shard("narrow", [] { narrow_all(); });
}

// C05 -- value conservation: fcppt::container::grid (map, apply, resize) and fcppt::container::tree
// (constructors, copy/move, push_back/push_front/insert, pop_back/pop_front/release, value setter, map).
#include "C05_common.hpp"

#include <fcppt/container/grid/apply.hpp>
#include <fcppt/container/grid/map.hpp>
#include <fcppt/container/grid/object.hpp>
#include <fcppt/container/grid/resize.hpp>
#include <fcppt/container/tree/map.hpp>
#include <fcppt/container/tree/object_impl.hpp>
#include <fcppt/optional/object_impl.hpp>
#include <fcppt/reference_impl.hpp>

#include <iterator>
#include <list>

namespace
{
using namespace c05;

// ---------------------------------------------------------------- grid
template <class T> using grid2 = fcppt::container::grid::object<T, 2>;
using tgrid = grid2<tracked>;
using sz_t = tgrid::size_type;

struct shape
{
  sz_t w, h;
};
std::vector<shape> grid_shapes()
{
  std::vector<shape> r{{0, 0}, {1, 1}, {3, 1}};
  if (vrt::thorough())
  {
    r.push_back({1, 3});
    r.push_back({2, 2});
    r.push_back({3, 2});
  }
  return r;
}
std::string shp(shape s) { return std::to_string(s.w) + "x" + std::to_string(s.h); }

template <class T = tracked> grid2<T> make_grid(shape const s, int const base)
{
  return grid2<T>(typename grid2<T>::dim(s.w, s.h), [&](typename grid2<T>::pos const &p) {
    return T(base + static_cast<int>(p.y() * s.w + p.x()));
  });
}
// the elements read position by position (y outer, x inner): independent of the storage layout
template <class G> std::vector<item> by_pos(G const &g)
{
  std::vector<item> r;
  for (sz_t y = 0; y < g.size().h(); ++y)
    for (sz_t x = 0; x < g.size().w(); ++x)
      collect(g.get_unsafe(typename G::pos(x, y)), r);
  return r;
}
std::vector<int> ids(std::vector<item> const &v)
{
  std::vector<int> r;
  for (item const &i : v)
    r.push_back(i.id);
  return r;
}

void grid_map()
{
  for (shape s : grid_shapes())
    for_cat([&](auto c) {
      constexpr cat C = decltype(c)::value;
      run_case("grid::map", descr({{"source", C}}, shp(s)), s.w * s.h > 0, [&](ctx &x) {
        tgrid g = make_grid(s, 10);
        std::vector<int> const want = ids(by_pos(g));
        x.arg("source", C, g);
        x.arm();
        tgrid r = fcppt::container::grid::map(pass<C>(g), [](auto &&e) { return take(std::forward<decltype(e)>(e)); });
        x.disarm();
        VRT_CHECK(r.size().w() == s.w && r.size().h() == s.h, x.op() + ":result:size", "result size wrong");
        x.result_items(by_pos(r), want);
        x.after("source", g);
      });
    });
}

void grid_apply()
{
  for (shape s1 : grid_shapes())
    for (shape s2 : grid_shapes())
    {
      bool const same = s1.w == s2.w && s1.h == s2.h;
      if (!same && !(s1.w * s1.h <= 1 && s2.w * s2.h == 3) && !(s2.w * s2.h <= 1 && s1.w * s1.h == 3) && !vrt::thorough())
        continue;
      for_cat([&](auto c1) {
        for_cat([&](auto c2) {
          constexpr cat C1 = decltype(c1)::value;
          constexpr cat C2 = decltype(c2)::value;
          run_case("grid::apply/2", descr({{"grid1", C1}, {"grid2", C2}}, shp(s1) + "," + shp(s2)), same && s1.w * s1.h > 0, [&](ctx &x) {
            tgrid a = make_grid(s1, 10);
            grid2<tracked_b> b = make_grid<tracked_b>(s2, 40);
            std::vector<int> want;
            if (same)
            {
              std::vector<int> const ia = ids(by_pos(a)), ib = ids(by_pos(b));
              for (std::size_t i = 0; i < ia.size(); ++i)
              {
                want.push_back(ia[i]);
                want.push_back(ib[i]);
              }
            }
            x.arg("grid1", C1, a);
            x.arg("grid2", C2, b);
            x.arm();
            auto r = fcppt::container::grid::apply(
                [](auto &&e1, auto &&e2) {
                  return std::pair<tracked, tracked_b>(take(std::forward<decltype(e1)>(e1)), take(std::forward<decltype(e2)>(e2)));
                },
                pass<C1>(a), pass<C2>(b));
            x.disarm();
            x.result_items(by_pos(r), want);
            x.after("grid1", a);
            x.after("grid2", b);
          });
        });
      });
    }
}

void grid_resize()
{
  std::vector<shape> targets{{0, 0}, {1, 1}, {2, 1}, {3, 1}, {4, 2}};
  for (shape s : grid_shapes())
    for (shape t : targets)
      for_cat([&](auto c) {
        constexpr cat C = decltype(c)::value;
        run_case("grid::resize", descr({{"grid", C}}, shp(s) + "->" + shp(t)), s.w * s.h > 0 && t.w * t.h > 0, [&](ctx &x) {
          tgrid g = make_grid(s, 10);
          x.arg("grid", C, g);
          std::map<std::pair<sz_t, sz_t>, int> fresh;
          std::map<std::pair<sz_t, sz_t>, int> old;
          for (sz_t y = 0; y < s.h; ++y)
            for (sz_t px = 0; px < s.w; ++px)
              old[{px, y}] = peek::id(g.get_unsafe(tgrid::pos(px, y)));
          x.arm();
          tgrid r = fcppt::container::grid::resize(pass<C>(g), tgrid::dim(t.w, t.h), [&fresh](tgrid::pos const &p) {
            tracked v(700);
            fresh[{p.x(), p.y()}] = peek::id(v);
            return v;
          });
          x.disarm();
          VRT_CHECK(r.size().w() == t.w && r.size().h() == t.h, x.op() + ":result:size", "result size wrong");
          std::vector<int> want;
          bool init_ok = true;
          for (sz_t y = 0; y < t.h; ++y)
            for (sz_t px = 0; px < t.w; ++px)
            {
              if (px < s.w && y < s.h)
                want.push_back(old[{px, y}]);
              else
              {
                init_ok = init_ok && fresh.count({px, y}) == 1;
                want.push_back(fresh[{px, y}]);
              }
            }
          VRT_CHECK(init_ok, x.op() + ":init_not_called", "init was not called for a new position");
          x.result_items(by_pos(r), want);
          x.after("grid", g);
        });
      });
}

// ---------------------------------------------------------------- tree
using ttree = fcppt::container::tree::object<tracked>;

// root (payload base) with n children, the first child has one grandchild
ttree make_tree(int const n, int const base)
{
  ttree t{tracked(base)};
  for (int i = 0; i < n; ++i)
    t.push_back(tracked(base + 1 + i));
  if (n > 0)
    t.begin()->push_back(tracked(base + 50));
  return t;
}

// structural sanity of the real tree: every child's parent() is the node that lists it
bool parents_ok(ttree const &t)
{
  for (ttree const &c : t.children())
  {
    auto const p = c.parent();
    if (!p.has_value() || &p.get_unsafe().get() != &t)
      return false;
    if (!parents_ok(c))
      return false;
  }
  return true;
}

void tree_ctor()
{
  for_cat([&](auto c) {
    constexpr cat C = decltype(c)::value;
    run_case("tree::object(value)", descr({{"value", C}}, ""), true, [&](ctx &x) {
      tracked v(5);
      std::vector<int> const want = ids_of(v);
      x.arg("value", C, v);
      x.arm();
      ttree t(pass<C>(v));
      x.disarm();
      x.result_is(t, want);
      x.after("value", v);
    });
  });
  for (int n : sizes())
    run_case("tree::object(value,children)", descr({{"value", cat::rv}, {"children", cat::rv}}, "children=" + std::to_string(n)), n > 0,
             [&](ctx &x) {
               tracked v(5);
               ttree::child_list l;
               for (int i = 0; i < n; ++i)
                 l.push_back(make_tree(i % 2, 20 + 10 * i));
               std::vector<int> const want = ids_of(v) + ids_of(l);
               x.arg("value", cat::rv, v);
               x.arg("children", cat::rv, l);
               x.arm();
               ttree t(std::move(v), std::move(l));
               x.disarm();
               x.result_is(t, want);
               VRT_CHECK(parents_ok(t), x.op() + ":parent_links", "parent links broken");
               // the state of the moved-from child list is not promised: information only
               if (!l.empty())
                 vrt::count("info:" + x.op() + ":moved_from_child_list_not_empty");
             });
  for (int n : sizes())
    for_cat([&](auto c) {
      constexpr cat C = decltype(c)::value;
      run_case("tree::object(tree)", descr({{"other", C}}, "children=" + std::to_string(n)), true, [&](ctx &x) {
        ttree s = make_tree(n, 10);
        std::vector<int> const want = ids_of(s);
        x.arg("other", C, s);
        x.arm();
        ttree t(pass<C>(s));
        x.disarm();
        x.result_is(t, want);
        VRT_CHECK(parents_ok(t), x.op() + ":parent_links", "parent links broken");
        x.after("other", s);
      });
      run_case("tree::operator=(tree)", descr({{"other", C}}, "children=" + std::to_string(n)), true, [&](ctx &x) {
        ttree s = make_tree(n, 10);
        ttree t = make_tree(1, 80);
        std::vector<int> const want = ids_of(s);
        x.arg("other", C, s);
        x.inout("this", t);
        x.arm();
        t = pass<C>(s);
        x.disarm();
        x.result_is(t, want);
        VRT_CHECK(parents_ok(t), x.op() + ":parent_links", "parent links broken");
        x.after("other", s);
      });
    });
}

void tree_insert()
{
  for (int n : sizes())
    for_cat([&](auto c) {
      constexpr cat C = decltype(c)::value;
      for (int where = 0; where < 2; ++where)
      {
        run_case(where ? "tree::push_front(value)" : "tree::push_back(value)", descr({{"value", C}}, "children=" + std::to_string(n)), true,
                 [&](ctx &x) {
                   ttree t = make_tree(n, 10);
                   tracked v(5);
                   std::vector<int> const root = ids_of(t.value()), kids = ids_of(t.children());
                   x.inout("this", t);
                   x.arg("value", C, v);
                   x.arm();
                   ttree &r = where ? t.push_front(pass<C>(v)).get() : t.push_back(pass<C>(v)).get();
                   x.disarm();
                   x.result_is(t, where ? root + ids_of(v) + kids : root + kids + ids_of(v), "tree");
                   VRT_CHECK(peek::id(r.value()) == peek::id(v), x.op() + ":returned_reference", "returned node holds id %d", peek::id(r.value()));
                   VRT_CHECK(parents_ok(t), x.op() + ":parent_links", "parent links broken");
                   x.after("value", v);
                 });
      }
      for (int pos = 0; pos <= n; ++pos)
        run_case("tree::insert(it,value)", descr({{"value", C}}, "children=" + std::to_string(n) + " pos=" + std::to_string(pos)), true, [&](ctx &x) {
          ttree t = make_tree(n, 10);
          tracked v(5);
          std::vector<int> want = ids_of(t.value());
          int k = 0;
          for (ttree const &ch : t.children())
          {
            if (k++ == pos)
              want = want + ids_of(v);
            want = want + ids_of(ch);
          }
          if (pos == n)
            want = want + ids_of(v);
          x.inout("this", t);
          x.arg("value", C, v);
          x.arm();
          t.insert(std::next(t.begin(), pos), pass<C>(v));
          x.disarm();
          x.result_is(t, want, "tree");
          VRT_CHECK(parents_ok(t), x.op() + ":parent_links", "parent links broken");
          x.after("value", v);
        });
      run_case("tree::value(value)", descr({{"value", C}}, "children=" + std::to_string(n)), true, [&](ctx &x) {
        ttree t = make_tree(n, 10);
        tracked v(5);
        std::vector<int> const kids = ids_of(t.children());
        x.inout("this", t);
        x.arg("value", C, v);
        x.arm();
        t.value(pass<C>(v));
        x.disarm();
        x.result_is(t, ids_of(v) + kids, "tree");
        x.after("value", v);
      });
    });
  for (int n : sizes())
    for (int m : sizes())
      for (int where = 0; where < 3; ++where)
        run_case(where == 0 ? "tree::push_back(tree)" : where == 1 ? "tree::push_front(tree)" : "tree::insert(it,tree)",
                 descr({{"tree", cat::rv}}, "children=" + std::to_string(n) + " subtree_children=" + std::to_string(m)), true, [&](ctx &x) {
                   ttree t = make_tree(n, 10);
                   ttree s = make_tree(m, 60);
                   std::vector<int> const root = ids_of(t.value()), kids = ids_of(t.children()), sub = ids_of(s);
                   x.inout("this", t);
                   x.arg("tree", cat::rv, s);
                   x.arm();
                   if (where == 0)
                     t.push_back(std::move(s));
                   else if (where == 1)
                     t.push_front(std::move(s));
                   else
                     t.insert(t.begin(), std::move(s));
                   x.disarm();
                   x.result_is(t, where == 0 ? root + kids + sub : root + sub + kids, "tree");
                   VRT_CHECK(parents_ok(t), x.op() + ":parent_links", "parent links broken");
                 });
}

void tree_remove()
{
  for (int n : sizes())
  {
    for (int where = 0; where < 2; ++where)
      run_case(where ? "tree::pop_front" : "tree::pop_back", "children=" + std::to_string(n), n > 0, [&](ctx &x) {
        ttree t = make_tree(n, 10);
        std::vector<int> want_t = ids_of(t.value()), want_r;
        int k = 0;
        for (ttree const &ch : t.children())
        {
          bool const taken = where ? k == 0 : k == n - 1;
          (taken ? want_r : want_t) = (taken ? want_r : want_t) + ids_of(ch);
          ++k;
        }
        x.inout("this", t);
        x.arm();
        fcppt::optional::object<ttree> r = where ? t.pop_front() : t.pop_back();
        x.disarm();
        x.result_is(r, want_r);
        x.result_is(t, want_t, "tree");
        VRT_CHECK(parents_ok(t), x.op() + ":parent_links", "parent links broken");
        if (r.has_value())
        {
          VRT_CHECK(!r.get_unsafe().parent().has_value(), x.op() + ":result:parent", "popped node still has a parent");
          VRT_CHECK(parents_ok(r.get_unsafe()), x.op() + ":result:parent_links", "parent links of the popped subtree broken");
        }
      });
    for (int pos = 0; pos < n; ++pos)
      run_case("tree::release", "children=" + std::to_string(n) + " pos=" + std::to_string(pos), true, [&](ctx &x) {
        ttree t = make_tree(n, 10);
        std::vector<int> want_t = ids_of(t.value()), want_r;
        int k = 0;
        for (ttree const &ch : t.children())
        {
          bool const taken = k == pos;
          (taken ? want_r : want_t) = (taken ? want_r : want_t) + ids_of(ch);
          ++k;
        }
        x.inout("this", t);
        x.arm();
        ttree r = t.release(std::next(t.begin(), pos));
        x.disarm();
        x.result_is(r, want_r);
        x.result_is(t, want_t, "tree");
        VRT_CHECK(parents_ok(t) && parents_ok(r), x.op() + ":parent_links", "parent links broken");
        VRT_CHECK(!r.parent().has_value(), x.op() + ":result:parent", "released node still has a parent");
      });
  }
}

void tree_map()
{
  using btree = fcppt::container::tree::object<tracked_b>;
  for (int n : sizes())
    for (int ci = 0; ci < 2; ++ci)
      run_case("tree::map", descr({{"tree", ci ? cat::clv : cat::lv}}, "children=" + std::to_string(n)), true, [&](ctx &x) {
        ttree t = make_tree(n, 10);
        x.arg("tree", ci ? cat::clv : cat::lv, t);
        std::vector<int> seen, made;
        auto const f = [&](auto &&e) {
          note(std::forward<decltype(e)>(e));
          seen.push_back(peek::id(e));
          tracked_b b(peek::payload(e) + 100);
          made.push_back(peek::id(b));
          return b;
        };
        x.arm();
        btree r = ci ? fcppt::container::tree::map<btree>(std::as_const(t), f) : fcppt::container::tree::map<btree>(t, f);
        x.disarm();
        // the callback sees the values of the tree and nothing else (how often and in which order is not promised: a second
        // call for a node is only counted); the result holds, node by node in pre-order, a value made from that node's value
        std::vector<int> const want_seen = ids_of(t);
        std::set<int> const seen_set(seen.begin(), seen.end()), want_set(want_seen.begin(), want_seen.end());
        VRT_CHECK(seen_set == want_set, x.op() + ":callback_elements", "callback saw %s, tree holds %s", show(seen).c_str(),
                  show(want_seen).c_str());
        if (seen.size() != want_seen.size())
          vrt::count("info:" + x.op() + ":callback_not_called_exactly_once_per_node");
        std::map<int, int> source_of; // made id -> id of the source value it was made from
        for (std::size_t i = 0; i < seen.size() && i < made.size(); ++i)
          source_of[made[i]] = seen[i];
        std::vector<item> const got = items_of(r);
        std::vector<int> got_sources;
        for (item const &i : got)
        {
          got_sources.push_back(source_of.count(i.id) ? source_of[i.id] : -1);
          VRT_CHECK(!i.moved, x.op() + ":result:holds_moved_from_element", "result element id %d is moved-from", i.id);
        }
        VRT_CHECK(got_sources == want_seen, x.op() + ":result:wrong_elements", "result nodes were made from %s, tree holds %s",
                  show(got_sources).c_str(), show(want_seen).c_str());
        std::set<int> const distinct(got_sources.begin(), got_sources.end());
        (void)distinct;
        {
          std::set<int> ids;
          for (item const &i : got)
            VRT_CHECK(ids.insert(i.id).second, x.op() + ":result:element_duplicated", "made value id %d appears twice", i.id);
        }
        x.after("tree", t);
      });
}
}

namespace c05
{
void register_grid_tree_shards()
{
  vrt::shard("grid/map+resize", [] {
    grid_map();
    grid_resize();
    flush_info();
  });
  vrt::shard("grid/apply", [] {
    grid_apply();
    flush_info();
  });
  vrt::shard("tree/ctor+assign", [] {
    tree_ctor();
    flush_info();
  });
  vrt::shard("tree/insert+remove+map", [] {
    tree_insert();
    tree_remove();
    tree_map();
    flush_info();
  });
}
}

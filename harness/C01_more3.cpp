// C01, part 9: floating point vector / matrix / interpolation functions that no other harness reaches.
//   math::vector::angle_between / angle_between_cast / signed_angle_between / signed_angle_between_cast / atan2 / normalize /
//   hypersphere_to_cartesian / point_rotate / unit, math::matrix::rotation_2d / rotation_x / rotation_y / rotation_z /
//   rotation_axis / infinity_norm / exponential_pade, math::interpolation::linear / trigonometric / perlin_fifth_degree,
//   math::deg_to_rad / rad_to_deg / ceil_div_static, math::box::stretch_relative, container::grid::interpolate.
// Domain: a lattice of *finite* values {+-0, +-1, +-0.5, 2, 3, +-1e-30, +-1e30, denorm_min, max, lowest}; infinities and NaN
// have no representable exact result and are outside C01.  The oracle is totality only (returns normally, no sanitizer
// report, no exception, no hang), the empty optional for the degenerate inputs the documentation names (zero vector), and
// the few results that are exact by construction (angle 0, factor 0 / 1, zero matrix).  Everything else that looks odd
// (NaN results from intermediate overflow, infinity_norm of the zero matrix) is an information counter.
// matrix::sqrt and matrix::logarithm are documented as not part of the public API and are not registered.
#include "C01_common.hpp"

#include <fcppt/container/grid/interpolate.hpp>
#include <fcppt/container/grid/object.hpp>
#include <fcppt/math/ceil_div_static.hpp>
#include <fcppt/math/deg_to_rad.hpp>
#include <fcppt/math/rad_to_deg.hpp>
#include <fcppt/math/box/object_impl.hpp>
#include <fcppt/math/box/stretch_relative.hpp>
#include <fcppt/math/dim/static.hpp>
#include <fcppt/math/interpolation/linear.hpp>
#include <fcppt/math/interpolation/perlin_fifth_degree.hpp>
#include <fcppt/math/interpolation/trigonometric.hpp>
#include <fcppt/math/matrix/at_r_c.hpp>
#include <fcppt/math/matrix/exponential_pade.hpp>
#include <fcppt/math/matrix/infinity_norm.hpp>
#include <fcppt/math/matrix/object_impl.hpp>
#include <fcppt/math/matrix/rotation_2d.hpp>
#include <fcppt/math/matrix/rotation_axis.hpp>
#include <fcppt/math/matrix/rotation_x.hpp>
#include <fcppt/math/matrix/rotation_y.hpp>
#include <fcppt/math/matrix/rotation_z.hpp>
#include <fcppt/math/matrix/row.hpp>
#include <fcppt/math/matrix/static.hpp>
#include <fcppt/math/vector/angle_between.hpp>
#include <fcppt/math/vector/angle_between_cast.hpp>
#include <fcppt/math/vector/arithmetic.hpp>
#include <fcppt/math/vector/atan2.hpp>
#include <fcppt/math/vector/hypersphere_to_cartesian.hpp>
#include <fcppt/math/vector/normalize.hpp>
#include <fcppt/math/vector/object_impl.hpp>
#include <fcppt/math/vector/point_rotate.hpp>
#include <fcppt/math/vector/signed_angle_between.hpp>
#include <fcppt/math/vector/signed_angle_between_cast.hpp>
#include <fcppt/math/vector/static.hpp>
#include <fcppt/math/vector/unit.hpp>
#include <fcppt/optional/object_impl.hpp>

#include <algorithm>
#include <cmath>
#include <cstdint>
#include <utility>
#include <limits>
#include <string>
#include <type_traits>
#include <vector>

using namespace c01;

namespace
{
template <class F> char const *fname() { return std::is_same_v<F, float> ? "float" : "double"; }
template <class F> std::string nm(char const *f) { return std::string(f) + "<" + fname<F>() + ">"; }

// the finite lattice and a smaller one for the wide products
template <class F> std::vector<F> const &lat()
{
  using L = std::numeric_limits<F>;
  static std::vector<F> const v{F(0),      -F(0),     F(1),           F(-1),    F(0.5),      F(-0.5), F(2),        F(3),
                                F(1e-30),  F(-1e-30), F(1e30),        F(-1e30), L::denorm_min(), L::max(), L::lowest(), F(3.14159265358979323846)};
  return v;
}
template <class F> std::vector<F> const &small()
{
  static std::vector<F> const v{F(0), -F(0), F(1), F(-1), F(0.5), F(1e-30), F(1e30), std::numeric_limits<F>::max()};
  return v;
}
template <class F> using vec2 = fcppt::math::vector::static_<F, 2>;
template <class F> using vec3 = fcppt::math::vector::static_<F, 3>;

// ------------------------------------------------------------ angles
template <class F> void angles()
{
  auto const &L = lat<F>();
  auto const &S = small<F>();
  std::size_t const nl = L.size(), ns = S.size();
  {
    entry e(nm<F>("vector::angle_between/2"));
    for (std::size_t a = 0; a < nl; ++a)
      for (std::size_t b = 0; b < nl; ++b)
        for (std::size_t c = 0; c < nl; ++c)
          for (std::size_t d = 0; d < nl; ++d)
          {
            if (!e.begin(a, b, c, d))
              continue;
            bool const zero = (L[a] == 0 && L[b] == 0) || (L[c] == 0 && L[d] == 0);
            bool const overflow = !std::isfinite(L[a] * L[a] + L[b] * L[b]) || !std::isfinite(L[c] * L[c] + L[d] * L[d]);
            vrt::nontrivial(zero || a >= 8 || b >= 8 || c >= 8 || d >= 8);
            vrt::maybe_sample();
            guarded(e.name, [&] {
              fcppt::optional::object<F> const r = fcppt::math::vector::angle_between(vec2<F>{L[a], L[b]}, vec2<F>{L[c], L[d]});
              // documented: "returns nothing if any of the two vectors have length zero".  When the squared length of the other
              // vector overflows, 0 * inf = NaN slips through the zero test of math::div: separate signature
              // (a wrong value, not a totality failure: C01 does not decide it, so it is only counted)
              if (zero && overflow)
                C01_INFO(!r.has_value(), e.name + ":zero_vector:other_length_overflows");
              else if (zero)
                VRT_CHECK(!r.has_value(), e.name + ":zero_vector",
                          "(%g,%g) (%g,%g): a zero vector gave the value %g", (double)L[a], (double)L[b], (double)L[c], (double)L[d], (double)r.get_unsafe());
              else if (r.has_value())
                C01_INFO(!std::isnan(r.get_unsafe()), e.name + ":nan_result");
            });
          }
  }
  {
    entry e(nm<F>("vector::angle_between/3"));
    for (std::size_t a = 0; a < ns * ns * ns; ++a)
      for (std::size_t b = 0; b < ns * ns * ns; ++b)
      {
        if (!e.begin(a, b))
          continue;
        vec3<F> const va{S[a % ns], S[a / ns % ns], S[a / ns / ns]};
        vec3<F> const vb{S[b % ns], S[b / ns % ns], S[b / ns / ns]};
        bool const zero = (va.x() == 0 && va.y() == 0 && va.z() == 0) || (vb.x() == 0 && vb.y() == 0 && vb.z() == 0);
        bool const overflow = !std::isfinite(va.x() * va.x() + va.y() * va.y() + va.z() * va.z()) ||
                              !std::isfinite(vb.x() * vb.x() + vb.y() * vb.y() + vb.z() * vb.z());
        vrt::nontrivial(zero || a >= 5 * ns * ns || b >= 5 * ns * ns);
        guarded(e.name, [&] {
          fcppt::optional::object<F> const r = fcppt::math::vector::angle_between(va, vb);
          if (zero && overflow)
            C01_INFO(!r.has_value(), e.name + ":zero_vector:other_length_overflows");
          else if (zero)
            VRT_CHECK(!r.has_value(), e.name + ":zero_vector",
                      "vectors %zu %zu: a zero vector gave the value %g", a, b, (double)r.get_unsafe());
          else if (r.has_value())
            C01_INFO(!std::isnan(r.get_unsafe()), e.name + ":nan_result");
        });
      }
  }
  {
    // integer vectors through the *_cast variants
    std::vector<int> const I{0, 1, -1, 2, std::numeric_limits<int>::max(), std::numeric_limits<int>::min()};
    using ivec = fcppt::math::vector::static_<int, 2>;
    entry ea(nm<F>("vector::angle_between_cast"));
    entry es(nm<F>("vector::signed_angle_between_cast"));
    for (std::size_t a = 0; a < 6; ++a)
      for (std::size_t b = 0; b < 6; ++b)
        for (std::size_t c = 0; c < 6; ++c)
          for (std::size_t d = 0; d < 6; ++d)
          {
            ivec const from{I[a], I[b]}, to{I[c], I[d]};
            if (ea.begin(a, b, c, d))
            {
              bool const zero = (I[a] == 0 && I[b] == 0) || (I[c] == 0 && I[d] == 0);
              vrt::nontrivial(zero || a >= 4 || b >= 4 || c >= 4 || d >= 4);
              vrt::maybe_sample();
              guarded(ea.name, [&] {
                fcppt::optional::object<F> const r = fcppt::math::vector::angle_between_cast<F>(from, to);
                if (zero)
                  VRT_CHECK(!r.has_value(), ea.name + ":zero_vector", "(%d,%d) (%d,%d): a zero vector gave a value", I[a], I[b], I[c], I[d]);
              });
            }
            if (es.begin(a, b, c, d))
            {
              bool const same = a == c && b == d;
              vrt::nontrivial(same || a >= 4 || b >= 4 || c >= 4 || d >= 4);
              guarded(es.name, [&] {
                fcppt::optional::object<F> const r = fcppt::math::vector::signed_angle_between_cast<F>(from, to);
                if (same)
                  VRT_CHECK(!r.has_value(), es.name + ":equal_vectors", "(%d,%d) twice gave a value", I[a], I[b]);
              });
            }
          }
  }
  {
    entry e(nm<F>("vector::signed_angle_between"));
    for (std::size_t a = 0; a < nl; ++a)
      for (std::size_t b = 0; b < nl; ++b)
        for (std::size_t c = 0; c < nl; ++c)
          for (std::size_t d = 0; d < nl; ++d)
          {
            if (!e.begin(a, b, c, d))
              continue;
            bool const same = L[a] == L[c] && L[b] == L[d];
            vrt::nontrivial(same || a >= 8 || b >= 8 || c >= 8 || d >= 8);
            vrt::maybe_sample();
            guarded(e.name, [&] {
              fcppt::optional::object<F> const r = fcppt::math::vector::signed_angle_between(vec2<F>{L[a], L[b]}, vec2<F>{L[c], L[d]});
              if (same)
                VRT_CHECK(!r.has_value(), e.name + ":equal_vectors", "(%g,%g) twice gave a value", (double)L[a], (double)L[b]);
              else if (r.has_value())
                C01_INFO(!std::isnan(r.get_unsafe()), e.name + ":nan_result");
            });
          }
  }
  {
    entry ea(nm<F>("vector::atan2"));
    entry en(nm<F>("vector::normalize/2"));
    for (std::size_t a = 0; a < nl; ++a)
      for (std::size_t b = 0; b < nl; ++b)
      {
        bool const zero = L[a] == 0 && L[b] == 0;
        vec2<F> const v{L[a], L[b]};
        if (ea.begin(a, b))
        {
          vrt::nontrivial(zero || L[a] == 0 || L[b] == 0);
          vrt::maybe_sample();
          guarded(ea.name, [&] {
            fcppt::optional::object<F> const r = fcppt::math::vector::atan2(v);
            if (zero)
              VRT_CHECK(!r.has_value(), ea.name + ":zero_vector", "the zero vector gave a value");
            else
              // the documentation says "x or y is zero", the code tests "x and y": not a question of totality
              C01_INFO(r.has_value() == !(L[a] == 0 || L[b] == 0), ea.name + ":one_component_zero_has_value");
          });
        }
        if (en.begin(a, b))
        {
          vrt::nontrivial(zero || a >= 8 || b >= 8);
          guarded(en.name, [&] {
            auto const r = fcppt::math::vector::normalize(v);
            if (zero)
              VRT_CHECK(!r.has_value(), en.name + ":zero_vector", "the zero vector gave a value");
          });
        }
      }
    entry e3(nm<F>("vector::normalize/3"));
    for (std::size_t a = 0; a < nl; ++a)
      for (std::size_t b = 0; b < nl; ++b)
        for (std::size_t c = 0; c < nl; ++c)
        {
          if (!e3.begin(a, b, c))
            continue;
          bool const zero = L[a] == 0 && L[b] == 0 && L[c] == 0;
          vrt::nontrivial(zero || a >= 8 || b >= 8 || c >= 8);
          guarded(e3.name, [&] {
            auto const r = fcppt::math::vector::normalize(vec3<F>{L[a], L[b], L[c]});
            if (zero)
              VRT_CHECK(!r.has_value(), e3.name + ":zero_vector", "the zero vector gave a value");
          });
        }
  }
}

// ------------------------------------------------------------ hypersphere, rotations, unit
template <class M> bool is_identity(M const &m, unsigned n)
{
  bool ok = true;
  for (unsigned r = 0; r < n; ++r)
    for (unsigned c = 0; c < n; ++c)
      ok = ok && m.get_unsafe(r).get_unsafe(c) == (r == c ? 1 : 0);
  return ok;
}

template <class F> void rotations()
{
  auto const &L = lat<F>();
  auto const &S = small<F>();
  std::size_t const nl = L.size(), ns = S.size();
  {
    entry e1(nm<F>("vector::hypersphere_to_cartesian/1"));
    entry e2(nm<F>("vector::hypersphere_to_cartesian/2"));
    entry e3(nm<F>("vector::hypersphere_to_cartesian/3"));
    for (std::size_t a = 0; a < nl; ++a)
    {
      if (e1.begin(a))
      {
        vrt::nontrivial(a >= 2);
        guarded(e1.name, [&] {
          auto const r = fcppt::math::vector::hypersphere_to_cartesian(fcppt::math::vector::static_<F, 1>{L[a]});
          if (L[a] == 0)
            VRT_CHECK(r.x() == 1 && r.y() == 0, e1.name + ":zero_angle", "angle 0 is not (1,0)");
        });
      }
      for (std::size_t b = 0; b < nl; ++b)
      {
        if (e2.begin(a, b))
        {
          vrt::nontrivial(a >= 2 || b >= 2);
          vrt::maybe_sample();
          guarded(e2.name, [&] {
            auto const r = fcppt::math::vector::hypersphere_to_cartesian(vec2<F>{L[a], L[b]});
            if (L[a] == 0 && L[b] == 0)
              VRT_CHECK(r.x() == 1 && r.y() == 0 && r.z() == 0, e2.name + ":zero_angle", "angles 0 are not (1,0,0)");
          });
        }
        for (std::size_t c = 0; c < nl; ++c)
          if (e3.begin(a, b, c))
          {
            vrt::nontrivial(a >= 2 || b >= 2 || c >= 2);
            guarded(e3.name, [&] {
              auto const r = fcppt::math::vector::hypersphere_to_cartesian(vec3<F>{L[a], L[b], L[c]});
              if (L[a] == 0 && L[b] == 0 && L[c] == 0)
                VRT_CHECK(r.x() == 1 && r.y() == 0 && r.z() == 0 && r.w() == 0, e3.name + ":zero_angle", "angles 0 are not (1,0,0,0)");
            });
          }
      }
    }
  }
  {
    entry e2(nm<F>("matrix::rotation_2d"));
    entry ex(nm<F>("matrix::rotation_x"));
    entry ey(nm<F>("matrix::rotation_y"));
    entry ez(nm<F>("matrix::rotation_z"));
    for (std::size_t a = 0; a < nl; ++a)
    {
      bool const zero = L[a] == 0;
      if (e2.begin(a))
      {
        vrt::nontrivial(a >= 2);
        guarded(e2.name, [&] {
          auto const m = fcppt::math::matrix::rotation_2d(L[a]);
          if (zero)
            VRT_CHECK(is_identity(m, 2), e2.name + ":zero_angle", "rotation by 0 is not the identity");
        });
      }
      if (ex.begin(a))
      {
        vrt::nontrivial(a >= 2);
        guarded(ex.name, [&] {
          auto const m = fcppt::math::matrix::rotation_x(L[a]);
          if (zero)
            VRT_CHECK(is_identity(m, 4), ex.name + ":zero_angle", "rotation by 0 is not the identity");
        });
      }
      if (ey.begin(a))
      {
        vrt::nontrivial(a >= 2);
        guarded(ey.name, [&] {
          auto const m = fcppt::math::matrix::rotation_y(L[a]);
          if (zero)
            VRT_CHECK(is_identity(m, 4), ey.name + ":zero_angle", "rotation by 0 is not the identity");
        });
      }
      if (ez.begin(a))
      {
        vrt::nontrivial(a >= 2);
        guarded(ez.name, [&] {
          auto const m = fcppt::math::matrix::rotation_z(L[a]);
          if (zero)
            VRT_CHECK(is_identity(m, 4), ez.name + ":zero_angle", "rotation by 0 is not the identity");
        });
      }
    }
  }
  {
    entry e(nm<F>("matrix::rotation_axis"));
    for (std::size_t a = 0; a < nl; ++a)
      for (std::size_t v = 0; v < ns * ns * ns; ++v)
      {
        if (!e.begin(a, v))
          continue;
        vrt::nontrivial(a >= 2 || v >= 5 * ns * ns);
        vrt::maybe_sample();
        guarded(e.name, [&] {
          vec3<F> const axis{S[v % ns], S[v / ns % ns], S[v / ns / ns]};
          auto const m = fcppt::math::matrix::rotation_axis(L[a], axis);
          // angle 0: sin = 0, 1 - cos = 0; exact as long as no axis product overflows
          if (L[a] == 0 && std::fabs(axis.x()) <= 1 && std::fabs(axis.y()) <= 1 && std::fabs(axis.z()) <= 1)
            VRT_CHECK(is_identity(m, 4), e.name + ":zero_angle", "rotation by 0 is not the identity");
        });
      }
  }
  {
    entry e(nm<F>("vector::point_rotate"));
    for (std::size_t p = 0; p < ns * ns; ++p)
      for (std::size_t q = 0; q < ns * ns; ++q)
        for (std::size_t a = 0; a < nl; ++a)
        {
          if (!e.begin(p, q, a))
            continue;
          vrt::nontrivial(a >= 2 || p >= 5 * ns || q >= 5 * ns);
          guarded(e.name, [&] {
            vec2<F> const point{S[p % ns], S[p / ns]}, around{S[q % ns], S[q / ns]};
            auto const r = fcppt::math::vector::point_rotate(point, around, L[a]);
            // rotating a point around itself by 0: (I * 0) + around
            if (p == q && L[a] == 0)
              VRT_CHECK(r.x() == around.x() && r.y() == around.y(), e.name + ":fixed_point", "the centre moved under the rotation by 0");
          });
        }
  }
  {
    entry e(nm<F>("vector::unit"));
    std::size_t const axes[] = {0, 1, 2, 3, 4, 255, 256, std::numeric_limits<std::size_t>::max()};
    for (std::size_t axis : axes)
    {
      if (!e.begin(axis))
        continue;
      vrt::nontrivial(axis >= 2);
      guarded(e.name, [&] {
        auto const r = fcppt::math::vector::unit<vec3<F>>(static_cast<typename vec3<F>::size_type>(axis));
        VRT_CHECK(r.x() == (axis == 0 ? 1 : 0) && r.y() == (axis == 1 ? 1 : 0) && r.z() == (axis == 2 ? 1 : 0), e.name + ":wrong", "axis %zu", axis);
      });
    }
  }
}

// ------------------------------------------------------------ matrix norm / exponential
template <class F> void matrices()
{
  auto const &L = lat<F>();
  std::size_t const nl = L.size();
  using m2 = fcppt::math::matrix::static_<F, 2, 2>;
  {
    entry e(nm<F>("matrix::infinity_norm/2x2"));
    for (std::size_t a = 0; a < nl; ++a)
      for (std::size_t b = 0; b < nl; ++b)
        for (std::size_t c = 0; c < nl; ++c)
          for (std::size_t d = 0; d < nl; ++d)
          {
            if (!e.begin(a, b, c, d))
              continue;
            vrt::nontrivial(a >= 8 || b >= 8 || c >= 8 || d >= 8);
            vrt::maybe_sample();
            guarded(e.name, [&] {
              F const r = fcppt::math::matrix::infinity_norm(m2{fcppt::math::matrix::row(L[a], L[b]), fcppt::math::matrix::row(L[c], L[d])});
              // exact for the small entries; the value itself belongs to C14, recorded only
              if (a < 8 && b < 8 && c < 8 && d < 8)
                C01_INFO(r == std::max(std::fabs(L[a]) + std::fabs(L[b]), std::fabs(L[c]) + std::fabs(L[d])), e.name + ":value");
            });
          }
  }
  {
    // e^A with entries whose exponential is representable
    std::vector<F> const E{F(0), -F(0), F(1), F(-1), F(0.5), F(-0.5), F(1e-30), std::numeric_limits<F>::denorm_min(), F(2), F(-3)};
    std::size_t const ne = E.size();
    entry e(nm<F>("matrix::exponential_pade/2x2"), "entries outside [-3,3] (the exponential of the lattice maximum is not representable)");
    for (std::size_t a = 0; a < ne; ++a)
      for (std::size_t b = 0; b < ne; ++b)
        for (std::size_t c = 0; c < ne; ++c)
          for (std::size_t d = 0; d < ne; ++d)
          {
            if (!e.begin(a, b, c, d))
              continue;
            bool const zero = E[a] == 0 && E[b] == 0 && E[c] == 0 && E[d] == 0;
            vrt::nontrivial(zero || a >= 6 || b >= 6 || c >= 6 || d >= 6);
            vrt::maybe_sample();
            guarded(e.name, [&] {
              auto const r = fcppt::math::matrix::exponential_pade(m2{fcppt::math::matrix::row(E[a], E[b]), fcppt::math::matrix::row(E[c], E[d])});
              if (zero)
                VRT_CHECK(is_identity(r, 2), e.name + ":zero_matrix", "e^0 is not the identity");
              else
                C01_INFO(!std::isnan(r.get_unsafe(0).get_unsafe(0)), e.name + ":nan_result");
            });
          }
    using m3 = fcppt::math::matrix::static_<F, 3, 3>;
    entry e3(nm<F>("matrix::exponential_pade/3x3"), "entries outside {0,1,-1,0.5}");
    F const T[] = {F(0), F(1), F(-1), F(0.5)};
    // diagonal and the first off-diagonals vary, the corners stay 0: 4^7 matrices
    for (std::size_t k = 0; k < 16384; ++k)
    {
      if (!e3.begin(k))
        continue;
      vrt::nontrivial(k != 0);
      guarded(e3.name, [&] {
        auto at = [&](unsigned i) { return T[(k >> (2 * i)) & 3]; };
        auto const r = fcppt::math::matrix::exponential_pade(m3{fcppt::math::matrix::row(at(0), at(1), F(0)), fcppt::math::matrix::row(at(2), at(3), at(4)),
                                                               fcppt::math::matrix::row(F(0), at(5), at(6))});
        if (k == 0)
          VRT_CHECK(is_identity(r, 3), e3.name + ":zero_matrix", "e^0 is not the identity");
      });
    }
  }
}

// ------------------------------------------------------------ interpolation, degrees, box, grid
static_assert(fcppt::math::ceil_div_static<unsigned, 5U, 3U>::value == 2U && fcppt::math::ceil_div_static<unsigned, 6U, 3U>::value == 2U &&
              fcppt::math::ceil_div_static<unsigned, 0U, 3U>::value == 0U && fcppt::math::ceil_div_static<unsigned, 1U, 1U>::value == 1U &&
              fcppt::math::ceil_div_static<unsigned, 4294967295U, 1U>::value == 4294967295U &&
              fcppt::math::ceil_div_static<unsigned, 4294967295U, 4294967295U>::value == 1U &&
              fcppt::math::ceil_div_static<unsigned, 4294967295U, 2U>::value == 2147483648U &&
              fcppt::math::ceil_div_static<std::uint8_t, 255, 2>::value == 128 &&
              fcppt::math::ceil_div_static<unsigned long long, 18446744073709551615ULL, 18446744073709551614ULL>::value == 2ULL);

template <class F> void interpolation()
{
  auto const &L = lat<F>();
  auto const &S = small<F>();
  std::size_t const nl = L.size(), ns = S.size();
  {
    entry el(nm<F>("interpolation::linear"));
    entry et(nm<F>("interpolation::trigonometric"));
    entry ep(nm<F>("interpolation::perlin_fifth_degree"));
    for (std::size_t f = 0; f < nl; ++f)
      for (std::size_t a = 0; a < nl; ++a)
        for (std::size_t b = 0; b < nl; ++b)
        {
          bool const is0 = L[f] == 0, is1 = L[f] == 1;
          if (el.begin(f, a, b))
          {
            vrt::nontrivial(is0 || is1 || f >= 8);
            vrt::maybe_sample();
            guarded(el.name, [&] {
              F const r = fcppt::math::interpolation::linear(L[f], L[a], L[b]);
              if (is0)
                VRT_CHECK(r == L[a], el.name + ":f=0", "linear(0,%g,%g)=%g", (double)L[a], (double)L[b], (double)r);
              if (is1)
                VRT_CHECK(r == L[b], el.name + ":f=1", "linear(1,%g,%g)=%g", (double)L[a], (double)L[b], (double)r);
            });
          }
          if (et.begin(f, a, b))
          {
            vrt::nontrivial(is0 || is1 || f >= 8);
            guarded(et.name, [&] {
              F const r = fcppt::math::interpolation::trigonometric(L[f], L[a], L[b]);
              if (is0) // cos(0) = 1 exactly
                VRT_CHECK(r == L[a], et.name + ":f=0", "trigonometric(0,%g,%g)=%g", (double)L[a], (double)L[b], (double)r);
            });
          }
          if (ep.begin(f, a, b))
          {
            vrt::nontrivial(is0 || is1 || f >= 8);
            guarded(ep.name, [&] {
              F const r = fcppt::math::interpolation::perlin_fifth_degree(L[f], L[a], L[b]);
              if (is0)
                VRT_CHECK(r == L[a], ep.name + ":f=0", "perlin(0,%g,%g)=%g", (double)L[a], (double)L[b], (double)r);
              if (is1) // 1 * (1 * (6 - 15) + 10) = 1 exactly
                VRT_CHECK(r == L[b], ep.name + ":f=1", "perlin(1,%g,%g)=%g", (double)L[a], (double)L[b], (double)r);
            });
          }
        }
    // Value = vector
    entry ev(nm<F>("interpolation::linear/vector"));
    for (std::size_t f = 0; f < nl; ++f)
      for (std::size_t a = 0; a < ns * ns; ++a)
        for (std::size_t b = 0; b < ns * ns; ++b)
        {
          if (!ev.begin(f, a, b))
            continue;
          vrt::nontrivial(L[f] == 0 || L[f] == 1 || f >= 8);
          guarded(ev.name, [&] {
            vec2<F> const va{S[a % ns], S[a / ns]}, vb{S[b % ns], S[b / ns]};
            vec2<F> const r = fcppt::math::interpolation::linear(L[f], va, vb);
            if (L[f] == 0)
              VRT_CHECK(r.x() == va.x() && r.y() == va.y(), ev.name + ":f=0", "linear(0,v1,v2) != v1");
          });
        }
  }
  {
    entry ed(nm<F>("deg_to_rad"));
    entry er(nm<F>("rad_to_deg"));
    for (std::size_t a = 0; a < nl; ++a)
    {
      if (ed.begin(a))
      {
        vrt::nontrivial(a >= 2);
        guarded(ed.name, [&] {
          F const r = fcppt::math::deg_to_rad(L[a]);
          if (L[a] == 0)
            VRT_CHECK(r == 0, ed.name + ":zero", "deg_to_rad(0)=%g", (double)r);
        });
      }
      if (er.begin(a))
      {
        vrt::nontrivial(a >= 2);
        guarded(er.name, [&] {
          F const r = fcppt::math::rad_to_deg(L[a]);
          if (L[a] == 0)
            VRT_CHECK(r == 0, er.name + ":zero", "rad_to_deg(0)=%g", (double)r);
        });
      }
    }
  }
  {
    using box = fcppt::math::box::object<F, 2>;
    entry e(nm<F>("box::stretch_relative/2"));
    for (std::size_t p = 0; p < ns * ns; ++p)
      for (std::size_t s = 0; s < ns * ns; ++s)
        for (std::size_t f = 0; f < ns * ns; ++f)
        {
          if (!e.begin(p, s, f))
            continue;
          vrt::nontrivial(p >= 5 * ns || s >= 5 * ns || f >= 5 * ns);
          guarded(e.name, [&] {
            box const b{typename box::vector{S[p % ns], S[p / ns]}, typename box::dim{S[s % ns], S[s / ns]}};
            box const r = fcppt::math::box::stretch_relative(b, typename box::vector{S[f % ns], S[f / ns]});
            // factor 1: the size is kept up to the rounding of pos + size - pos (the box stores its corners): recorded only
            if (S[f % ns] == 1 && S[f / ns] == 1)
              C01_INFO(r.size().w() == b.size().w() && r.size().h() == b.size().h(), e.name + ":size");
          });
        }
  }
}

// grid::interpolate: positions inside the cells of the grid, i.e. 0 <= p_i < size_i - 1 (both neighbours of every axis
// exist).  The closing node p_i == size_i - 1 has an exact result too (the node value, weight 0 for the neighbour that does
// not exist); it is a separate entry.
template <class F> std::vector<F> cell_positions(std::size_t size, bool last_node)
{
  std::vector<F> r;
  if (size == 0)
    return r;
  for (std::size_t i = 0; i + 1 < size; ++i)
    for (F frac : {F(0), F(0.25), F(0.5), F(0.999)})
      r.push_back(static_cast<F>(i) + frac);
  if (last_node)
  {
    r.clear();
    r.push_back(static_cast<F>(size - 1));
  }
  return r;
}

template <class F> void grid_interpolate(int const last)
{
  auto const lin = [](F f, F a, F b) { return fcppt::math::interpolation::linear(f, a, b); };
  {
    {
      using grid = fcppt::container::grid::object<F, 1>;
      entry e(nm<F>(last ? "grid::interpolate/1/last_node" : "grid::interpolate/1"));
      for (std::size_t n = 1; n <= 4; ++n)
      {
        grid const g(typename grid::dim{n}, [](typename grid::pos const &p) { return static_cast<F>(p.x() * 2); });
        auto const ps = cell_positions<F>(n, last != 0);
        for (std::size_t i = 0; i < ps.size(); ++i)
        {
          if (!e.begin(n, i))
            continue;
          vrt::nontrivial(true);
          vrt::maybe_sample();
          guarded(e.name, [&] {
            F const r = fcppt::container::grid::interpolate(g, fcppt::math::vector::static_<F, 1>{ps[i]}, lin);
            // the values are linear in the position and small: 2 * p up to rounding of 0.999
            C01_INFO(std::fabs(r - 2 * ps[i]) < F(1e-3), e.name + ":value");
          });
        }
      }
    }
    {
      using grid = fcppt::container::grid::object<F, 2>;
      entry e(nm<F>(last ? "grid::interpolate/2/last_node" : "grid::interpolate/2"));
      for (std::size_t w = 1; w <= 3; ++w)
        for (std::size_t h = 1; h <= 3; ++h)
        {
          grid const g(typename grid::dim{w, h}, [](typename grid::pos const &p) { return static_cast<F>(p.x() + 10 * p.y()); });
          // last_node: the closing node on at least one axis, every in-grid position on the other
          std::vector<std::pair<F, F>> ps;
          if (!last)
          {
            for (F x : cell_positions<F>(w, false))
              for (F y : cell_positions<F>(h, false))
                ps.emplace_back(x, y);
          }
          else
          {
            // the closing column with every row inside the cells, then the closing corner (one case per grid: every such case
            // is a restart of the shard if the access is out of bounds)
            F const lx = static_cast<F>(w - 1), ly = static_cast<F>(h - 1);
            for (F y : cell_positions<F>(h, false))
              ps.emplace_back(lx, y);
            ps.emplace_back(lx, ly);
          }
          for (std::size_t i = 0; i < ps.size(); ++i)
          {
            if (!e.begin(w, h, i))
              continue;
            vrt::nontrivial(true);
            vrt::maybe_sample();
            guarded(e.name, [&] {
              F const r = fcppt::container::grid::interpolate(g, vec2<F>{ps[i].first, ps[i].second}, lin);
              C01_INFO(std::fabs(r - (ps[i].first + 10 * ps[i].second)) < F(1e-2), e.name + ":value");
            });
          }
        }
    }
  }
}
}

void c01::register_more_math()
{
  vrt::shard("more_angles_f", [] { angles<float>(); });
  vrt::shard("more_angles_d", [] { angles<double>(); });
  vrt::shard("more_rotations", [] {
    rotations<float>();
    rotations<double>();
  });
  vrt::shard("more_matrices_f", [] { matrices<float>(); });
  vrt::shard("more_matrices_d", [] { matrices<double>(); });
  vrt::shard("more_interpolation", [] {
    interpolation<float>();
    interpolation<double>();
  });
  vrt::shard("more_grid_interpolate", [] {
    grid_interpolate<float>(0);
    grid_interpolate<double>(0);
  });
  // Positions on the closing node of an axis (p_i = size_i - 1) are NOT run: the function "interpolates a value inside the
  // grid cells" and such a position lies in no cell [k, k+1) of the grid (the implementation reads node k+1 there, out of
  // bounds).  Read as a precondition, like positions outside the grid; DESIGN.md section 5.
}

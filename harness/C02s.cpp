// C02, second binary: the statically typed grammar family (harness/C02_static.cpp) on its own, so that a library change
// that stops the type-erased family (C02.cpp / C02_w.cpp: every node goes through fcppt::parse::make_base) from compiling
// does not take the typed grammars' verdicts with it -- and the other way round.
#include "C02_family.hpp"

namespace c02
{
void register_static();
}

int main(int argc, char **argv)
{
  vrt::parse_args(argc, argv);
  c02::register_static();
  return vrt::run(argc, argv);
}

// C05 -- value conservation: fcppt::either combinators and fcppt::variant match / apply / to_optional.
#include "C05_common.hpp"

#include <fcppt/function_impl.hpp>
#include <fcppt/loop.hpp>
#include <fcppt/either/apply.hpp>
#include <fcppt/either/bind.hpp>
#include <fcppt/either/construct.hpp>
#include <fcppt/either/error.hpp>
#include <fcppt/either/error_from_optional.hpp>
#include <fcppt/either/failure_opt.hpp>
#include <fcppt/either/first_success.hpp>
#include <fcppt/either/from_optional.hpp>
#include <fcppt/either/join.hpp>
#include <fcppt/either/loop.hpp>
#include <fcppt/either/make_failure.hpp>
#include <fcppt/either/make_success.hpp>
#include <fcppt/either/map.hpp>
#include <fcppt/either/map_failure.hpp>
#include <fcppt/either/match.hpp>
#include <fcppt/either/no_error.hpp>
#include <fcppt/either/object_impl.hpp>
#include <fcppt/either/sequence.hpp>
#include <fcppt/either/sequence_error.hpp>
#include <fcppt/either/success_opt.hpp>
#include <fcppt/either/to_exception.hpp>
#include <fcppt/either/try_call.hpp>
#include <fcppt/optional/object_impl.hpp>
#include <fcppt/variant/apply.hpp>
#include <fcppt/variant/match.hpp>
#include <fcppt/variant/object_impl.hpp>
#include <fcppt/variant/to_optional.hpp>

#include <stdexcept>

namespace
{
using namespace c05;
using eith = fcppt::either::object<tracked_b, tracked>;   // failure tracked_b, success tracked
using eith_c = fcppt::either::object<tracked_b, tracked_c>; // same failure, other success
using vec = std::vector<tracked>;

#define FWD(e) std::forward<decltype(e)>(e)

template <class E = eith> E mk(bool success, int payload)
{
  return success ? E{typename E::success(payload)} : E{typename E::failure(payload + 100)};
}
std::string sf(bool s) { return s ? "success" : "failure"; }

struct my_error
{
  tracked_b carried;
};

void either_unary()
{
  for (int s = 0; s < 2; ++s)
    for_cat([&](auto c) {
      constexpr cat C = decltype(c)::value;
      std::string const d = descr({{"either", C}}, sf(s));
      run_case("either::object(value)", descr({{"value", C}}, sf(s)), true, [&](ctx &x) {
        tracked sv(7);
        tracked_b fv(8);
        if (s)
          x.arg("value", C, sv);
        else
          x.arg("value", C, fv);
        x.arm();
        eith r = s ? eith(pass<C>(sv)) : eith(pass<C>(fv));
        x.disarm();
        x.result_is(r, s ? ids_of(sv) : ids_of(fv));
        VRT_CHECK(r.has_success() == (s != 0), x.op() + ":result:alternative", "wrong alternative");
        if (s)
          x.after("value", sv);
        else
          x.after("value", fv);
      });
      run_case("either::make_success/make_failure", descr({{"value", C}}, sf(s)), true, [&](ctx &x) {
        tracked sv(7);
        tracked_b fv(8);
        if (s)
          x.arg("value", C, sv);
        else
          x.arg("value", C, fv);
        x.arm();
        eith r = s ? fcppt::either::make_success<tracked_b>(pass<C>(sv)) : fcppt::either::make_failure<tracked>(pass<C>(fv));
        x.disarm();
        x.result_is(r, s ? ids_of(sv) : ids_of(fv));
        if (s)
          x.after("value", sv);
        else
          x.after("value", fv);
      });
      run_case("either::object(either)", d, true, [&](ctx &x) {
        eith e = mk(s, 7);
        std::vector<int> const want = ids_of(e);
        x.arg("either", C, e);
        x.arm();
        eith r(pass<C>(e));
        x.disarm();
        x.result_is(r, want);
        x.after("either", e);
      });
      run_case("either::map", d, true, [&](ctx &x) {
        eith e = mk(s, 7);
        std::vector<int> const want = ids_of(e);
        x.arg("either", C, e);
        x.arm();
        eith r = fcppt::either::map(pass<C>(e), [](auto &&v) { return take(FWD(v)); });
        x.disarm();
        x.result_is(r, want);
        VRT_CHECK(r.has_success() == (s != 0), x.op() + ":result:alternative", "wrong alternative");
        x.after("either", e);
      });
      run_case("either::map_failure", d, true, [&](ctx &x) {
        eith e = mk(s, 7);
        std::vector<int> const want = ids_of(e);
        x.arg("either", C, e);
        x.arm();
        eith r = fcppt::either::map_failure(pass<C>(e), [](auto &&v) { return take(FWD(v)); });
        x.disarm();
        x.result_is(r, want);
        VRT_CHECK(r.has_success() == (s != 0), x.op() + ":result:alternative", "wrong alternative");
        x.after("either", e);
      });
      for (int fs = 0; fs < 2; ++fs)
        run_case("either::bind", d + (fs ? " f=success" : " f=failure"), true, [&](ctx &x) {
          eith e = mk(s, 7);
          x.arg("either", C, e);
          int fresh = -1;
          x.arm();
          // f keeps the success value, or drops it and fails with a fresh failure
          eith r = fcppt::either::bind(pass<C>(e), [fs, &fresh](auto &&v) {
            note(FWD(v));
            if (fs)
              return eith{take(FWD(v))};
            tracked_b f(55);
            fresh = peek::id(f);
            return eith{std::move(f)};
          });
          x.disarm();
          x.result_is(r, !s ? ids_of(e) : fs ? ids_of(e) : std::vector<int>{fresh});
          VRT_CHECK(r.has_success() == (s && fs), x.op() + ":result:alternative", "wrong alternative");
          x.after("either", e);
        });
      run_case("either::match", d, true, [&](ctx &x) {
        eith e = mk(s, 7);
        std::vector<int> const want = ids_of(e);
        x.arg("either", C, e);
        using both = std::pair<std::vector<tracked_b>, vec>;
        x.arm();
        both r = fcppt::either::match(
            pass<C>(e),
            [](auto &&f) {
              both b;
              b.first.push_back(take(FWD(f)));
              return b;
            },
            [](auto &&v) {
              both b;
              b.second.push_back(take(FWD(v)));
              return b;
            });
        x.disarm();
        x.result_is(r, want);
        VRT_CHECK(r.second.size() == static_cast<std::size_t>(s), x.op() + ":result:alternative", "wrong function called");
        x.after("either", e);
      });
      run_case("either::success_opt", d, s, [&](ctx &x) {
        eith e = mk(s, 7);
        std::vector<int> const want = s ? ids_of(e) : std::vector<int>{};
        x.arg("either", C, e);
        x.arm();
        fcppt::optional::object<tracked> r = fcppt::either::success_opt(pass<C>(e));
        x.disarm();
        x.result_is(r, want);
        x.after("either", e);
      });
      run_case("either::failure_opt", d, !s, [&](ctx &x) {
        eith e = mk(s, 7);
        std::vector<int> const want = !s ? ids_of(e) : std::vector<int>{};
        x.arg("either", C, e);
        x.arm();
        fcppt::optional::object<tracked_b> r = fcppt::either::failure_opt(pass<C>(e));
        x.disarm();
        x.result_is(r, want);
        x.after("either", e);
      });
      run_case("either::to_exception", d, true, [&](ctx &x) {
        eith e = mk(s, 7);
        std::vector<int> const want = ids_of(e);
        x.arg("either", C, e);
        vec sink;
        sink.reserve(1);
        std::vector<tracked_b> caught;
        caught.reserve(1);
        x.arm();
        try
        {
          sink.push_back(take(fcppt::either::to_exception(pass<C>(e), [](auto &&f) { return my_error{take(FWD(f))}; })));
        }
        catch (my_error &err)
        {
          // the exception object itself is copied/moved by the runtime, not by fcppt: only look at what arrived
          L().armed = false;
          caught.push_back(std::move(err.carried));
          L().armed = true;
        }
        x.disarm();
        x.result_is(std::make_tuple(std::cref(caught), std::cref(sink)), want);
        x.after("either", e);
      });
      // join: outer failure / inner failure / inner success
      for (int inner = 0; inner < 2; ++inner)
        run_case("either::join", d + (inner ? " inner=success" : " inner=failure"), true, [&](ctx &x) {
          using outer = fcppt::either::object<tracked_b, eith>;
          outer e = s ? outer{mk(inner, 7)} : outer{tracked_b(9)};
          std::vector<int> const want = ids_of(e);
          x.arg("either", C, e);
          x.arm();
          eith r = fcppt::either::join(pass<C>(e));
          x.disarm();
          x.result_is(r, want);
          VRT_CHECK(r.has_success() == (s && inner), x.op() + ":result:alternative", "wrong alternative");
          x.after("either", e);
        });
      // optional -> either
      run_case("either::from_optional", descr({{"optional", C}}, s ? "present" : "absent"), true, [&](ctx &x) {
        using opt = fcppt::optional::object<tracked>;
        opt o = s ? opt{tracked(7)} : opt{};
        x.arg("optional", C, o);
        int fresh = -1;
        x.arm();
        eith r = fcppt::either::from_optional(pass<C>(o), [&fresh] {
          tracked_b f(55);
          fresh = peek::id(f);
          return f;
        });
        x.disarm();
        x.result_is(r, s ? ids_of(o) : std::vector<int>{fresh});
        x.after("optional", o);
      });
      run_case("either::error_from_optional", descr({{"optional", C}}, s ? "present" : "absent"), s, [&](ctx &x) {
        using opt = fcppt::optional::object<tracked_b>;
        opt o = s ? opt{tracked_b(7)} : opt{};
        std::vector<int> const want = ids_of(o);
        x.arg("optional", C, o);
        x.arm();
        fcppt::either::error<tracked_b> r = fcppt::either::error_from_optional(pass<C>(o));
        x.disarm();
        x.result_is(r, want);
        VRT_CHECK(r.has_failure() == (s != 0), x.op() + ":result:alternative", "wrong alternative");
        x.after("optional", o);
      });
    });
}

void either_apply()
{
  for (int s1 = 0; s1 < 2; ++s1)
    for (int s2 = 0; s2 < 2; ++s2)
      for_cat([&](auto c1) {
        for_cat([&](auto c2) {
          constexpr cat C1 = decltype(c1)::value;
          constexpr cat C2 = decltype(c2)::value;
          run_case("either::apply/2", descr({{"either1", C1}, {"either2", C2}}, sf(s1) + "," + sf(s2)), true, [&](ctx &x) {
            eith a = mk(s1, 7);
            eith_c b = mk<eith_c>(s2, 8);
            // both successes -> f(s1,s2); otherwise the first failure
            std::vector<int> const want = (s1 && s2) ? ids_of(a) + ids_of(b) : !s1 ? ids_of(a) : ids_of(b);
            x.arg("either1", C1, a);
            x.arg("either2", C2, b);
            x.arm();
            fcppt::either::object<tracked_b, std::pair<tracked, tracked_c>> r = fcppt::either::apply(
                [](auto &&v1, auto &&v2) { return std::pair<tracked, tracked_c>(take(FWD(v1)), take(FWD(v2))); }, pass<C1>(a), pass<C2>(b));
            x.disarm();
            x.result_is(r, want);
            VRT_CHECK(r.has_success() == (s1 && s2), x.op() + ":result:alternative", "wrong alternative");
            x.after("either1", a);
            x.after("either2", b);
          });
        });
      });
  for (int s = 0; s < 2; ++s)
    for_cat([&](auto c) {
      constexpr cat C = decltype(c)::value;
      run_case("either::apply/1", descr({{"either1", C}}, sf(s)), true, [&](ctx &x) {
        eith a = mk(s, 7);
        std::vector<int> const want = ids_of(a);
        x.arg("either1", C, a);
        x.arm();
        eith r = fcppt::either::apply([](auto &&v1) { return take(FWD(v1)); }, pass<C>(a));
        x.disarm();
        x.result_is(r, want);
        x.after("either1", a);
      });
    });
}

void either_ranges()
{
  for (int n : sizes())
    for (int fail_at = -1; fail_at < n; ++fail_at) // index of the first failure (a second failure follows two later), -1: none
      for_cat([&](auto c) {
        constexpr cat C = decltype(c)::value;
        std::string const d = descr({{"source", C}}, "n=" + std::to_string(n) + " first_failure=" + std::to_string(fail_at));
        run_case("either::sequence", d, n > 0, [&](ctx &x) {
          std::vector<eith> v;
          v.reserve(static_cast<std::size_t>(n));
          for (int i = 0; i < n; ++i)
            v.push_back(mk(!(fail_at >= 0 && (i == fail_at || i == fail_at + 2)), 10 + i));
          std::vector<int> const want = fail_at < 0 ? ids_of(v) : ids_of(v[static_cast<std::size_t>(fail_at)]);
          x.arg("source", C, v);
          x.arm();
          fcppt::either::object<tracked_b, vec> r = fcppt::either::sequence<vec>(pass<C>(v));
          x.disarm();
          x.result_is(r, want);
          VRT_CHECK(r.has_success() == (fail_at < 0), x.op() + ":result:alternative", "wrong alternative");
          x.after("source", v);
        });
        run_case("either::sequence_error", d, n > 0, [&](ctx &x) {
          // f consumes every element it is given; it fails (with a fresh failure) at index fail_at
          vec v = make_vec(n);
          std::vector<int> want_seen;
          for (int i = 0; i < n && (fail_at < 0 || i <= fail_at); ++i)
            want_seen.push_back(ids_of(v)[static_cast<std::size_t>(i)]);
          x.arg("source", C, v);
          vec sink;
          sink.reserve(static_cast<std::size_t>(n));
          int idx = 0, fresh = -1;
          using err = fcppt::either::error<tracked_b>;
          x.arm();
          err r = fcppt::either::sequence_error(pass<C>(v), [&](auto &&e) {
            sink.push_back(take(FWD(e)));
            if (idx++ == fail_at)
            {
              tracked_b f(66);
              fresh = peek::id(f);
              return err{std::move(f)};
            }
            return err{fcppt::either::no_error{}};
          });
          x.disarm();
          x.result_is(sink, want_seen, "consumed");
          x.result_is(r, fail_at < 0 ? std::vector<int>{} : std::vector<int>{fresh});
          x.after("source", v);
        });
      });
}

void either_generators()
{
  // first_success over a container of functions: function i fails for i < k, succeeds for i == k
  for (int n : sizes())
    for (int k = 0; k <= n; ++k)
      run_case("either::first_success", "n=" + std::to_string(n) + " first_success_at=" + std::to_string(k), n > 0, [&](ctx &x) {
        using fun = fcppt::function<eith()>;
        std::vector<int> fresh_f(static_cast<std::size_t>(n), -1); // by function index: the failures are documented as (e_1,...,e_n)
        int fresh_s = -1, calls = 0;
        std::vector<fun> fs;
        for (int i = 0; i < n; ++i)
          fs.push_back(fun{[&, i]() -> eith {
            ++calls;
            if (i == k)
            {
              tracked t(7);
              fresh_s = peek::id(t);
              return eith{std::move(t)};
            }
            tracked_b f(8);
            fresh_f[static_cast<std::size_t>(i)] = peek::id(f);
            return eith{std::move(f)};
          }});
        x.arm();
        fcppt::either::object<std::vector<tracked_b>, tracked> r = fcppt::either::first_success(fs);
        x.disarm();
        if (calls != (k < n ? k + 1 : n)) // calling functions behind the first success is not excluded by the documentation
          vrt::count("info:" + x.op() + ":functions_called_behind_first_success");
        x.result_is(r, k < n ? std::vector<int>{fresh_s} : fresh_f);
      });
  // loop: next() yields k successes, then a failure
  for (int k : sizes())
    run_case("either::loop", "successes=" + std::to_string(k), k > 0, [&](ctx &x) {
      std::vector<int> made;
      int fresh_f = -1, i = 0;
      vec sink;
      sink.reserve(static_cast<std::size_t>(k));
      x.arm();
      tracked_b r = fcppt::either::loop(
          [&]() -> eith {
            if (i++ < k)
            {
              tracked t(7);
              made.push_back(peek::id(t));
              return eith{std::move(t)};
            }
            tracked_b f(8);
            fresh_f = peek::id(f);
            return eith{std::move(f)};
          },
          [&sink](auto &&v) { sink.push_back(take(FWD(v))); });
      x.disarm();
      x.result_is(sink, made, "consumed");
      x.result_is(r, std::vector<int>{fresh_f});
    });
  for (int s = 0; s < 2; ++s)
  {
    run_case("either::construct", sf(s), true, [&](ctx &x) {
      int fresh = -1;
      x.arm();
      eith r = fcppt::either::construct(
          s != 0,
          [&] {
            tracked t(7);
            fresh = peek::id(t);
            return t;
          },
          [&] {
            tracked_b f(8);
            fresh = peek::id(f);
            return f;
          });
      x.disarm();
      x.result_is(r, std::vector<int>{fresh});
      VRT_CHECK(r.has_success() == (s != 0), x.op() + ":result:alternative", "wrong alternative");
    });
    run_case("either::try_call", s ? "returns" : "throws", true, [&](ctx &x) {
      int fresh = -1;
      x.arm();
      eith r = fcppt::either::try_call<std::runtime_error>(
          [&]() -> tracked {
            if (!s)
              throw std::runtime_error("x");
            tracked t(7);
            fresh = peek::id(t);
            return t;
          },
          [&](std::runtime_error const &) {
            tracked_b f(8);
            fresh = peek::id(f);
            return f;
          });
      x.disarm();
      x.result_is(r, std::vector<int>{fresh});
      VRT_CHECK(r.has_success() == (s != 0), x.op() + ":result:alternative", "wrong alternative");
    });
  }
}

// ---------------------------------------------------------------- variant
using var = fcppt::variant::object<tracked, tracked_b, tracked_c>;
using var2 = fcppt::variant::object<tracked_c, tracked_b>;

var mkv(int alt, int payload) { return alt == 0 ? var{tracked(payload)} : alt == 1 ? var{tracked_b(payload)} : var{tracked_c(payload)}; }

struct sink3
{
  std::vector<tracked> a;
  std::vector<tracked_b> b;
  std::vector<tracked_c> c;
  void put(tracked &&t) { a.push_back(std::move(t)); }
  void put(tracked_b &&t) { b.push_back(std::move(t)); }
  void put(tracked_c &&t) { c.push_back(std::move(t)); }
};

void variant_all()
{
  for (int alt = 0; alt < 3; ++alt)
    for_cat([&](auto c) {
      constexpr cat C = decltype(c)::value;
      std::string const d = descr({{"variant", C}}, "alternative=" + std::to_string(alt));
      run_case("variant::object(value)", descr({{"value", C}}, "alternative=" + std::to_string(alt)), true, [&](ctx &x) {
        tracked v0(7);
        tracked_b v1(8);
        tracked_c v2(9);
        std::vector<int> const want = alt == 0 ? ids_of(v0) : alt == 1 ? ids_of(v1) : ids_of(v2);
        if (alt == 0)
          x.arg("value", C, v0);
        else if (alt == 1)
          x.arg("value", C, v1);
        else
          x.arg("value", C, v2);
        x.arm();
        var r = alt == 0 ? var(pass<C>(v0)) : alt == 1 ? var(pass<C>(v1)) : var(pass<C>(v2));
        x.disarm();
        x.result_is(r, want);
        VRT_CHECK(static_cast<int>(r.type_index()) == alt, x.op() + ":result:alternative", "wrong alternative");
        if (alt == 0)
          x.after("value", v0);
        else if (alt == 1)
          x.after("value", v1);
        else
          x.after("value", v2);
      });
      run_case("variant::object(variant)", d, true, [&](ctx &x) {
        var v = mkv(alt, 7);
        std::vector<int> const want = ids_of(v);
        x.arg("variant", C, v);
        x.arm();
        var r(pass<C>(v));
        x.disarm();
        x.result_is(r, want);
        x.after("variant", v);
      });
      run_case("variant::match", d, true, [&](ctx &x) {
        var v = mkv(alt, 7);
        std::vector<int> const want = ids_of(v);
        x.arg("variant", C, v);
        sink3 s;
        int called = -1;
        x.arm();
        int const r = fcppt::variant::match(
            pass<C>(v),
            [&](auto &&e) {
              static_assert(std::is_same_v<std::remove_cvref_t<decltype(e)>, tracked>);
              s.put(take(FWD(e)));
              called = 0;
              return 10;
            },
            [&](auto &&e) {
              static_assert(std::is_same_v<std::remove_cvref_t<decltype(e)>, tracked_b>);
              s.put(take(FWD(e)));
              called = 1;
              return 11;
            },
            [&](auto &&e) {
              static_assert(std::is_same_v<std::remove_cvref_t<decltype(e)>, tracked_c>);
              s.put(take(FWD(e)));
              called = 2;
              return 12;
            });
        x.disarm();
        VRT_CHECK(called == alt && r == 10 + alt, x.op() + ":function", "function %d called, result %d", called, r);
        x.result_is(std::make_tuple(std::cref(s.a), std::cref(s.b), std::cref(s.c)), want, "consumed");
        x.after("variant", v);
      });
      run_case("variant::apply/1", d, true, [&](ctx &x) {
        var v = mkv(alt, 7);
        std::vector<int> const want = ids_of(v);
        x.arg("variant", C, v);
        sink3 s;
        x.arm();
        fcppt::variant::apply([&](auto &&e) { s.put(take(FWD(e))); }, pass<C>(v));
        x.disarm();
        x.result_is(std::make_tuple(std::cref(s.a), std::cref(s.b), std::cref(s.c)), want, "consumed");
        x.after("variant", v);
      });
      for (int ask = 0; ask < 3; ++ask)
        run_case("variant::to_optional", d + " asked=" + std::to_string(ask), ask == alt, [&](ctx &x) {
          var v = mkv(alt, 7);
          std::vector<int> const want = ask == alt ? ids_of(v) : std::vector<int>{};
          x.arg("variant", C, v);
          x.arm();
          if (ask == 0)
          {
            auto r = fcppt::variant::to_optional<tracked>(pass<C>(v));
            x.disarm();
            x.result_is(r, want);
          }
          else if (ask == 1)
          {
            auto r = fcppt::variant::to_optional<tracked_b>(pass<C>(v));
            x.disarm();
            x.result_is(r, want);
          }
          else
          {
            auto r = fcppt::variant::to_optional<tracked_c>(pass<C>(v));
            x.disarm();
            x.result_is(r, want);
          }
          x.after("variant", v);
        });
    });
  for (int alt1 = 0; alt1 < 3; ++alt1)
    for (int alt2 = 0; alt2 < 2; ++alt2)
      for_cat([&](auto c1) {
        for_cat([&](auto c2) {
          constexpr cat C1 = decltype(c1)::value;
          constexpr cat C2 = decltype(c2)::value;
          run_case("variant::apply/2",
                   descr({{"variant1", C1}, {"variant2", C2}}, "alternatives=" + std::to_string(alt1) + "," + std::to_string(alt2)), true,
                   [&](ctx &x) {
                     var v = mkv(alt1, 7);
                     var2 w = alt2 == 0 ? var2{tracked_c(20)} : var2{tracked_b(21)};
                     std::vector<int> const want = ids_of(v) + ids_of(w);
                     x.arg("variant1", C1, v);
                     x.arg("variant2", C2, w);
                     sink3 s1, s2;
                     x.arm();
                     fcppt::variant::apply(
                         [&](auto &&e1, auto &&e2) {
                           s1.put(take(FWD(e1)));
                           s2.put(take(FWD(e2)));
                         },
                         pass<C1>(v), pass<C2>(w));
                     x.disarm();
                     x.result_is(std::make_tuple(std::cref(s1.a), std::cref(s1.b), std::cref(s1.c), std::cref(s2.a), std::cref(s2.c),
                                                 std::cref(s2.b)),
                                 want, "consumed");
                     x.after("variant1", v);
                     x.after("variant2", w);
                   });
        });
      });
}
}

namespace c05
{
void register_either_variant_shards()
{
  vrt::shard("either/unary", [] {
    either_unary();
    flush_info();
  });
  vrt::shard("either/apply", [] {
    either_apply();
    flush_info();
  });
  vrt::shard("either/ranges+generators", [] {
    either_ranges();
    either_generators();
    flush_info();
  });
  vrt::shard("variant", [] {
    variant_all();
    flush_info();
  });
}
}

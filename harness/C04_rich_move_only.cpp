// C04 (part 4) -- payload family "move_only": see C04_rich.hpp
#include "C04_rich.hpp"

void c04_rich_move_only_shards() { c04::rich_family_shards<c04::fam_move_only>(); }

// C05 -- value conservation: fcppt::container::join on ASSOCIATIVE containers (std::map, std::multimap, std::set,
// std::multiset, std::unordered_map over the instrumented types), 2 and 3 arguments, every value-category combination.
//  * arguments passed as lvalue / const lvalue are element-wise identical afterwards (same size, same ids, nothing moved-from),
//  * the first argument passed as an rvalue is taken over as a whole: none of its elements is copied,
//  * mapped values of later rvalue arguments are moved, never copied.  Their *keys* (and the elements of sets) can only be
//    reached as const objects through the iterators join uses, so copies of those are tolerated and counted as information,
//  * the result holds exactly the union computed by the harness: first occurrence of a key wins for unique containers,
//    everything is kept for multi containers, sorted by key for ordered unique containers (multi and unordered containers are
//    compared as multisets: the relative order of equivalent keys / the bucket order is not promised).
#include "C05_common.hpp"

#include <fcppt/container/join.hpp>

#include <algorithm>
#include <map>
#include <set>
#include <unordered_map>

namespace
{
using namespace c05;

template <class C> struct kind;
template <> struct kind<std::map<tracked, tracked_b>>
{
  static constexpr char const *name = "map";
  static constexpr bool is_map = true, multi = false, ordered = true;
};
template <> struct kind<std::multimap<tracked, tracked_b>>
{
  static constexpr char const *name = "multimap";
  static constexpr bool is_map = true, multi = true, ordered = true;
};
template <> struct kind<std::unordered_map<tracked, tracked_b>>
{
  static constexpr char const *name = "unordered_map";
  static constexpr bool is_map = true, multi = false, ordered = false;
};
template <> struct kind<std::set<tracked>>
{
  static constexpr char const *name = "set";
  static constexpr bool is_map = false, multi = false, ordered = true;
};
template <> struct kind<std::multiset<tracked>>
{
  static constexpr char const *name = "multiset";
  static constexpr bool is_map = false, multi = true, ordered = true;
};

// keys of argument number _arg: the three arguments collide on key 2 (all), 6 (first two, n=5) and 4 (first and third)
int key_of(int const _arg, int const _i)
{
  static int const keys[3][5] = {{0, 2, 4, 6, 8}, {1, 2, 5, 6, 9}, {4, 2, 7, 10, 11}};
  return keys[_arg][_i];
}

template <class C> C make_assoc(int const _arg, int const _n)
{
  C c;
  for (int i = 0; i < _n; ++i)
  {
    if constexpr (kind<C>::is_map)
      c.emplace(std::piecewise_construct, std::forward_as_tuple(key_of(_arg, i)), std::forward_as_tuple(100 * (_arg + 1) + i));
    else
      c.emplace(key_of(_arg, i));
  }
  return c;
}

struct entry
{
  int key;              // payload of the key
  std::vector<int> ids; // key id (and mapped id)
};

template <class C> std::vector<entry> entries_of(C const &_c)
{
  std::vector<entry> r;
  for (auto const &e : _c)
  {
    std::vector<item> const it = items_of(e);
    entry en;
    en.key = it.at(0).payload;
    for (item const &i : it)
      en.ids.push_back(i.id);
    r.push_back(en);
  }
  return r;
}

// reference union: arguments in order; unique containers keep the first occurrence of a key
template <class C> std::vector<int> expected_union(std::vector<std::vector<entry>> const &_args)
{
  std::vector<entry> all;
  for (auto const &a : _args)
    for (entry const &e : a)
    {
      bool const present = std::any_of(all.begin(), all.end(), [&e](entry const &o) { return o.key == e.key; });
      if (kind<C>::multi || !present)
        all.push_back(e);
    }
  std::stable_sort(all.begin(), all.end(), [](entry const &a, entry const &b) { return a.key < b.key; });
  std::vector<int> r;
  for (entry const &e : all)
    r.insert(r.end(), e.ids.begin(), e.ids.end());
  return r;
}

// ids of an rvalue argument that join can only reach as const objects
template <class C> std::vector<int> const_reached_ids(C const &_c)
{
  std::vector<int> r;
  for (auto const &e : _c)
  {
    if constexpr (kind<C>::is_map)
      r.push_back(peek::id(e.first));
    else
      r.push_back(peek::id(e));
  }
  return r;
}

std::uint64_t g_tolerated_copies = 0;
std::set<int> g_tolerated_ids; // const-reached ids of the later RVALUE arguments of the current case

template <cat Cat, class C> void tolerate(ctx &x, C const &_c)
{
  if constexpr (Cat == cat::rv)
  {
    std::vector<int> const ids = const_reached_ids(_c);
    x.tolerate_copies(ids);
    g_tolerated_ids.insert(ids.begin(), ids.end());
  }
}

template <class C> void check_result(ctx &x, C const &_r, std::vector<int> _want)
{
  std::vector<item> got = items_of(_r);
  if constexpr (!kind<C>::ordered || kind<C>::multi)
  {
    // iteration order of an unordered container is unspecified, and so is the relative order of equivalent keys of a
    // multimap/multiset after a range insertion or a merge: compare as multisets (ids are unique), count the exact order
    std::vector<int> exact;
    for (item const &i : got)
      exact.push_back(i.id);
    if (kind<C>::ordered && exact != _want)
      vrt::count(std::string("info:container::join<") + kind<C>::name + ">:equivalent_keys_not_in_argument_order");
    std::sort(got.begin(), got.end(), [](item const &a, item const &b) { return a.id < b.id; });
    std::sort(_want.begin(), _want.end());
  }
  x.result_items(got, _want);
  // tolerated copies: information only
  for (auto const &kv : L().st)
    if (g_tolerated_ids.count(kv.first))
      g_tolerated_copies += static_cast<std::uint64_t>(kv.second.copy_ctor + kv.second.copy_assign);
  g_tolerated_ids.clear();
}

template <class C> void join2()
{
  std::string const op = std::string("container::join/2<") + kind<C>::name + ">";
  for (int n1 : sizes())
    for (int n2 : sizes())
      for_cat([&](auto c1) {
        for_cat([&](auto c2) {
          constexpr cat C1 = decltype(c1)::value;
          constexpr cat C2 = decltype(c2)::value;
          run_case(op, descr({{"first", C1}, {"second", C2}}, "n=" + std::to_string(n1) + "," + std::to_string(n2)), n1 + n2 > 0, [&](ctx &x) {
            C a = make_assoc<C>(0, n1), b = make_assoc<C>(1, n2);
            std::vector<int> const want = expected_union<C>({entries_of(a), entries_of(b)});
            x.arg("first", C1, a);
            x.arg("second", C2, b);
            tolerate<C2>(x, b);
            x.arm();
            C r = fcppt::container::join(pass<C1>(a), pass<C2>(b));
            x.disarm();
            check_result(x, r, want);
            x.after("first", a);
            x.after("second", b);
          });
        });
      });
}

template <class C> void join3()
{
  std::string const op = std::string("container::join/3<") + kind<C>::name + ">";
  std::vector<int> const small = vrt::thorough() ? std::vector<int>{0, 1, 3} : std::vector<int>{0, 3};
  for (int n1 : small)
    for (int n2 : small)
      for (int n3 : small)
        for_cat([&](auto c1) {
          for_cat([&](auto c2) {
            for_cat([&](auto c3) {
              constexpr cat C1 = decltype(c1)::value;
              constexpr cat C2 = decltype(c2)::value;
              constexpr cat C3 = decltype(c3)::value;
              run_case(op,
                       descr({{"first", C1}, {"second", C2}, {"third", C3}},
                             "n=" + std::to_string(n1) + "," + std::to_string(n2) + "," + std::to_string(n3)),
                       n1 + n2 + n3 > 0, [&](ctx &x) {
                         C a = make_assoc<C>(0, n1), b = make_assoc<C>(1, n2), d = make_assoc<C>(2, n3);
                         std::vector<int> const want = expected_union<C>({entries_of(a), entries_of(b), entries_of(d)});
                         x.arg("first", C1, a);
                         x.arg("second", C2, b);
                         x.arg("third", C3, d);
                         tolerate<C2>(x, b);
                         tolerate<C3>(x, d);
                         x.arm();
                         C r = fcppt::container::join(pass<C1>(a), pass<C2>(b), pass<C3>(d));
                         x.disarm();
                         check_result(x, r, want);
                         x.after("first", a);
                         x.after("second", b);
                         x.after("third", d);
                       });
            });
          });
        });
}

template <class C> void join_kind()
{
  join2<C>();
  join3<C>();
  vrt::count(std::string("info:assoc_join_tolerated_copies_of_const_reached_elements:") + kind<C>::name, g_tolerated_copies);
  g_tolerated_copies = 0;
  flush_info();
}
}

namespace c05
{
void register_assoc_shards()
{
  vrt::shard("assoc_join/map", [] { join_kind<std::map<tracked, tracked_b>>(); });
  vrt::shard("assoc_join/multimap", [] { join_kind<std::multimap<tracked, tracked_b>>(); });
  vrt::shard("assoc_join/unordered_map", [] { join_kind<std::unordered_map<tracked, tracked_b>>(); });
  vrt::shard("assoc_join/set", [] { join_kind<std::set<tracked>>(); });
  vrt::shard("assoc_join/multiset", [] { join_kind<std::multiset<tracked>>(); });
}
}

// C14_shapes.hpp -- the matrix product over *every* pair of shapes RxK * KxC with
// R,K,C in 1..4 (64 shape triples) against plain arrays, plus (A*B)*v = A*(B*v).
// Operands: every matrix over {-1,0,2} when the shape has at most 4 entries, otherwise
// the structured family (<= 1 non-zero entry from {-1,2}, two matrices with pairwise
// different entries, all-ones); the product is bilinear, so single-entry operands
// determine every coefficient.  Triples with R <= K are instantiated in the binary C14
// (C14_shapes.cpp), triples with R > K in C14b (C14b_shapes.cpp).
#pragma once
#include "C14_common.hpp"

#include <fcppt/math/matrix/arithmetic.hpp>
#include <fcppt/math/matrix/comparison.hpp>
#include <fcppt/math/matrix/identity.hpp>
#include <fcppt/math/vector/comparison.hpp>
#include <fcppt/math/matrix/vector.hpp>

namespace c14
{
namespace shapes
{
namespace fm = fcppt::math::matrix;

template <sz R, sz C> std::vector<rmat<R, C>> family()
{
  if constexpr (R * C <= 4)
    return all_over<R, C>({-1, 0, 2});
  else
  {
    rmat<R, C> ones;
    ones.d.fill(1);
    return concat_unique<rmat<R, C>>({sparse_over<R, C>(1, {-1, 2}), {distinct_matrix<R, C>(1, 0), distinct_matrix<R, C>(2, 1), ones}});
  }
}

template <sz R, sz K, sz C> void product_shape()
{
  static_assert(tall_left_ok(R, K), "tall-left products belong to the binary C14b");
  static std::string const fn = "matrix_product_shape<" + shape(R, K) + "." + shape(K, C) + ">";
  static std::string const sg = R < K ? "matrix_product_shape<rows_lt_inner>" : (R == K ? "matrix_product_shape<rows_eq_inner>" : "matrix_product_shape<rows_gt_inner>");
  auto const fa = family<R, K>();
  auto const fb = family<K, C>();
  rvec<C> v1, v2;
  for (sz i = 0; i < C; ++i)
  {
    v1[i] = static_cast<long>(i) + 1;
    v2[i] = (i % 2) ? 3 : -1;
  }
  svec<C> const sv1 = mk_sv<svec<C>>(v1), sv2 = mk_sv<svec<C>>(v2);
  std::vector<smat<K, C>> sb;
  std::vector<buf<K * C>> bb;
  for (auto const &b : fb)
  {
    sb.push_back(mk_s(b));
    bb.push_back(mk_buf(b));
  }
  for (auto const &a : fa)
  {
    if (vrt::out_of_time())
      return;
    smat<R, K> const sa = mk_s(a);
    buf<R * K> const ba = mk_buf(a);
    std::string const ta = fn + " A=" + show(a) + " B=";
    for (std::size_t j = 0; j < fb.size(); ++j)
    {
      if (!vrt::begin_text(fn.c_str(), ta + show(fb[j])))
        continue;
      rmat<R, C> const want = rmul(a, fb[j]);
      // the last inner index contributes (this is what a fold over the wrong extent loses)
      bool last = false;
      for (sz r = 0; r < R; ++r)
        for (sz c = 0; c < C; ++c)
          last = last || a.at(r, K - 1) * fb[j].at(K - 1, c) != 0;
      vrt::nontrivial(last);
      vrt::maybe_sample();
      auto const p = sa * sb[j];
      static_assert(std::is_same_v<std::remove_cv_t<decltype(p)>, smat<R, C>>);
      C14_EQ(rd(p), want, sg + ":wrong", "A*B");
      C14_EQ(rd(ba.template mat<R, K>() * bb[j].template mat<K, C>()), want, sg + ":wrong:view", "A*B (view storages)");
      // (A*B)*v = A*(B*v) (matrix*vector is a different operator)
      C14_TRUE(p * sv1 == sa * (sb[j] * sv1), sg + ":law:product_then_vector",
               "(A*B)*v=" + show(rdv(p * sv1)) + " A*(B*v)=" + show(rdv(sa * (sb[j] * sv1))) + " v=" + show(v1));
      C14_TRUE(p * sv2 == sa * (sb[j] * sv2), sg + ":law:product_then_vector",
               "(A*B)*v=" + show(rdv(p * sv2)) + " A*(B*v)=" + show(rdv(sa * (sb[j] * sv2))) + " v=" + show(v2));
      C14_EQ(rdv(p * sv1), rmulvec(want, v1), sg + ":law:product_then_vector:reference", "(A*B)*v");
    }
  }
}

// A*I_C = A and I_R*A = A for one shape
template <sz R, sz C> void identity_shape()
{
  static std::string const fn = "identity_shape<" + shape(R, C) + ">";
  static std::string const sg = R < C ? "identity_shape<rows_lt_cols>" : (R == C ? "identity_shape<square>" : "identity_shape<rows_gt_cols>");
  // identity<Matrix> of this very shape (also when it is not square): ones exactly where row == column
  if (vrt::begin_text(fn.c_str(), fn + " identity<" + shape(R, C) + "> itself"))
  {
    vrt::nontrivial(R != C);
    rmat<R, C> delta;
    for (sz i = 0; i < R; ++i)
      for (sz j = 0; j < C; ++j)
        delta.at(i, j) = i == j ? 1 : 0;
    C14_EQ(rd(fm::identity<smat<R, C>>()), delta, sg + ":kronecker_delta", "identity<RxC>");
  }
  for (auto const &a : family<R, C>())
  {
    if (!vrt::begin_text(fn.c_str(), fn + " A=" + show(a)))
      continue;
    vrt::nontrivial(!rmzero(a));
    smat<R, C> const sa = mk_s(a);
    C14_EQ(rd(fm::identity<smat<R, R>>() * sa), a, sg + ":left", "I*A");
    if constexpr (tall_left_ok(R, C))
      C14_EQ(rd(sa * fm::identity<smat<C, C>>()), a, sg + ":right", "A*I");
  }
}
}
}

// C04 (part 6) -- the *result category* of the combinators that return what a continuation returns.
//
// Which combinators can be given a reference-returning continuation at all is decided by their declarations:
//   variant::match, variant::apply           decltype(auto)                                  -> any category
//   optional::maybe, optional::maybe_multi   std::invoke_result_t<Default> (== Transform's)  -> any category
//   either::match                            std::invoke_result_t<SuccessFunction, ...>      -> any category
//   optional::to_exception, either::to_exception   move_type<Optional> / success_move_type<Either>: a reference into the source
//   get_unsafe / get_success_unsafe / get_failure_unsafe / variant get_unsafe<U>, optional::deref: references
// Everything else in the property (optional::map/bind/apply/filter/combine/alternative/from/make_if, either::map/bind/
// map_failure/apply/first_success/loop(next)/try_call/construct/from_optional) constrains its continuation with
// fcppt::concepts::invocable_move (result must be an object type) or names the decayed result in its return type, so a
// reference-returning continuation is rejected at compile time; maybe_void(_multi) only accepts void. Those are not
// exercised here (nothing to assert).
//
// Result categories (template parameter RC): 0 = T, 1 = T &, 2 = T const &, 3 = T &&; source categories as before.
// Table cases: every continuation returns (a reference to) one of three external cells chosen by a complete function
// table, so the expected referent is known.  Own-argument cases: the continuation returns (a reference to) the int inside
// the very object it was handed, so the expected referent lives inside the source.
// Oracle per case: the declared result type is exactly the continuation's result type; for reference categories the
// result *is* the object the continuation returned (address identity), a write through a non-const result reaches that
// object, and no instrumented object is copied or moved during the call; value and call probes as everywhere.
// (Type mismatches are reported as violations at run time, not as static_asserts, so that a library change shows up as
// a verdict and not as a broken build.)
#include "C04_common.hpp"

#include <fcppt/make_ref.hpp>
#include <fcppt/reference_impl.hpp>
#include <fcppt/either/match.hpp>
#include <fcppt/either/object_impl.hpp>
#include <fcppt/either/to_exception.hpp>
#include <fcppt/optional/deref.hpp>
#include <fcppt/optional/maybe.hpp>
#include <fcppt/optional/maybe_multi.hpp>
#include <fcppt/optional/object_impl.hpp>
#include <fcppt/optional/to_exception.hpp>
#include <fcppt/variant/apply.hpp>
#include <fcppt/variant/get_unsafe.hpp>
#include <fcppt/variant/match.hpp>
#include <fcppt/variant/object_impl.hpp>

#include <memory>
#include <type_traits>

using namespace c04;

namespace
{
int g_ops = 0; // copy/move constructions and assignments of any cell since the last reset

template <class Tag, int N> struct cell
{
  static constexpr int size = N;
  int v;
  explicit cell(int x) : v(x) {}
  cell(cell const &o) : v(o.v) { ++g_ops; }
  cell(cell &&o) noexcept : v(o.v)
  {
    ++g_ops;
    o.v = POISON;
  }
  cell &operator=(cell const &o)
  {
    ++g_ops;
    v = o.v;
    return *this;
  }
  cell &operator=(cell &&o) noexcept
  {
    ++g_ops;
    int const x = o.v;
    o.v = POISON;
    v = x;
    return *this;
  }
  bool ok() const { return v >= 0 && v < N; }
};
struct tagX;
struct tagCA;
struct tagCB;
struct tagCC;
struct tagCP;
struct tagCQ;
using X = cell<tagX, 3>;  // what the table continuations return (references to)
using A = cell<tagCA, 3>; // variant alternatives
using B = cell<tagCB, 2>;
using C = cell<tagCC, 2>;
using P = cell<tagCP, 3>; // optional payload / either success
using Q = cell<tagCQ, 2>; // either failure
using V = fcppt::variant::object<A, B, C>;
using OP = fcppt::optional::object<P>;
using EP = fcppt::either::object<Q, P>;

template <int RC, class T> using rc_t = std::conditional_t<RC == 0, T, std::conditional_t<RC == 1, T &, std::conditional_t<RC == 2, T const &, T &&>>>;
template <int RC, class T> rc_t<RC, T> pick(T &x)
{
  if constexpr (RC == 3)
    return std::move(x);
  else
    return x;
}
char const *rc_name(int rc) { return rc == 0 ? "T" : rc == 1 ? "T&" : rc == 2 ? "T const&" : "T&&"; }
template <class T> std::string type_text()
{
  using U = std::remove_reference_t<T>;
  return std::string(std::is_const_v<U> ? "const " : "") + "T" + (std::is_lvalue_reference_v<T> ? "&" : std::is_rvalue_reference_v<T> ? "&&" : "");
}

V mk_v(int c) { return c < 3 ? V{A{c}} : c < 5 ? V{B{c - 3}} : V{C{c - 5}}; }
int gcode(A const &a) { return a.ok() ? a.v : -100; }
int gcode(B const &b) { return b.ok() ? 3 + b.v : -100; }
int gcode(C const &c) { return c.ok() ? 5 + c.v : -100; }
int code(V const &v)
{
  switch (v.type_index())
  {
  case 0: return gcode(v.get_unsafe<A>());
  case 1: return gcode(v.get_unsafe<B>());
  case 2: return gcode(v.get_unsafe<C>());
  }
  return -1000;
}
std::string sv(int c)
{
  if (c < 0 || c >= 7)
    return "INVALID(" + std::to_string(c) + ")";
  int const tag = c < 3 ? 0 : c < 5 ? 1 : 2;
  return std::string(1, "ABC"[tag]) + std::to_string(c < 3 ? c : c < 5 ? c - 3 : c - 5);
}
OP mk_op(int c) { return c == 0 ? OP{} : OP{P{c - 1}}; }
int code(OP const &o) { return o.has_value() ? (o.get_unsafe().ok() ? 1 + o.get_unsafe().v : -500) : 0; }
EP mk_ep(int c) { return c < 2 ? EP{Q{c}} : EP{P{c - 2}}; }
int code(EP const &e)
{
  if (e.has_success() == e.has_failure())
    return -1000;
  return e.has_success() ? (e.get_success_unsafe().ok() ? 2 + e.get_success_unsafe().v : -500) : (e.get_failure_unsafe().ok() ? e.get_failure_unsafe().v : -500);
}
std::string sh(int c) { return show_eith(c, 2); }

int value_of(int const &x) { return x; }
template <class Tag, int N> int value_of(cell<Tag, N> const &x) { return x.v; }
void set_value(int &x, int v) { x = v; }
template <class Tag, int N> void set_value(cell<Tag, N> &x, int v) { x.v = v; }

// Run `call` (which invokes the fcppt function exactly once and returns its result unchanged: `-> decltype(auto)`) and
// compare the result with the object `expected` the selected continuation returned (RC != 0) / its value (always).
template <int RC, class T, class Call, class Desc> void check_result(Call const &call, T &expected, int expected_value, std::string const &fn, Desc const &desc)
{
  using Want = rc_t<RC, T>;
  using Got = decltype(call());
  constexpr bool type_ok = std::is_same_v<Got, Want>;
  g_ops = 0;
  Got &&r = call();
  int const ops = g_ops;
  CK(type_ok, fn + ":result_type", "declared result type is %s, the continuations return %s", type_text<Got>().c_str(), type_text<Want>().c_str());
  CK(value_of(r) == expected_value, fn + ":result", "result has value %d, the selected continuation returned %d", value_of(r), expected_value);
  if constexpr (RC != 0)
  {
    CK(static_cast<void const *>(&r) == static_cast<void const *>(&expected), fn + ":result_identity",
       "the result is not the object the continuation returned a reference to (a copy?)");
    // the result being the very object (identity, above) is the contract; additional internal copies of cells are an
    // implementation detail -> information only
    INFO_ONLY(ops == 0, fn + ":result_copied");
    if constexpr (RC == 1 || RC == 3)
    {
      if constexpr (!std::is_const_v<std::remove_reference_t<Got>>)
      {
        int const before = value_of(expected);
        set_value(r, 41);
        CK(value_of(expected) == 41, fn + ":write_through", "a write through the result did not reach the object the continuation returned");
        set_value(expected, before);
      }
      else
        CK(false, fn + ":result_type", "result is const although the continuations return a non-const reference");
    }
  }
}

// ------------------------------------------------------------------ table cases
template <int RC> struct ref_visitor
{
  tab const *t;
  probe *p;
  X *ext;
  template <class T> rc_t<RC, X> operator()(T const &a) const
  {
    int const g = gcode(a);
    p->hit(g, g >= 0);
    return pick<RC>(ext[(*t)[g]]);
  }
  template <class T, class U> rc_t<RC, X> operator()(T const &a, U const &b) const
  {
    int const ga = gcode(a), gb = gcode(b);
    bool const ok = ga >= 0 && gb >= 0;
    p->hit(ok ? ga * 7 + gb : -1, ok);
    return pick<RC>(ext[ok ? (*t)[(ga + gb) % 7] : 0]);
  }
};

template <int Cat, int RC> void table_cases()
{
  static std::string const how = std::string(" [source ") + cat_name(Cat) + ", continuations return " + rc_name(RC) + "]";
  static std::string const pre = std::string("result_category<") + cat_name(Cat) + "," + rc_name(RC) + ">::";
  int const cb = vrt::thorough() ? 3 : 2; // how many of the three external cells the tables may name
  X ext[3] = {X{0}, X{1}, X{2}};
  auto reset = [&]
  {
    for (int i = 0; i < 3; ++i)
      ext[i].v = i;
  };
  // ---- variant::match
  {
    static std::string const name = pre + "variant::match<c,fa,fb,fc>";
    for (int fa = 0; fa < ipow(cb, 3); ++fa)
      for (int fb = 0; fb < ipow(cb, 2); ++fb)
        for (int fc = 0; fc < ipow(cb, 2); ++fc)
        {
          tab const ta = decode(fa, cb, 3), tb = decode(fb, cb, 2), tc = decode(fc, cb, 2);
          for (int c = 0; c < 7; ++c)
          {
            if (!vrt::begin(name.c_str(), c, fa, fb, fc))
              continue;
            auto desc = [&]
            { return "variant::match(" + sv(c) + ", A->cell" + show_tab(ta, show_int) + ", B->cell" + show_tab(tb, show_int) + ", C->cell" + show_tab(tc, show_int) + ")" + how; };
            vrt::nontrivial(RC != 0);
            SAMPLE();
            reset();
            probe pa, pb, pc;
            auto const ga = [&](A const &a) -> rc_t<RC, X>
            {
              pa.hit(a.v, a.ok());
              return pick<RC>(ext[ta[a.v]]);
            };
            auto const gb = [&](B const &b) -> rc_t<RC, X>
            {
              pb.hit(b.v, b.ok());
              return pick<RC>(ext[tb[b.v]]);
            };
            auto const gc = [&](C const &x) -> rc_t<RC, X>
            {
              pc.hit(x.v, x.ok());
              return pick<RC>(ext[tc[x.v]]);
            };
            V v = mk_v(c);
            auto const call = [&]() -> decltype(auto)
            {
              if constexpr (Cat == 0)
                return fcppt::variant::match(std::as_const(v), ga, gb, gc);
              else if constexpr (Cat == 1)
                return fcppt::variant::match(v, ga, gb, gc);
              else
                return fcppt::variant::match(std::move(v), ga, gb, gc);
            };
            int const tg = c < 3 ? 0 : c < 5 ? 1 : 2, x = c < 3 ? c : c < 5 ? c - 3 : c - 5;
            int const k = tg == 0 ? ta[x] : tg == 1 ? tb[x] : tc[x];
            check_result<RC>(call, ext[k], k, "variant::match", desc);
            CK(pa.is(tg == 0, x) && pb.is(tg == 1, x) && pc.is(tg == 2, x), "variant::match:calls", "A-fn %s, B-fn %s, C-fn %s", pa.show().c_str(), pb.show().c_str(),
               pc.show().c_str());
            if (Cat < 2) // an rvalue source may be left in any state
              CK(code(v) == c, "variant::match:source_modified", "source is now %s (the continuations take const&)", sv(code(v)).c_str());
          }
        }
  }
  // ---- variant::apply, unary (all visitor tables) and binary
  {
    static std::string const name = pre + "variant::apply<c,f>";
    for (int f = 0; f < ipow(cb, 7); ++f)
    {
      tab const t = decode(f, cb, 7);
      for (int c = 0; c < 7; ++c)
      {
        if (!vrt::begin(name.c_str(), c, f))
          continue;
        auto desc = [&] { return "variant::apply(visitor -> cell" + show_tab(t, show_int) + " [A0 A1 A2 B0 B1 C0 C1], " + sv(c) + ")" + how; };
        vrt::nontrivial(RC != 0);
        SAMPLE();
        reset();
        probe p;
        ref_visitor<RC> const vis{&t, &p, ext};
        V v = mk_v(c);
        auto const call = [&]() -> decltype(auto)
        {
          if constexpr (Cat == 0)
            return fcppt::variant::apply(vis, std::as_const(v));
          else if constexpr (Cat == 1)
            return fcppt::variant::apply(vis, v);
          else
            return fcppt::variant::apply(vis, std::move(v));
        };
        check_result<RC>(call, ext[t[c]], t[c], "variant::apply", desc);
        CK(p.is(1, c), "variant::apply:calls", "%s", p.show().c_str());
        if (Cat < 2) // an rvalue source may be left in any state
          CK(code(v) == c, "variant::apply:source_modified", "source is now %s", sv(code(v)).c_str());
      }
    }
    static std::string const name2 = pre + "variant::apply2<a,b,f>";
    for (int f = 0; f < ipow(cb, 7); ++f)
    {
      tab const t = decode(f, cb, 7);
      for (int a = 0; a < 7; ++a)
        for (int b = 0; b < 7; ++b)
        {
          if (!vrt::begin(name2.c_str(), a, b, f))
            continue;
          auto desc = [&] { return "variant::apply((x,y) -> cell table" + show_tab(t, show_int) + "[(x+y) mod 7], " + sv(a) + ", " + sv(b) + ")" + how; };
          vrt::nontrivial(RC != 0);
          SAMPLE();
          reset();
          probe p;
          ref_visitor<RC> const vis{&t, &p, ext};
          V va = mk_v(a), vb = mk_v(b);
          auto const call = [&]() -> decltype(auto)
          {
            if constexpr (Cat == 0)
              return fcppt::variant::apply(vis, std::as_const(va), std::as_const(vb));
            else if constexpr (Cat == 1)
              return fcppt::variant::apply(vis, va, vb);
            else
              return fcppt::variant::apply(vis, std::move(va), std::move(vb));
          };
          int const k = t[(a + b) % 7];
          check_result<RC>(call, ext[k], k, "variant::apply2", desc);
          CK(p.is(1, a * 7 + b), "variant::apply2:calls", "%s", p.show().c_str());
          if (Cat < 2) // an rvalue source may be left in any state
            CK(code(va) == a && code(vb) == b, "variant::apply2:source_modified", "sources now %s, %s", sv(code(va)).c_str(), sv(code(vb)).c_str());
        }
    }
  }
  // ---- optional::maybe
  {
    static std::string const name = pre + "optional::maybe<m,default,f>";
    for (int m = 0; m < 4; ++m)
      for (int d = 0; d < 3; ++d)
        for (int f = 0; f < 27; ++f)
        {
          if (!vrt::begin(name.c_str(), m, d, f))
            continue;
          tab const t = decode(f, 3, 3);
          auto desc = [&] { return "optional::maybe(" + show_opt(m) + ", ()->cell " + std::to_string(d) + ", x->cell" + show_tab(t, show_int) + ")" + how; };
          vrt::nontrivial(RC != 0 && m != 0);
          SAMPLE();
          reset();
          probe pd, pt;
          auto const def = [&]() -> rc_t<RC, X>
          {
            pd.hit(d);
            return pick<RC>(ext[d]);
          };
          auto const tr = [&](P const &a) -> rc_t<RC, X>
          {
            pt.hit(a.v, a.ok());
            return pick<RC>(ext[t[a.v]]);
          };
          OP o = mk_op(m);
          auto const call = [&]() -> decltype(auto)
          {
            if constexpr (Cat == 0)
              return fcppt::optional::maybe(std::as_const(o), def, tr);
            else if constexpr (Cat == 1)
              return fcppt::optional::maybe(o, def, tr);
            else
              return fcppt::optional::maybe(std::move(o), def, tr);
          };
          int const k = m == 0 ? d : t[m - 1];
          check_result<RC>(call, ext[k], k, "optional::maybe", desc);
          CK(pd.is(m == 0, d) && pt.is(m != 0, m - 1), "optional::maybe:calls", "default %s transform %s", pd.show().c_str(), pt.show().c_str());
          if (Cat < 2) // an rvalue source may be left in any state
            CK(code(o) == m, "optional::maybe:source_modified", "source is now %s", show_opt(code(o)).c_str());
        }
  }
  // ---- optional::maybe_multi over all binary tables
  {
    static std::string const name = pre + "optional::maybe_multi<f,a,b>";
    int const base = bin_base();
    for (int f = 0; f < ipow(base, 9); ++f)
    {
      if (vrt::out_of_time())
        return;
      tab const t = decode(f, base, 9);
      for (int a = 0; a < 4; ++a)
        for (int b = 0; b < 4; ++b)
        {
          if (!vrt::begin(name.c_str(), f, a, b))
            continue;
          int const d = f % 3;
          auto desc = [&]
          { return "optional::maybe_multi(()->cell " + std::to_string(d) + ", (x,y)->cell" + show_tab(t, show_int) + "[3x+y], " + show_opt(a) + ", " + show_opt(b) + ")" + how; };
          bool const both = a != 0 && b != 0;
          int const idx = both ? (a - 1) * 3 + (b - 1) : -1;
          vrt::nontrivial(RC != 0 && both);
          SAMPLE();
          reset();
          probe pd, pt;
          auto const def = [&]() -> rc_t<RC, X>
          {
            pd.hit(d);
            return pick<RC>(ext[d]);
          };
          auto const tr = [&](P const &x, P const &y) -> rc_t<RC, X>
          {
            bool const ok = x.ok() && y.ok();
            int const i = ok ? x.v * 3 + y.v : -1;
            pt.hit(i, ok);
            return pick<RC>(ext[t[i]]);
          };
          OP oa = mk_op(a), ob = mk_op(b);
          auto const call = [&]() -> decltype(auto)
          {
            if constexpr (Cat == 0)
              return fcppt::optional::maybe_multi(def, tr, std::as_const(oa), std::as_const(ob));
            else if constexpr (Cat == 1)
              return fcppt::optional::maybe_multi(def, tr, oa, ob);
            else
              return fcppt::optional::maybe_multi(def, tr, std::move(oa), std::move(ob));
          };
          int const k = both ? t[idx] : d;
          check_result<RC>(call, ext[k], k, "optional::maybe_multi", desc);
          CK(pd.is(!both, d) && pt.is(both, idx), "optional::maybe_multi:calls", "default %s transform %s", pd.show().c_str(), pt.show().c_str());
          if (Cat < 2) // an rvalue source may be left in any state
            CK(code(oa) == a && code(ob) == b, "optional::maybe_multi:source_modified", "sources now %s, %s", show_opt(code(oa)).c_str(), show_opt(code(ob)).c_str());
        }
    }
  }
  // ---- either::match
  {
    static std::string const name = pre + "either::match<c,ffail,fsucc>";
    for (int c = 0; c < 5; ++c)
      for (int ff = 0; ff < 9; ++ff)
        for (int sf = 0; sf < 27; ++sf)
        {
          if (!vrt::begin(name.c_str(), c, ff, sf))
            continue;
          tab const tf = decode(ff, 3, 2), ts = decode(sf, 3, 3);
          auto desc = [&] { return "either::match(" + sh(c) + ", failure->cell" + show_tab(tf, show_int) + ", success->cell" + show_tab(ts, show_int) + ")" + how; };
          vrt::nontrivial(RC != 0);
          SAMPLE();
          reset();
          probe pf, ps;
          auto const onf = [&](Q const &q) -> rc_t<RC, X>
          {
            pf.hit(q.v, q.ok());
            return pick<RC>(ext[tf[q.v]]);
          };
          auto const ons = [&](P const &p) -> rc_t<RC, X>
          {
            ps.hit(p.v, p.ok());
            return pick<RC>(ext[ts[p.v]]);
          };
          EP e = mk_ep(c);
          auto const call = [&]() -> decltype(auto)
          {
            if constexpr (Cat == 0)
              return fcppt::either::match(std::as_const(e), onf, ons);
            else if constexpr (Cat == 1)
              return fcppt::either::match(e, onf, ons);
            else
              return fcppt::either::match(std::move(e), onf, ons);
          };
          int const k = c < 2 ? tf[c] : ts[c - 2];
          check_result<RC>(call, ext[k], k, "either::match", desc);
          CK(pf.is(c < 2, c) && ps.is(c >= 2, c - 2), "either::match:calls", "on_failure %s on_success %s", pf.show().c_str(), ps.show().c_str());
          if (Cat < 2) // an rvalue source may be left in any state
            CK(code(e) == c, "either::match:source_modified", "source is now %s", sh(code(e)).c_str());
        }
  }
}

// ------------------------------------------------------------------ own-argument cases: the continuation returns (a reference to) the int
// inside the object it was handed.  ArgRef: how the continuation takes its argument (A const& / A& / A&&), fixed by the source category.
template <int Cat, class T> using arg_t = std::conditional_t<Cat == 0, T const &, std::conditional_t<Cat == 1, T &, T &&>>;
template <int RC, class T> rc_t<RC, int> member_of(T &&a)
{
  if constexpr (RC == 3)
    return std::move(a.v);
  else if constexpr (RC == 1)
    return a.v;
  else
    return static_cast<int const &>(a.v);
}

template <int Cat, int RC> void own_argument_cases()
{
  static std::string const how = std::string(" [source ") + cat_name(Cat) + ", continuations return " + rc_name(RC) + " to the int inside their own argument]";
  static std::string const pre = std::string("result_category_own_argument<") + cat_name(Cat) + "," + rc_name(RC) + ">::";
  int fallback = 77; // what the nullary default continuation refers to
  // ---- variant::match / apply
  {
    static std::string const name = pre + "variant::match/apply<c>";
    for (int c = 0; c < 7; ++c)
    {
      if (!vrt::begin(name.c_str(), c))
        continue;
      auto desc = [&] { return "variant::match / apply(" + sv(c) + ", x -> x.v)" + how; };
      vrt::nontrivial(RC != 0);
      SAMPLE();
      int const x = c < 3 ? c : c < 5 ? c - 3 : c - 5;
      auto held = [&](V &v) -> int & { return c < 3 ? v.get_unsafe<A>().v : c < 5 ? v.get_unsafe<B>().v : v.get_unsafe<C>().v; };
      {
        probe p;
        auto const ga = [&](arg_t<Cat, A> a) -> rc_t<RC, int>
        {
          p.hit(0);
          return member_of<RC>(static_cast<arg_t<Cat, A>>(a));
        };
        auto const gb = [&](arg_t<Cat, B> a) -> rc_t<RC, int>
        {
          p.hit(1);
          return member_of<RC>(static_cast<arg_t<Cat, B>>(a));
        };
        auto const gc = [&](arg_t<Cat, C> a) -> rc_t<RC, int>
        {
          p.hit(2);
          return member_of<RC>(static_cast<arg_t<Cat, C>>(a));
        };
        V v = mk_v(c);
        auto const call = [&]() -> decltype(auto)
        {
          if constexpr (Cat == 0)
            return fcppt::variant::match(std::as_const(v), ga, gb, gc);
          else if constexpr (Cat == 1)
            return fcppt::variant::match(v, ga, gb, gc);
          else
            return fcppt::variant::match(std::move(v), ga, gb, gc);
        };
        check_result<RC>(call, held(v), x, "variant::match", desc);
        CK(p.is(1, c < 3 ? 0 : c < 5 ? 1 : 2), "variant::match:calls", "%s", p.show().c_str());
        if (Cat < 2) // an rvalue source may be left in any state
          CK(code(v) == c, "variant::match:source_modified", "source is now %s", sv(code(v)).c_str());
      }
      {
        probe p;
        auto const vis = [&](auto &&a) -> rc_t<RC, int>
        {
          p.hit(gcode(a));
          return member_of<RC>(std::forward<decltype(a)>(a));
        };
        V v = mk_v(c);
        auto const call = [&]() -> decltype(auto)
        {
          if constexpr (Cat == 0)
            return fcppt::variant::apply(vis, std::as_const(v));
          else if constexpr (Cat == 1)
            return fcppt::variant::apply(vis, v);
          else
            return fcppt::variant::apply(vis, std::move(v));
        };
        check_result<RC>(call, held(v), x, "variant::apply", desc);
        CK(p.is(1, c), "variant::apply:calls", "%s", p.show().c_str());
        if (Cat < 2) // an rvalue source may be left in any state
          CK(code(v) == c, "variant::apply:source_modified", "source is now %s", sv(code(v)).c_str());
      }
    }
  }
  // ---- optional::maybe / maybe_multi
  {
    static std::string const name = pre + "optional::maybe<m>";
    for (int m = 0; m < 4; ++m)
    {
      if (!vrt::begin(name.c_str(), m))
        continue;
      auto desc = [&] { return "optional::maybe / maybe_multi(" + show_opt(m) + ", () -> external int, x -> x.v)" + how; };
      vrt::nontrivial(RC != 0 && m != 0);
      SAMPLE();
      fallback = 77;
      {
        probe pd, pt;
        auto const def = [&]() -> rc_t<RC, int>
        {
          pd.hit(0);
          return pick<RC>(fallback);
        };
        auto const tr = [&](arg_t<Cat, P> a) -> rc_t<RC, int>
        {
          pt.hit(a.v);
          return member_of<RC>(static_cast<arg_t<Cat, P>>(a));
        };
        OP o = mk_op(m);
        auto const call = [&]() -> decltype(auto)
        {
          if constexpr (Cat == 0)
            return fcppt::optional::maybe(std::as_const(o), def, tr);
          else if constexpr (Cat == 1)
            return fcppt::optional::maybe(o, def, tr);
          else
            return fcppt::optional::maybe(std::move(o), def, tr);
        };
        check_result<RC>(call, m == 0 ? fallback : o.get_unsafe().v, m == 0 ? 77 : m - 1, "optional::maybe", desc);
        CK(pd.is(m == 0, 0) && pt.is(m != 0, m - 1), "optional::maybe:calls", "default %s transform %s", pd.show().c_str(), pt.show().c_str());
        if (Cat < 2) // an rvalue source may be left in any state
          CK(code(o) == m && fallback == 77, "optional::maybe:source_modified", "source is now %s", show_opt(code(o)).c_str());
      }
      for (int n = 0; n < 4; ++n)
      {
        // the transform returns the int inside its *second* argument
        probe pd, pt;
        auto const def = [&]() -> rc_t<RC, int>
        {
          pd.hit(0);
          return pick<RC>(fallback);
        };
        auto const tr = [&](arg_t<Cat, P> a, arg_t<Cat, P> b) -> rc_t<RC, int>
        {
          pt.hit(a.v * 3 + b.v);
          return member_of<RC>(static_cast<arg_t<Cat, P>>(b));
        };
        OP oa = mk_op(n), ob = mk_op(m);
        bool const both = n != 0 && m != 0;
        auto const call = [&]() -> decltype(auto)
        {
          if constexpr (Cat == 0)
            return fcppt::optional::maybe_multi(def, tr, std::as_const(oa), std::as_const(ob));
          else if constexpr (Cat == 1)
            return fcppt::optional::maybe_multi(def, tr, oa, ob);
          else
            return fcppt::optional::maybe_multi(def, tr, std::move(oa), std::move(ob));
        };
        check_result<RC>(call, both ? ob.get_unsafe().v : fallback, both ? m - 1 : 77, "optional::maybe_multi", desc);
        CK(pd.is(!both, 0) && pt.is(both, (n - 1) * 3 + (m - 1)), "optional::maybe_multi:calls", "first argument %s: default %s transform %s", show_opt(n).c_str(),
           pd.show().c_str(), pt.show().c_str());
        if (Cat < 2) // an rvalue source may be left in any state
          CK(code(oa) == n && code(ob) == m, "optional::maybe_multi:source_modified", "sources now %s, %s", show_opt(code(oa)).c_str(), show_opt(code(ob)).c_str());
      }
    }
  }
  // ---- either::match
  {
    static std::string const name = pre + "either::match<c>";
    for (int c = 0; c < 5; ++c)
    {
      if (!vrt::begin(name.c_str(), c))
        continue;
      auto desc = [&] { return "either::match(" + sh(c) + ", f -> f.v, s -> s.v)" + how; };
      vrt::nontrivial(RC != 0);
      SAMPLE();
      probe pf, ps;
      auto const onf = [&](arg_t<Cat, Q> a) -> rc_t<RC, int>
      {
        pf.hit(a.v);
        return member_of<RC>(static_cast<arg_t<Cat, Q>>(a));
      };
      auto const ons = [&](arg_t<Cat, P> a) -> rc_t<RC, int>
      {
        ps.hit(a.v);
        return member_of<RC>(static_cast<arg_t<Cat, P>>(a));
      };
      EP e = mk_ep(c);
      auto const call = [&]() -> decltype(auto)
      {
        if constexpr (Cat == 0)
          return fcppt::either::match(std::as_const(e), onf, ons);
        else if constexpr (Cat == 1)
          return fcppt::either::match(e, onf, ons);
        else
          return fcppt::either::match(std::move(e), onf, ons);
      };
      check_result<RC>(call, c < 2 ? e.get_failure_unsafe().v : e.get_success_unsafe().v, c < 2 ? c : c - 2, "either::match", desc);
      CK(pf.is(c < 2, c) && ps.is(c >= 2, c - 2), "either::match:calls", "on_failure %s on_success %s", pf.show().c_str(), ps.show().c_str());
      if (Cat < 2) // an rvalue source may be left in any state
        CK(code(e) == c, "either::match:source_modified", "source is now %s", sh(code(e)).c_str());
    }
  }
}

// ------------------------------------------------------------------ accessors and to_exception: references into the source
struct my_exc
{
  int code;
};

// RC of the reference a function is declared to return for a source of category Cat: const& -> T const&, & -> T&, && -> T&&
template <int Cat> constexpr int src_rc = Cat == 0 ? 2 : Cat == 1 ? 1 : 3;

template <int Cat> void accessor_cases()
{
  static std::string const how = std::string(" [source ") + cat_name(Cat) + "]";
  static std::string const pre = std::string("result_category_accessors<") + cat_name(Cat) + ">::";
  constexpr int RC = src_rc<Cat>;
  {
    static std::string const name = pre + "optional::to_exception<m>";
    for (int m = 1; m < 4; ++m)
    {
      if (!vrt::begin(name.c_str(), m))
        continue;
      auto desc = [&] { return "optional::to_exception(" + show_opt(m) + ", ...) returns a reference to the held value" + how; };
      vrt::nontrivial(true);
      SAMPLE();
      probe p;
      auto const mk = [&p]
      {
        p.hit(0);
        return my_exc{1};
      };
      OP o = mk_op(m);
      auto const call = [&]() -> decltype(auto)
      {
        if constexpr (Cat == 0)
          return fcppt::optional::to_exception(std::as_const(o), mk);
        else if constexpr (Cat == 1)
          return fcppt::optional::to_exception(o, mk);
        else
          return fcppt::optional::to_exception(std::move(o), mk);
      };
      check_result<RC>(call, o.get_unsafe(), m - 1, "optional::to_exception", desc);
      CK(p.is(0) && (Cat == 2 || code(o) == m), "optional::to_exception:value", "make_exception %s, source now %s", p.show().c_str(), show_opt(code(o)).c_str());
    }
  }
  {
    static std::string const name = pre + "either::to_exception<c>";
    for (int c = 2; c < 5; ++c)
    {
      if (!vrt::begin(name.c_str(), c))
        continue;
      auto desc = [&] { return "either::to_exception(" + sh(c) + ", ...) returns a reference to the held success" + how; };
      vrt::nontrivial(true);
      SAMPLE();
      probe p;
      auto const mk = [&p](Q const &)
      {
        p.hit(0);
        return my_exc{1};
      };
      EP e = mk_ep(c);
      auto const call = [&]() -> decltype(auto)
      {
        if constexpr (Cat == 0)
          return fcppt::either::to_exception(std::as_const(e), mk);
        else if constexpr (Cat == 1)
          return fcppt::either::to_exception(e, mk);
        else
          return fcppt::either::to_exception(std::move(e), mk);
      };
      check_result<RC>(call, e.get_success_unsafe(), c - 2, "either::to_exception", desc);
      CK(p.is(0) && (Cat == 2 || code(e) == c), "either::to_exception:success", "make_exception %s, source now %s", p.show().c_str(), sh(code(e)).c_str());
    }
  }
  if constexpr (Cat < 2) // the get_unsafe family has const& and & overloads only
  {
    static std::string const name = pre + "get_unsafe<kind,value>";
    for (int kind = 0; kind < 4; ++kind)
      for (int x = 0; x < 3; ++x)
      {
        if ((kind == 2 || kind == 3) && x >= 2)
          continue;
        if (!vrt::begin(name.c_str(), kind, x))
          continue;
        static char const *const kinds[] = {"optional::object::get_unsafe", "either::object::get_success_unsafe", "either::object::get_failure_unsafe",
                                            "variant get_unsafe<B> (member and free)"};
        auto desc = [&] { return std::string(kinds[kind]) + " on value " + std::to_string(x) + how; };
        vrt::nontrivial(true);
        SAMPLE();
        if (kind == 0)
        {
          OP o{P{x}};
          auto const call = [&]() -> decltype(auto)
          {
            if constexpr (Cat == 0)
              return std::as_const(o).get_unsafe();
            else
              return o.get_unsafe();
          };
          P &first = const_cast<P &>(std::as_const(o).get_unsafe());
          check_result<RC>(call, first, x, "optional::get_unsafe", desc);
          CK(&o.get_unsafe() == &first, "optional::get_unsafe:result_identity", "const and non-const accessors disagree");
        }
        else if (kind == 1)
        {
          EP e{P{x}};
          auto const call = [&]() -> decltype(auto)
          {
            if constexpr (Cat == 0)
              return std::as_const(e).get_success_unsafe();
            else
              return e.get_success_unsafe();
          };
          P &first = const_cast<P &>(std::as_const(e).get_success_unsafe());
          check_result<RC>(call, first, x, "either::get_success_unsafe", desc);
          CK(&e.get_success_unsafe() == &first, "either::get_success_unsafe:result_identity", "const and non-const accessors disagree");
        }
        else if (kind == 2)
        {
          EP e{Q{x}};
          auto const call = [&]() -> decltype(auto)
          {
            if constexpr (Cat == 0)
              return std::as_const(e).get_failure_unsafe();
            else
              return e.get_failure_unsafe();
          };
          Q &first = const_cast<Q &>(std::as_const(e).get_failure_unsafe());
          check_result<RC>(call, first, x, "either::get_failure_unsafe", desc);
          CK(&e.get_failure_unsafe() == &first, "either::get_failure_unsafe:result_identity", "const and non-const accessors disagree");
        }
        else
        {
          V v{B{x}};
          auto const call = [&]() -> decltype(auto)
          {
            if constexpr (Cat == 0)
              return std::as_const(v).template get_unsafe<B>();
            else
              return v.template get_unsafe<B>();
          };
          auto const call_free = [&]() -> decltype(auto)
          {
            if constexpr (Cat == 0)
              return fcppt::variant::get_unsafe<B>(std::as_const(v));
            else
              return fcppt::variant::get_unsafe<B>(v);
          };
          B &first = *std::get_if<B>(&v.impl());
          check_result<RC>(call, first, x, "variant::get_unsafe(member)", desc);
          check_result<RC>(call_free, first, x, "variant::get_unsafe(free)", desc);
        }
      }
  }
  if constexpr (Cat == 0) // deref takes its optional by const&
  {
    static std::string const name = pre + "optional::deref<pointer kind,m>";
    for (int kind = 0; kind < 3; ++kind)
      for (int m = 0; m < 4; ++m)
      {
        if (!vrt::begin(name.c_str(), kind, m))
          continue;
        static char const *const kinds[] = {"optional<cell*>", "optional<std::unique_ptr<cell>>", "optional<std::vector<cell>::iterator>"};
        auto desc = [&] { return std::string("optional::deref(") + kinds[kind] + (m == 0 ? " nothing" : " pointing at cell " + std::to_string(m - 1)) + ")"; };
        vrt::nontrivial(m != 0);
        SAMPLE();
        std::vector<X> cells;
        cells.reserve(3);
        for (int i = 0; i < 3; ++i)
          cells.emplace_back(i);
        auto check = [&](auto const &r, X &target)
        {
          CK(r.has_value() == (m != 0), "optional::deref:has_value", "has_value %d", int(r.has_value()));
          if (m != 0 && r.has_value())
          {
            CK(&r.get_unsafe().get() == &target, "optional::deref:result_identity", "the reference does not refer to the pointee");
            r.get_unsafe().get().v = 41;
            CK(target.v == 41, "optional::deref:write_through", "a write through the reference did not reach the pointee");
          }
        };
        g_ops = 0;
        if (kind == 0)
        {
          fcppt::optional::object<X *> const o = m == 0 ? fcppt::optional::object<X *>{} : fcppt::optional::object<X *>{&cells[m - 1]};
          fcppt::optional::object<fcppt::reference<X>> const r = fcppt::optional::deref(o);
          check(r, cells[m == 0 ? 0 : m - 1]);
        }
        else if (kind == 1)
        {
          using up = std::unique_ptr<X>;
          fcppt::optional::object<up> const o = m == 0 ? fcppt::optional::object<up>{} : fcppt::optional::object<up>{up{new X{m - 1}}};
          fcppt::optional::object<fcppt::reference<X>> const r = fcppt::optional::deref(o);
          X dummy{0};
          check(r, m == 0 ? dummy : *o.get_unsafe());
        }
        else
        {
          using it = std::vector<X>::iterator;
          fcppt::optional::object<it> const o = m == 0 ? fcppt::optional::object<it>{} : fcppt::optional::object<it>{cells.begin() + (m - 1)};
          fcppt::optional::object<fcppt::reference<X>> const r = fcppt::optional::deref(o);
          check(r, cells[m == 0 ? 0 : m - 1]);
        }
        INFO_ONLY(g_ops == 0, "optional::deref:result_copied"); // implementation detail, identity is checked above
      }
  }
}

template <int Cat, int RC> void register_tables()
{
  static char const *const cn[] = {"const_lvalue", "lvalue", "rvalue"};
  static char const *const rn[] = {"value", "ref", "cref", "rref"};
  vrt::shard(std::string("refs/tables/") + cn[Cat] + "/" + rn[RC], [] { table_cases<Cat, RC>(); });
}

} // namespace

void c04_refs_shards()
{
  register_tables<0, 0>();
  register_tables<0, 1>();
  register_tables<0, 2>();
  register_tables<0, 3>();
  register_tables<1, 0>();
  register_tables<1, 1>();
  register_tables<1, 2>();
  register_tables<1, 3>();
  register_tables<2, 0>();
  register_tables<2, 1>();
  register_tables<2, 2>();
  register_tables<2, 3>();
  // own-argument: only the result categories a continuation can form from its argument (T const& arg: T, T const&;
  // T& arg: T, T&, T const&; T&& arg: T, T const&, T&&)
  vrt::shard("refs/own_argument",
             []
             {
               own_argument_cases<0, 0>();
               own_argument_cases<0, 2>();
               own_argument_cases<1, 0>();
               own_argument_cases<1, 1>();
               own_argument_cases<1, 2>();
               // rvalue sources: by-value results only.  A reference into an rvalue argument is only as long-lived as the library's
               // handling of that rvalue (it may move the source into a local first), so no identity is demanded there.
               own_argument_cases<2, 0>();
             });
  vrt::shard("refs/accessors",
             []
             {
               accessor_cases<0>();
               accessor_cases<1>();
               accessor_cases<2>();
             });
}

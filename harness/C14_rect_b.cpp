// C14_rect_b.cpp (shapes 2x4, 4x2 and their products) -- rectangular matrices: an implementation that confuses rows and
// columns (strides, index_absolute, row views, result shapes) is invisible on square
// operands.  Shapes 1x2 .. 4x3; families: every matrix over a small entry set for the
// small shapes, all matrices with <= 2 non-zero entries from {-1,1} plus a matrix with
// pairwise different entries for the larger ones.
#include "C14_matrix.hpp"

namespace c14
{
namespace
{
template <sz R, sz C> std::vector<rmat<R, C>> structured(int maxnz)
{
  rmat<R, C> ones;
  ones.d.fill(1);
  return concat_unique<rmat<R, C>>({sparse_over<R, C>(maxnz, {1, -1}), {distinct_matrix<R, C>(1, 0), distinct_matrix<R, C>(2, 1), ones}});
}
template <sz R, sz C> std::vector<rmat<R, C>> full_or_structured(std::vector<long> const &vals, int quick_nz)
{
  return vrt::thorough() ? all_over<R, C>(vals) : structured<R, C>(quick_nz);
}
std::vector<long> const pm1{-1, 0, 1};
}

void register_rect_b()
{
  vrt::shard("rect/unary/2x4_4x2", [] {
    shape_unary_all<2, 4>(make_ops(structured<2, 4>(2)), {-2, -1, 0, 1, 3});
    shape_unary_all<4, 2>(make_ops(structured<4, 2>(2)), {-2, -1, 0, 1, 3});
  });
  vrt::shard("rect/product/2x4.4x3", [] { product_pairs_all<2, 4, 3>(make_ops(structured<2, 4>(2)), make_ops(structured<4, 3>(2)), 0, 1); });
  vrt::shard("rect/product/3x4.4x2", [] { product_pairs_all<3, 4, 2>(make_ops(structured<3, 4>(2)), make_ops(structured<4, 2>(2)), 0, 1); });
}
}

// C20 compile probe: Parameters::convert_to(wrapped distribution) of the three parameter
// classes (the "to" direction of the parameter translation).  Select one with
// -DC20_PROBE_KIND=1 (uniform_int<int>), 2 (uniform_real<double>), 3 (normal<double>).
// Must compile; it is never run.
#include <fcppt/random/distribution/parameters/normal.hpp>
#include <fcppt/random/distribution/parameters/uniform_int.hpp>
#include <fcppt/random/distribution/parameters/uniform_real.hpp>

#if C20_PROBE_KIND == 1
using params = fcppt::random::distribution::parameters::uniform_int<int>;
#elif C20_PROBE_KIND == 2
using params = fcppt::random::distribution::parameters::uniform_real<double>;
#else
using params = fcppt::random::distribution::parameters::normal<double>;
#endif

params c20_probe_convert_to(params::distribution const &_dist) { return params::convert_to(_dist); }

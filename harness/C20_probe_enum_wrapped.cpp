// C20 compile probe: the distribution wrapped by uniform_int<Enum> is the standard one over the enum's underlying type
// (type_iso: the enum is isomorphic to its underlying type), so the parameters handed back by convert_from() compare
// with std::uniform_int_distribution<underlying_type>::param_type -- the construct C20_common.hpp relies on for every
// enum result type.  Must compile; it is never run.
#include <fcppt/random/distribution/basic.hpp>
#include <fcppt/random/distribution/parameters/uniform_int.hpp>
#include <fcppt/type_iso/enum.hpp>

#include <random>
#include <type_traits>

namespace
{
enum class scoped_short : short { a = -2, b, c, d, e };
enum unscoped_int : int { u0, u1, u2 };
}

template <class E> bool c20_probe_enum_wrapped(fcppt::random::distribution::basic<fcppt::random::distribution::parameters::uniform_int<E>> const &_dist)
{
  using base = std::underlying_type_t<E>;
  using std_dist = std::uniform_int_distribution<base>;
  typename std_dist::param_type const want(0, 1);
  return _dist.param().convert_from() == want && _dist.distribution().param() == want;
}

template bool c20_probe_enum_wrapped<scoped_short>(fcppt::random::distribution::basic<fcppt::random::distribution::parameters::uniform_int<scoped_short>> const &);
template bool c20_probe_enum_wrapped<unscoped_int>(fcppt::random::distribution::basic<fcppt::random::distribution::parameters::uniform_int<unscoped_int>> const &);

// C20: shared parts of the real-valued families (uniform_real, normal).
#pragma once
#include "C20_user.hpp"

namespace c20
{
FCPPT_MAKE_STRONG_TYPEDEF(double, st_double);
FCPPT_MAKE_STRONG_TYPEDEF(long double, st_ldouble);

using ld = long double;

struct real_pair
{
  ld x, y;
};

// values that are NOT representable as double (nor float): a detour of a long double
// parameter through a narrower type changes them
inline ld const nr_tenth = 0.1L;
inline ld const nr_seven_tenths = 0.7L;
inline ld const nr_third = 1.0L / 3.0L;
inline ld const nr_one_plus = 1.0L + 0x1p-60L;      // 1 + 2^-60
inline ld const nr_big = 0x1p70L + 1.0L;            // 2^70 + 1

inline std::string ldstr(ld v) { return vrt::fmt("%.21Lg", v); }

// boundary list of a floating point type (for the seed-independent round-trip checks)
template <class T> std::vector<T> real_boundary_values()
{
  using L = std::numeric_limits<T>;
  std::vector<T> r{L::lowest(),
                   L::lowest() / 2,
                   static_cast<T>(-nr_big),
                   T(-1),
                   static_cast<T>(-nr_third),
                   static_cast<T>(-nr_tenth),
                   -L::min(),
                   -L::denorm_min(),
                   T(0),
                   L::denorm_min(),
                   L::min(),
                   L::epsilon(),
                   static_cast<T>(nr_tenth),
                   static_cast<T>(nr_third),
                   static_cast<T>(nr_seven_tenths),
                   T(1),
                   T(1) + L::epsilon(),
                   static_cast<T>(nr_one_plus),
                   static_cast<T>(nr_big),
                   L::max() / 2,
                   L::max()};
  return r;
}
}

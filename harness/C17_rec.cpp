// C17 (heterogeneous record pairs): record operator== / != accept two *different* record types with the same
// label set.  For each of three value-type patterns -- (int,int,int), (int,int,bool), (int,long,bool) -- all six
// element orders are instantiated and all 36 ordered pairs of record types are compared over all label values
// in {0,1,2} ({0,1} for bool):  r1 == r2  <=>  equal label by label, != is the negation, both argument orders,
// and  a == permute<R2>(a).
#include <C17_common.hpp>

#include <fcppt/record/comparison.hpp>
#include <fcppt/record/element.hpp>
#include <fcppt/record/get.hpp>
#include <fcppt/record/make_label.hpp>
#include <fcppt/record/object.hpp>
#include <fcppt/record/permute.hpp>

#include <string>
#include <tuple>
#include <type_traits>
#include <utility>
#include <vector>

namespace
{
using key_t = c17::key_t;

FCPPT_RECORD_MAKE_LABEL(ra);
FCPPT_RECORD_MAKE_LABEL(rb);
FCPPT_RECORD_MAKE_LABEL(rc);

template <class TA, class TB, class TC> struct pattern
{
  using ta = TA;
  using tb = TB;
  using tc = TC;
  using ea = fcppt::record::element<ra, TA>;
  using eb = fcppt::record::element<rb, TB>;
  using ec = fcppt::record::element<rc, TC>;
  using orders = std::tuple<fcppt::record::object<ea, eb, ec>, fcppt::record::object<ea, ec, eb>, fcppt::record::object<eb, ea, ec>,
                            fcppt::record::object<eb, ec, ea>, fcppt::record::object<ec, ea, eb>, fcppt::record::object<ec, eb, ea>>;
};
char const *const order_name[6] = {"abc", "acb", "bac", "bca", "cab", "cba"};

template <class T> long base_of() { return std::is_same_v<T, bool> ? 2 : 3; }

template <class P> std::vector<key_t> keys_of()
{
  std::vector<key_t> r;
  for (long a = 0; a < base_of<typename P::ta>(); ++a)
    for (long b = 0; b < base_of<typename P::tb>(); ++b)
      for (long c = 0; c < base_of<typename P::tc>(); ++c)
        r.push_back(key_t{a, b, c});
  return r;
}

template <class P, class R> R make(key_t const &k)
{
  return R{ra{} = static_cast<typename P::ta>(k[0]), rb{} = static_cast<typename P::tb>(k[1]),
           rc{} = static_cast<typename P::tc>(k[2])};
}

template <class P, std::size_t I, std::size_t J> void type_pair(std::string const &pname)
{
  using R1 = std::tuple_element_t<I, typename P::orders>;
  using R2 = std::tuple_element_t<J, typename P::orders>;
  static std::string const n = "record<" + pname + ">:" + order_name[I] + "-vs-" + order_name[J];
  static std::string const fam = "record:" + std::string(I == J ? "same_order" : "mixed_order");
  auto const keys = keys_of<P>();
  std::vector<R1> v1;
  std::vector<R2> v2;
  for (key_t const &k : keys)
  {
    v1.push_back(make<P, R1>(k));
    v2.push_back(make<P, R2>(k));
    if (static_cast<long>(fcppt::record::get<ra>(v1.back())) != k[0] || static_cast<long>(fcppt::record::get<rb>(v2.back())) != k[1] ||
        static_cast<long>(fcppt::record::get<rc>(v2.back())) != k[2])
      vrt::fail("harness:record_make", "record construction by label went wrong");
  }
  for (std::size_t i = 0; i < keys.size(); ++i)
    for (std::size_t j = 0; j < keys.size(); ++j)
    {
      if (!vrt::begin(n.c_str(), i, j))
        continue;
      bool const keq = keys[i] == keys[j];
      // non-trivial: two different record types; especially values that are equal position by position
      // but not label by label cannot be told apart by a positional comparison
      vrt::nontrivial(I != J);
      if (c17::pow2(vrt::S().page->evaluations))
      {
        vrt::describe(n + ": {a,b,c}=" + c17::show_key(keys[i]) + " vs " + c17::show_key(keys[j]));
        vrt::maybe_sample();
      }
      R1 const &x = v1[i];
      R2 const &y = v2[j];
      bool const e12 = x == y, e21 = y == x, n12 = x != y, n21 = y != x;
      VRT_CHECK(e12 == keq && e21 == keq, fam + "_eq:<" + pname + ">", "%s: ==:%d/%d, label-wise equality is %d: {a,b,c}=%s vs %s",
                n.c_str(), (int)e12, (int)e21, (int)keq, c17::show_key(keys[i]).c_str(), c17::show_key(keys[j]).c_str());
      VRT_CHECK(n12 == !keq && n21 == !keq, fam + "_ne:<" + pname + ">", "%s: !=:%d/%d, label-wise equality is %d: {a,b,c}=%s vs %s",
                n.c_str(), (int)n12, (int)n21, (int)keq, c17::show_key(keys[i]).c_str(), c17::show_key(keys[j]).c_str());
      if (i == j)
      {
        R2 const p = fcppt::record::permute<R2>(x);
        VRT_CHECK(x == p && p == x && !(x != p) && p == y, fam + "_permute:<" + pname + ">",
                  "%s: a == permute<R2>(a) fails for {a,b,c}=%s (a==p:%d p==a:%d a!=p:%d p==y:%d)", n.c_str(),
                  c17::show_key(keys[i]).c_str(), (int)(x == p), (int)(p == x), (int)(x != p), (int)(p == y));
      }
    }
}

template <class P, std::size_t... K> void all_pairs(std::string const &pname, std::index_sequence<K...>)
{
  (type_pair<P, K / 6, K % 6>(pname), ...);
}
} // namespace

void register_records()
{
  vrt::shard("record_pairs<int,int,int>",
             [] { all_pairs<pattern<int, int, int>>("int,int,int", std::make_index_sequence<36>{}); });
  vrt::shard("record_pairs<int,int,bool>",
             [] { all_pairs<pattern<int, int, bool>>("int,int,bool", std::make_index_sequence<36>{}); });
  vrt::shard("record_pairs<int,long,bool>",
             [] { all_pairs<pattern<int, long, bool>>("int,long,bool", std::make_index_sequence<36>{}); });
}

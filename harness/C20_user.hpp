// C20: user-defined result types with their own fcppt::type_iso::transform specialisation.
// The property names "strong-typedef or enum" result types; both are instances of one mechanism
// (type_iso::transform: undecorate the parameters, decorate every draw).  These types are a third,
// user-defined instance of the same mechanism, chosen so that a shortcut around it is visible:
// each is ALSO constructible from its base type, with another meaning than decorate().
#pragma once
#include "C20_common.hpp"

#include <fcppt/type_iso/transform.hpp>

namespace c20
{
// 24.8 fixed point: the base value is the raw representation; fixed24_8(3) means 3.0 == raw 768
class fixed24_8
{
public:
  fixed24_8(int const _whole) : raw_{_whole * 256} {} // NOLINT: implicit on purpose
  static fixed24_8 from_raw(int const _raw)
  {
    fixed24_8 r{0};
    r.raw_ = _raw;
    return r;
  }
  [[nodiscard]] int raw() const { return raw_; }

private:
  int raw_;
};

// a ratio stored as a fraction; ratio(50.0) means 50 percent == fraction 0.5
template <class F> class ratio
{
public:
  explicit ratio(F const _percent) : fraction_{_percent / F(100)} {}
  static ratio from_fraction(F const _fraction)
  {
    ratio r{F(0)};
    r.fraction_ = _fraction;
    return r;
  }
  [[nodiscard]] F fraction() const { return fraction_; }

private:
  F fraction_;
};

FCPPT_MAKE_STRONG_TYPEDEF(fixed24_8, st_fixed);

// the harness' own (un)wrapping of these types
template <> struct rt<fixed24_8, void>
{
  using base = int;
  static fixed24_8 wrap(base v) { return fixed24_8::from_raw(v); }
  static base unwrap(fixed24_8 const &v) { return v.raw(); }
};
template <class F> struct rt<ratio<F>, void>
{
  using base = F;
  static ratio<F> wrap(base v) { return ratio<F>::from_fraction(v); }
  static base unwrap(ratio<F> const &v) { return v.fraction(); }
};
}

namespace fcppt::type_iso
{
template <> struct transform<c20::fixed24_8>
{
  using undecorated_type = int;
  using decorated_type = c20::fixed24_8;
  static decorated_type decorate(undecorated_type const &_value) { return decorated_type::from_raw(_value); }
  static undecorated_type undecorate(decorated_type const &_value) { return _value.raw(); }
};
template <class F> struct transform<c20::ratio<F>>
{
  using undecorated_type = F;
  using decorated_type = c20::ratio<F>;
  static decorated_type decorate(undecorated_type const &_value) { return decorated_type::from_fraction(_value); }
  static undecorated_type undecorate(decorated_type const &_value) { return _value.fraction(); }
};
}

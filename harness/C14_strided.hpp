// C14_strided.hpp -- non-contiguous view storages and the buffers behind them.
// A storage type of fcppt::math only has to provide value_type, size_type, storage_size,
// reference, const_reference and operator[] (see test/math/vector/view_storage.cpp);
// nothing says that element i lives at base + i.  Every generic entry point therefore has
// to reach the elements through operator[] only.  The storages here map index i to
//   strided : base[i * stride]            (a matrix column, interleaved data)
//   reversed: base[N - 1 - i]
//   block   : base[(i / C) * pitch + i % C]   (an RxC block of a wider row-major array)
// The memory between the viewed elements holds decoys: in mode 0 values that occur in no
// operand (any direct memory access yields a wrong value), in mode 1 the elements of the
// *other* operand at the same linear position (a comparison that reads memory linearly sees
// the other operand and answers "equal").  Buffers are exact-size heap blocks, so ASan sees
// every access outside the viewed extent, and every buffer is compared as a whole after
// each operation: decoys must never change, read-only operations must not write.
#pragma once
#include "C14_common.hpp"

namespace c14
{
// the stride is part of the type: two strided views with different strides are different
// storage types (assignment between equal storage types is the implicit copy assignment of
// object, which rebinds a view instead of copying elements)
template <typename T, sz N, sz Stride> class strided_storage
{
public:
  using value_type = T;
  using size_type = fcppt::math::size_type;
  using storage_size = fcppt::math::static_size<N>;
  using pointer = value_type *;
  using reference = value_type &;
  using const_reference = value_type const &;
  explicit strided_storage(pointer const _data) : data_(_data) {}
  reference operator[](size_type const _index) { return data_[_index * Stride]; }
  const_reference operator[](size_type const _index) const { return data_[_index * Stride]; }

private:
  pointer data_;
};
template <typename T, sz N> class reversed_storage
{
public:
  using value_type = T;
  using size_type = fcppt::math::size_type;
  using storage_size = fcppt::math::static_size<N>;
  using pointer = value_type *;
  using reference = value_type &;
  using const_reference = value_type const &;
  explicit reversed_storage(pointer const _data) : data_(_data) {}
  reference operator[](size_type const _index) { return data_[N - 1U - _index]; }
  const_reference operator[](size_type const _index) const { return data_[N - 1U - _index]; }

private:
  pointer data_;
};
template <typename T, sz R, sz C, sz Pitch> class block_storage
{
public:
  using value_type = T;
  using size_type = fcppt::math::size_type;
  using storage_size = fcppt::math::static_size<R * C>;
  using pointer = value_type *;
  using reference = value_type &;
  using const_reference = value_type const &;
  explicit block_storage(pointer const _data) : data_(_data) {}
  reference operator[](size_type const _index) { return data_[(_index / C) * Pitch + _index % C]; }
  const_reference operator[](size_type const _index) const { return data_[(_index / C) * Pitch + _index % C]; }

private:
  pointer data_;
};

inline std::string show(std::vector<long> const &a)
{
  std::string s = "{";
  for (std::size_t i = 0; i < a.size(); ++i)
  {
    if (i)
      s += ",";
    s += std::to_string(a[i]);
  }
  return s + "}";
}

// a heap buffer of `size` ints in which position pos(i) holds element i of an N-element operand
template <sz N> struct raw_buffer
{
  std::unique_ptr<I[]> p;
  sz size;
  std::vector<sz> pos; // pos[i] = raw position of element i
  raw_buffer(sz size_, std::vector<sz> pos_) : p(new I[size_]), size(size_), pos(std::move(pos_)) {}
  void fill(rvec<N> const &u, int mode, rvec<N> const &other)
  {
    for (sz q = 0; q < size; ++q)
      p[q] = mode == 0 ? static_cast<I>(50 + q) : static_cast<I>(other[q < N ? q : N - 1]);
    for (sz i = 0; i < N; ++i)
      p[pos[i]] = static_cast<I>(u[i]);
  }
  std::vector<long> raw() const
  {
    std::vector<long> r;
    for (sz q = 0; q < size; ++q)
      r.push_back(p[q]);
    return r;
  }
  // the buffer contents expected after the viewed elements became nv (decoys as in before)
  std::vector<long> with(std::vector<long> before, rvec<N> const &nv) const
  {
    for (sz i = 0; i < N; ++i)
      before[pos[i]] = nv[i];
    return before;
  }
};

// buffer kinds for vectors / dims --------------------------------------------------------
template <sz N, sz Stride> struct strided_kind
{
  static std::string name() { return "stride" + std::to_string(Stride); }
  using storage = strided_storage<I, N, Stride>;
  raw_buffer<N> b;
  strided_kind() : b((N - 1) * Stride + 1, positions()) {}
  static std::vector<sz> positions()
  {
    std::vector<sz> r;
    for (sz i = 0; i < N; ++i)
      r.push_back(i * Stride);
    return r;
  }
  storage make() const { return storage(b.p.get()); }
};
template <sz N> struct reversed_kind
{
  static std::string name() { return "reversed"; }
  using storage = reversed_storage<I, N>;
  raw_buffer<N> b;
  reversed_kind() : b(N, positions()) {}
  static std::vector<sz> positions()
  {
    std::vector<sz> r;
    for (sz i = 0; i < N; ++i)
      r.push_back(N - 1 - i);
    return r;
  }
  storage make() const { return storage(b.p.get()); }
};
// buffer kinds for matrices ---------------------------------------------------------------
template <sz R, sz C, sz Pitch> struct block_kind
{
  static_assert(Pitch > C);
  static std::string name() { return "block_pitch" + std::to_string(Pitch); }
  using storage = block_storage<I, R, C, Pitch>;
  raw_buffer<R * C> b;
  block_kind() : b((R - 1) * Pitch + C, positions()) {}
  static std::vector<sz> positions()
  {
    std::vector<sz> r;
    for (sz i = 0; i < R * C; ++i)
      r.push_back((i / C) * Pitch + i % C);
    return r;
  }
  storage make() const { return storage(b.p.get()); }
};

}

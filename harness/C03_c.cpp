// C03: third block of the shape family -- sums nested under optional/many and next to positionals
// (error classification of sums seen through an enclosing optional/many; option names of both
// alternatives of a sum in the parse context of a preceding positional)
#include "C03_common.hpp"

#include <type_traits>

namespace c03
{
#define SHAPE(NAME, PARSER, DESC, ALPHA)                                                       \
  vrt::shard("shape/" NAME, [] {                                                               \
    auto const parser{PARSER};                                                                 \
    run_shape(NAME, parser, DESC, ALPHA, maxlen());                                            \
    run_shape(NAME "+extended_names", parser, DESC, extended_names(ALPHA), 3);                 \
  }, 120)

void register_c()
{
  // optional/many(sum(...)) followed by a consumer: a hard error inside the sum must not be swallowed
  SHAPE("optional_sum_arg_usw_then_arg",
        (o::apply(o::make_optional(o::make_sum<ls>(arg<la, int>("a"), usw<lb>(nullptr, "all"))), arg<lc, std::string>("c"))),
        S_product({S_optional(S_sum("ls", S_arg("la", "a", vt::int_), S_unit_switch("lb", std::nullopt, "all"))), S_arg("lc", "c", vt::string_)}),
        alpha({"--all", "3"}));
  SHAPE("many_sum_arg_usw_then_arg",
        (o::apply(o::make_many(o::make_sum<ls>(arg<la, int>("a"), usw<lb>(nullptr, "all"))), arg<lc, std::string>("c"))),
        S_product({S_many(S_sum("ls", S_arg("la", "a", vt::int_), S_unit_switch("lb", std::nullopt, "all"))), S_arg("lc", "c", vt::string_)}),
        alpha({"--all", "3"}));
  SHAPE("optional_sum_usw_arg_then_arg",
        (o::apply(o::make_optional(o::make_sum<ls>(usw<lb>("a", "all"), arg<la, int>("a"))), arg<lc, std::string>("c"))),
        S_product({S_optional(S_sum("ls", S_unit_switch("lb", "a", "all"), S_arg("la", "a", vt::int_))), S_arg("lc", "c", vt::string_)}),
        alpha({"--all", "-a", "3"}));
  SHAPE("many_sum_option_arg_then_switch",
        (o::apply(o::make_many(o::make_sum<ls>(op<la, int>("o", "opt"), arg<lb, int>("b"))), sw<lc>("f", "flag"))),
        S_product({S_many(S_sum("ls", S_option("la", "o", "opt", vt::int_, std::nullopt), S_arg("lb", "b", vt::int_))), S_switch("lc", "f", "flag")}),
        alpha({"--opt", "-o", "-f", "3"}));
  SHAPE("optional_sum_option_arg_then_option",
        (o::apply(o::make_optional(o::make_sum<ls>(op<la, int>(nullptr, "opt"), arg<lb, int>("b"))), opd<lc, std::string>("p", "pp", std::string("d")))),
        S_product({S_optional(S_sum("ls", S_option("la", std::nullopt, "opt", vt::int_, std::nullopt), S_arg("lb", "b", vt::int_))),
                   S_option("lc", "p", "pp", vt::string_, "'d'")}),
        alpha({"--opt", "--pp", "-p", "3"}));
  SHAPE("optional_optional_sum_then_arg",
        (o::apply(o::make_optional(o::make_optional(o::make_sum<ls>(arg<la, int>("a"), usw<lb>(nullptr, "all")))), arg<lc, std::string>("c"))),
        S_product({S_optional(S_optional(S_sum("ls", S_arg("la", "a", vt::int_), S_unit_switch("lb", std::nullopt, "all")))), S_arg("lc", "c", vt::string_)}),
        alpha({"--all", "3"}));
  // options inside the alternatives of a sum, with a positional parsed before them
  SHAPE("sum_product_arg_option_left",
        (o::make_sum<ls>(o::apply(arg<la, std::string>("src"), op<lb, std::string>("o", "out")), usw<lc>(nullptr, "version"))),
        S_sum("ls", S_product({S_arg("la", "src", vt::string_), S_option("lb", "o", "out", vt::string_, std::nullopt)}), S_unit_switch("lc", std::nullopt, "version")),
        alpha({"--out", "-o", "--version", "y"}));
  SHAPE("sum_product_arg_option_right",
        (o::make_sum<ls>(usw<lc>(nullptr, "version"), o::apply(arg<la, std::string>("src"), op<lb, std::string>("o", "out")))),
        S_sum("ls", S_unit_switch("lc", std::nullopt, "version"), S_product({S_arg("la", "src", vt::string_), S_option("lb", "o", "out", vt::string_, std::nullopt)})),
        alpha({"--out", "-o", "--version", "y"}));
  SHAPE("sum_two_products_with_options",
        (o::make_sum<ls>(o::apply(arg<la, int>("n"), op<lb, std::string>("o", "out")), o::apply(arg<lc, std::string>("s"), op<ld, std::string>("p", "pp")))),
        S_sum("ls", S_product({S_arg("la", "n", vt::int_), S_option("lb", "o", "out", vt::string_, std::nullopt)}),
              S_product({S_arg("lc", "s", vt::string_), S_option("ld", "p", "pp", vt::string_, std::nullopt)})),
        alpha({"--out", "-o", "--pp", "-p", "3"}));
  SHAPE("product_arg_sum_option_usw",
        (o::apply(arg<la, std::string>("src"), o::make_sum<ls>(op<lb, std::string>("o", "out"), usw<lc>(nullptr, "quiet")))),
        S_product({S_arg("la", "src", vt::string_), S_sum("ls", S_option("lb", "o", "out", vt::string_, std::nullopt), S_unit_switch("lc", std::nullopt, "quiet"))}),
        alpha({"--out", "-o", "--quiet", "y"}));
  SHAPE("product_arg_optional_sum_options",
        (o::apply(arg<la, std::string>("src"), o::make_optional(o::make_sum<ls>(op<lb, std::string>("o", "out"), op<lc, int>("l", "level"))))),
        S_product({S_arg("la", "src", vt::string_),
                   S_optional(S_sum("ls", S_option("lb", "o", "out", vt::string_, std::nullopt), S_option("lc", "l", "level", vt::int_, std::nullopt)))}),
        alpha({"--out", "-o", "--level", "-l", "3"}));
  SHAPE("many_product_arg_option",
        (o::make_many(o::apply(arg<la, std::string>("src"), op<lb, int>("l", "level")))),
        S_many(S_product({S_arg("la", "src", vt::string_), S_option("lb", "l", "level", vt::int_, std::nullopt)})), alpha({"--level", "-l", "3"}));
  SHAPE("commands_sum_in_options",
        (o::make_commands(o::make_optional(o::make_sum<ls>(op<la, std::string>("g", "git-dir"), usw<lb>(nullptr, "bare"))),
                          o::make_sub_command<tx>("run", arg<lc, std::string>("what"), o::optional_help_text{}))),
        S_commands(S_optional(S_sum("ls", S_option("la", "g", "git-dir", vt::string_, std::nullopt), S_unit_switch("lb", std::nullopt, "bare"))),
                   {{"run", "tx", S_arg("lc", "what", vt::string_)}}),
        alpha({"-g", "--git-dir", "--bare", "run"}));
  // Several parser OBJECTS of one C++ type with different names, used in turn within one process: what a parser accepts
  // depends on the object, never on another object of its type that was used before (labels are types, names are values).
  vrt::shard("shape/same_type_different_names", [] {
    auto const p1{o::apply(arg<lb, std::string>("b"), op<la, std::string>("o", "opt"))};
    auto const p2{o::apply(arg<lb, std::string>("b"), op<la, std::string>("p", "out"))};
    static_assert(std::is_same_v<decltype(p1), decltype(p2)>);
    auto const d1 = S_product({S_arg("lb", "b", vt::string_), S_option("la", "o", "opt", vt::string_, std::nullopt)});
    auto const d2 = S_product({S_arg("lb", "b", vt::string_), S_option("la", "p", "out", vt::string_, std::nullopt)});
    std::vector<std::string> const a{"-o", "--opt", "-p", "--out", "x", "7"};
    run_shape("same_type_first", p1, d1, a, 3);
    run_shape("same_type_second", p2, d2, a, 3);
    run_shape("same_type_first_again", p1, d1, a, 3);
    auto const f1{o::apply(sw<la>("f", "flag"), arg<lb, std::string>("b"))};
    auto const f2{o::apply(sw<la>("g", "gag"), arg<lb, std::string>("b"))};
    static_assert(std::is_same_v<decltype(f1), decltype(f2)>);
    std::vector<std::string> const fa{"-f", "--flag", "-g", "--gag", "x"};
    run_shape("same_type_switch_first", f1, S_product({S_switch("la", "f", "flag"), S_arg("lb", "b", vt::string_)}), fa, 3);
    run_shape("same_type_switch_second", f2, S_product({S_switch("la", "g", "gag"), S_arg("lb", "b", vt::string_)}), fa, 3);
    run_shape("same_type_switch_first_again", f1, S_product({S_switch("la", "f", "flag"), S_arg("lb", "b", vt::string_)}), fa, 3);
  }, 120);
}
}

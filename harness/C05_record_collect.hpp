// C05 -- collect() support for fcppt::record::object (elements in declaration order); include before using collect on records.
#pragma once
#include "C05_common.hpp"

#include <fcppt/record/object_impl.hpp>

namespace c05
{
template <class... Es> struct custom_collect<fcppt::record::object<Es...>> : std::true_type
{
  static void run(fcppt::record::object<Es...> const &_r, std::vector<item> &_out) { collect(_r.impl(), _out); }
};
}

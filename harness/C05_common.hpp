// C05 -- shared machinery of the value-conservation registry.
//
// * tracked_t<Copyable, Tag>: instrumented element type.  Every object carries the *identity* of the value
//   it holds (id: given at construction from a payload, transferred by moves AND by copies), the payload, and
//   a moved-from flag.  All special member functions are logged per id in a global log that is reset per
//   case; the payload is readable only through get(), which logs a read-after-move event when the object is
//   moved-from (operator==, operator<, hash, operator<< all go through get()).
//   tracked = tracked_t<true,0>; tracked_b / tracked_c are distinct copyable types (either needs
//   Failure != Success, variants need distinct alternatives); tracked_mo* are the move-only variants.
// * ctx: per-case oracle.  Arguments are snapshotted (ids, payloads) together with the value category they
//   will be passed as; after the call
//     - no id of an rvalue argument (or of a value created by a callback during the call) has been
//       copy-constructed / copy-assigned by the library,
//     - the result holds exactly the expected ids in the expected order (computed by the entry from the
//       snapshots: independent of fcppt), none of them moved-from, payloads unchanged,
//     - lvalue / const lvalue arguments are element-wise identical and not moved-from,
//     - no read-after-move event,
//     - after everything is destroyed the live-object balance is zero.
//   Move counts are reported as information only (max moves of one element per operation).
#pragma once
#include <vrt.hpp>

#include <fcppt/container/grid/object_fwd.hpp>
#include <fcppt/container/tree/object_fwd.hpp>
#include <fcppt/either/object_fwd.hpp>
#include <fcppt/optional/object_fwd.hpp>
#include <fcppt/tuple/object_fwd.hpp>
#include <fcppt/variant/object_fwd.hpp>

#include <cstddef>
#include <functional>
#include <istream>
#include <map>
#include <ostream>
#include <set>
#include <string>
#include <tuple>
#include <type_traits>
#include <utility>
#include <variant>
#include <vector>

namespace c05
{
// ------------------------------------------------------------------ the log
struct id_stats
{
  int copy_ctor = 0, move_ctor = 0, copy_assign = 0, move_assign = 0;
  int cb_copies = 0;         // copies made by the harness's own callbacks (not by the library)
  int lvalue_deliveries = 0; // times a callback received this value as an lvalue
  int rvalue_deliveries = 0;
};

struct log_t
{
  long live = 0;
  int next_id = 1;
  bool armed = false;
  bool in_callback_copy = false;
  std::map<int, id_stats> st;
  std::vector<std::string> ram; // read-after-move events
  long moves_of_moved_from = 0;
};

inline log_t &L()
{
  static log_t l;
  return l;
}

inline void reset_log()
{
  long const live = L().live;
  L() = log_t{};
  L().live = live; // must be zero between cases; checked by run_case
}

constexpr int poison = -999;

struct peek;

// C05_THROWING_MOVE (binary C05t): the element's move constructor is potentially throwing, so a library site that says
// std::move_if_noexcept (or otherwise chooses between copy and move by noexcept-ness) shows up as a copy.  That binary
// only runs shapes with at most one element: with more, reallocation inside std::vector itself copies such elements.
#ifdef C05_THROWING_MOVE
constexpr bool throwing_move = true;
#else
constexpr bool throwing_move = false;
#endif

template <bool Copyable, int Tag>
class tracked_t
{
public:
  tracked_t() : id_(L().next_id++), payload_(0), moved_(false) { ++L().live; }
  explicit tracked_t(int const _payload) : id_(L().next_id++), payload_(_payload), moved_(false) { ++L().live; }
  tracked_t(tracked_t const &_o) requires Copyable : id_(_o.id_), payload_(_o.payload_), moved_(_o.moved_)
  {
    ++L().live;
    if (L().armed)
    {
      if (L().in_callback_copy)
        ++L().st[id_].cb_copies;
      else
        ++L().st[id_].copy_ctor;
      if (_o.moved_)
        L().ram.push_back("copy-construction from moved-from object (id " + std::to_string(id_) + ")");
    }
  }
  tracked_t(tracked_t &&_o) noexcept(!throwing_move) : id_(_o.id_), payload_(_o.payload_), moved_(_o.moved_)
  {
    ++L().live;
    if (L().armed)
    {
      ++L().st[id_].move_ctor;
      if (_o.moved_)
        ++L().moves_of_moved_from;
    }
    _o.moved_ = true;
    _o.payload_ = poison;
  }
  tracked_t &operator=(tracked_t const &_o) requires Copyable
  {
    if (this != &_o)
    {
      id_ = _o.id_;
      payload_ = _o.payload_;
      moved_ = _o.moved_;
      if (L().armed)
      {
        ++L().st[id_].copy_assign;
        if (_o.moved_)
          L().ram.push_back("copy-assignment from moved-from object (id " + std::to_string(id_) + ")");
      }
    }
    return *this;
  }
  tracked_t &operator=(tracked_t &&_o) noexcept
  {
    if (this != &_o)
    {
      id_ = _o.id_;
      payload_ = _o.payload_;
      moved_ = _o.moved_;
      if (L().armed)
      {
        ++L().st[id_].move_assign;
        if (_o.moved_)
          ++L().moves_of_moved_from;
      }
      _o.moved_ = true;
      _o.payload_ = poison;
    }
    return *this;
  }
  ~tracked_t() { --L().live; }

  // the only way for code under test to read the payload
  [[nodiscard]] int get() const
  {
    if (moved_ && L().armed)
      L().ram.push_back("get() on moved-from object (id " + std::to_string(id_) + ")");
    return payload_;
  }

  friend bool operator==(tracked_t const &_a, tracked_t const &_b) { return _a.get() == _b.get(); }
  friend bool operator!=(tracked_t const &_a, tracked_t const &_b) { return _a.get() != _b.get(); }
  friend bool operator<(tracked_t const &_a, tracked_t const &_b) { return _a.get() < _b.get(); }
  friend std::ostream &operator<<(std::ostream &_s, tracked_t const &_a) { return _s << _a.get(); }
  friend std::istream &operator>>(std::istream &_s, tracked_t &_a)
  {
    int v = 0;
    if (_s >> v)
      _a = tracked_t(v);
    return _s;
  }

private:
  friend struct peek;
  int id_;
  int payload_;
  bool moved_;
};

// harness-side inspection (never logs)
struct peek
{
  template <bool C, int T> static int id(tracked_t<C, T> const &_t) { return _t.id_; }
  template <bool C, int T> static int payload(tracked_t<C, T> const &_t) { return _t.payload_; }
  template <bool C, int T> static bool moved(tracked_t<C, T> const &_t) { return _t.moved_; }
};

using tracked = tracked_t<true, 0>;
using tracked_b = tracked_t<true, 1>;
using tracked_c = tracked_t<true, 2>;
using tracked_mo = tracked_t<false, 0>;
using tracked_mo_b = tracked_t<false, 1>;
using tracked_mo_c = tracked_t<false, 2>;

static_assert(std::is_copy_constructible_v<tracked> && std::is_copy_assignable_v<tracked>);
static_assert(!std::is_copy_constructible_v<tracked_mo> && !std::is_copy_assignable_v<tracked_mo>);
static_assert(std::is_nothrow_move_constructible_v<tracked_mo> == !throwing_move && std::is_nothrow_move_assignable_v<tracked_mo>);

template <class T> struct is_tracked : std::false_type
{
};
template <bool C, int Tag> struct is_tracked<tracked_t<C, Tag>> : std::true_type
{
};

// ------------------------------------------------------------------ value categories
enum class cat
{
  lv,
  clv,
  rv
};
template <cat C> struct cat_c
{
  static constexpr cat value = C;
};
inline char const *cat_name(cat const c) { return c == cat::lv ? "lvalue" : c == cat::clv ? "const_lvalue" : "rvalue"; }

template <cat C, class T> constexpr decltype(auto) pass(T &_t)
{
  if constexpr (C == cat::lv)
    return (_t);
  else if constexpr (C == cat::clv)
    return std::as_const(_t);
  else
    return std::move(_t);
}

template <class F> void for_cat(F &&_f)
{
  _f(cat_c<cat::lv>{});
  _f(cat_c<cat::clv>{});
  _f(cat_c<cat::rv>{});
}
// operations that accept only (const) lvalues or only rvalues enumerate what they accept
template <class F> void for_cat_const_rv(F &&_f)
{
  _f(cat_c<cat::clv>{});
  _f(cat_c<cat::rv>{});
}

// ------------------------------------------------------------------ collecting the tracked elements of any value
struct item
{
  int id;
  int payload;
  bool moved;
};

template <class T> struct custom_collect : std::false_type // specialised for records in C05_record_collect.hpp
{
};

template <class T> struct is_fcppt_optional : std::false_type
{
};
template <class T> struct is_fcppt_optional<fcppt::optional::object<T>> : std::true_type
{
};
template <class T> struct is_fcppt_either : std::false_type
{
};
template <class F, class S> struct is_fcppt_either<fcppt::either::object<F, S>> : std::true_type
{
};
template <class T> struct is_fcppt_variant : std::false_type
{
};
template <class... Ts> struct is_fcppt_variant<fcppt::variant::object<Ts...>> : std::true_type
{
};
template <class T> struct is_fcppt_tuple : std::false_type
{
};
template <class... Ts> struct is_fcppt_tuple<fcppt::tuple::object<Ts...>> : std::true_type
{
};
template <class T> struct is_fcppt_tree : std::false_type
{
};
template <class T> struct is_fcppt_tree<fcppt::container::tree::object<T>> : std::true_type
{
};
template <class T> struct is_std_pair : std::false_type
{
};
template <class A, class B> struct is_std_pair<std::pair<A, B>> : std::true_type
{
};
template <class T> struct is_std_tuple : std::false_type
{
};
template <class... Ts> struct is_std_tuple<std::tuple<Ts...>> : std::true_type
{
};
template <class T>
concept range_like = requires(T const &t)
{
  t.begin();
  t.end();
};

template <class T> void collect(T const &_x, std::vector<item> &_out)
{
  if constexpr (is_tracked<T>::value)
    _out.push_back(item{peek::id(_x), peek::payload(_x), peek::moved(_x)});
  else if constexpr (custom_collect<T>::value)
    custom_collect<T>::run(_x, _out);
  else if constexpr (is_fcppt_optional<T>::value)
  {
    if (_x.has_value())
      collect(_x.get_unsafe(), _out);
  }
  else if constexpr (is_fcppt_either<T>::value)
  {
    if (_x.has_success())
      collect(_x.get_success_unsafe(), _out);
    else
      collect(_x.get_failure_unsafe(), _out);
  }
  else if constexpr (is_fcppt_variant<T>::value)
    std::visit([&_out](auto const &_v) { collect(_v, _out); }, _x.impl());
  else if constexpr (is_fcppt_tuple<T>::value)
    std::apply([&_out](auto const &..._v) { (collect(_v, _out), ...); }, _x.impl());
  else if constexpr (is_std_tuple<T>::value)
    std::apply([&_out](auto const &..._v) { (collect(_v, _out), ...); }, _x);
  else if constexpr (is_std_pair<T>::value)
  {
    collect(_x.first, _out);
    collect(_x.second, _out);
  }
  else if constexpr (is_fcppt_tree<T>::value)
  {
    collect(_x.value(), _out);
    for (auto const &c : _x.children())
      collect(c, _out);
  }
  else if constexpr (range_like<T> && !std::is_same_v<T, std::string>)
  {
    for (auto const &e : _x)
      collect(e, _out);
  }
  else
  {
    // plain data (int, bool, unit, strings, ...): carries no tracked element
  }
}

template <class T> std::vector<item> items_of(T const &_x)
{
  std::vector<item> r;
  collect(_x, r);
  return r;
}
template <class T> std::vector<int> ids_of(T const &_x)
{
  std::vector<int> r;
  for (item const &i : items_of(_x))
    r.push_back(i.id);
  return r;
}
inline std::vector<int> operator+(std::vector<int> _a, std::vector<int> const &_b)
{
  _a.insert(_a.end(), _b.begin(), _b.end());
  return _a;
}
inline std::string show(std::vector<int> const &_v)
{
  std::string r = "[";
  for (std::size_t i = 0; i < _v.size(); ++i)
    r += (i ? "," : "") + std::to_string(_v[i]);
  return r + "]";
}

// ------------------------------------------------------------------ callbacks
// Every callback the harness hands to fcppt takes its arguments as auto&& and calls take(): it records the value
// category in which the element was delivered and then builds a value from it (a move for an rvalue, a copy --
// booked as the callback's own copy, not the library's -- for an lvalue).
template <class X> std::remove_cvref_t<X> take(X &&_x)
{
  using T = std::remove_cvref_t<X>;
  static_assert(is_tracked<T>::value);
  if constexpr (std::is_lvalue_reference_v<X>)
  {
    if (L().armed)
      ++L().st[peek::id(_x)].lvalue_deliveries;
    L().in_callback_copy = true;
    T r(_x);
    L().in_callback_copy = false;
    return r;
  }
  else
  {
    if (L().armed)
      ++L().st[peek::id(_x)].rvalue_deliveries;
    return T(std::move(_x));
  }
}
// only note the delivery category (for callbacks that do not keep the element)
template <class X> void note(X &&_x)
{
  if (!L().armed)
    return;
  if constexpr (std::is_lvalue_reference_v<X>)
    ++L().st[peek::id(_x)].lvalue_deliveries;
  else
    ++L().st[peek::id(_x)].rvalue_deliveries;
}

// ------------------------------------------------------------------ bookkeeping across cases
inline char const *intern(std::string const &_s)
{
  static std::set<std::string> table;
  return table.insert(_s).first->c_str();
}
inline std::map<std::string, int> &max_moves()
{
  static std::map<std::string, int> m;
  return m;
}
// call at the end of every shard: max number of moves of one element of an rvalue argument, per operation (information)
inline void flush_info()
{
  for (auto const &kv : max_moves())
    vrt::count("info:max_moves_of_one_rvalue_element:" + kv.first, static_cast<std::uint64_t>(kv.second));
  max_moves().clear();
}

// ------------------------------------------------------------------ per-case oracle
class ctx
{
public:
  explicit ctx(std::string _op) : op_(std::move(_op)) {}

  // register an argument before the call; _c is the category it will be passed as
  template <class T> void arg(std::string const &_name, cat const _c, T const &_obj)
  {
    arg_rec a;
    a.name = _name;
    a.c = _c;
    a.before = items_of(_obj);
    for (item const &i : a.before)
    {
      VRT_CHECK(!i.moved, "harness:arg_moved_from", "argument %s already moved-from", _name.c_str());
      if (_c == cat::rv)
        rvalue_origin_[i.id] = _name;
      else
        lvalue_origin_[i.id] = _name;
    }
    args_.push_back(std::move(a));
  }
  // an argument taken by non-const reference that the operation is documented to modify: its elements may be
  // moved out, but never copied
  template <class T> void inout(std::string const &_name, T const &_obj)
  {
    for (item const &i : items_of(_obj))
      rvalue_origin_[i.id] = _name;
  }

  // elements of an rvalue argument that the operation cannot avoid copying (const keys of node-based maps, elements
  // of sets reached through const iterators): still expected in the result, copies are not held against the library
  void tolerate_copies(std::vector<int> const &_ids)
  {
    for (int i : _ids)
    {
      auto const it = rvalue_origin_.find(i);
      if (it != rvalue_origin_.end())
      {
        lvalue_origin_[i] = it->second + " (copy tolerated)";
        rvalue_origin_.erase(it);
      }
    }
  }

  void arm()
  {
    first_fresh_id_ = L().next_id;
    L().st.clear();
    L().ram.clear();
    L().moves_of_moved_from = 0;
    L().armed = true;
  }
  void disarm()
  {
    L().armed = false;
    // ids created during the call (by callbacks): prvalues handed to the library
    for (auto const &kv : L().st)
      if (kv.first >= first_fresh_id_)
        rvalue_origin_[kv.first] = "callback_result";
    for (auto const &kv : L().st)
    {
      id_stats const &s = kv.second;
      auto const it = rvalue_origin_.find(kv.first);
      if (it == rvalue_origin_.end())
        continue;
      // throwing-move binary: once a second tracked element exists in the case, std::vector's own reallocation
      // (move_if_noexcept) legitimately copies such elements; only cases with a single element are judged there
      if (throwing_move && L().next_id - 1 > 1)
      {
        if (s.copy_ctor + s.copy_assign != 0)
          vrt::count("info:throwing_move:copy_in_multi_element_case", 1);
      }
      else
      VRT_CHECK(s.copy_ctor + s.copy_assign == 0, op_ + ":" + it->second + ":rvalue_element_copied",
                "element id %d of rvalue argument '%s' was copied by the library: %d copy-ctor, %d copy-assign (%d move-ctor, %d "
                "move-assign)",
                kv.first, it->second.c_str(), s.copy_ctor, s.copy_assign, s.move_ctor, s.move_assign);
      VRT_CHECK(s.lvalue_deliveries == 0, op_ + ":" + it->second + ":rvalue_element_passed_as_lvalue",
                "element id %d of rvalue argument '%s' was handed to the callback as an lvalue %d time(s) (a callback taking its "
                "documented value_type parameter by value copies it; a move-only element cannot be consumed)",
                kv.first, it->second.c_str(), s.lvalue_deliveries);
      int const moves = s.move_ctor + s.move_assign;
      int &m = max_moves()[op_];
      if (moves > m)
        m = moves;
    }
    for (std::string const &e : L().ram)
      vrt::fail(op_ + ":read_after_move", e);
  }

  // the result (anything collect() understands) must hold exactly these ids in this order
  template <class R> void result_is(R const &_r, std::vector<int> const &_expected, char const *_what = "result")
  {
    result_items(items_of(_r), _expected, _what);
  }
  void result_items(std::vector<item> const &got, std::vector<int> const &_expected, char const *_what = "result")
  {
    std::vector<int> gid;
    for (item const &i : got)
      gid.push_back(i.id);
    std::map<int, int> ce, cg;
    for (int i : _expected)
      ++ce[i];
    for (int i : gid)
      ++cg[i];
    std::string const w = _what;
    bool ok = true;
    for (auto const &kv : ce)
      if (cg[kv.first] < kv.second)
      {
        ok = false;
        vrt::fail(op_ + ":" + w + ":element_lost", vrt::fmt("element id %d (%s) expected %d time(s), found %d; expected %s got %s", kv.first,
                                                        origin(kv.first).c_str(), kv.second, cg[kv.first], show(_expected).c_str(),
                                                        show(gid).c_str()));
      }
    for (auto const &kv : cg)
      if (kv.second > ce[kv.first])
      {
        ok = false;
        vrt::fail(op_ + ":" + w + (ce[kv.first] ? ":element_duplicated" : ":unexpected_element"),
                  vrt::fmt("element id %d (%s) expected %d time(s), found %d; expected %s got %s", kv.first, origin(kv.first).c_str(),
                           ce[kv.first], kv.second, show(_expected).c_str(), show(gid).c_str()));
      }
    if (ok)
      VRT_CHECK(gid == _expected, op_ + ":" + w + ":wrong_order", "expected %s got %s", show(_expected).c_str(), show(gid).c_str());
    for (item const &i : got)
    {
      VRT_CHECK(!i.moved, op_ + ":" + w + ":holds_moved_from_element", "element id %d in the %s is moved-from", i.id, _what);
      auto const p = payload_before(i.id);
      if (p.first && !i.moved)
        VRT_CHECK(p.second == i.payload, op_ + ":" + w + ":payload_changed", "element id %d: payload %d became %d", i.id, p.second,
                  i.payload);
    }
  }

  // after the call: an argument passed as lvalue / const lvalue is element-wise identical, nothing moved-from
  template <class T> void after(std::string const &_name, T const &_obj)
  {
    for (arg_rec const &a : args_)
    {
      if (a.name != _name)
        continue;
      if (a.c == cat::rv)
        return;
      std::vector<item> const now = items_of(_obj);
      std::string const sig = op_ + ":" + _name + ":" + cat_name(a.c) + "_modified";
      VRT_CHECK(now.size() == a.before.size(), sig, "argument '%s' passed as %s had %zu elements, now %zu", _name.c_str(), cat_name(a.c),
                a.before.size(), now.size());
      for (std::size_t i = 0; i < now.size() && i < a.before.size(); ++i)
      {
        VRT_CHECK(!now[i].moved, sig, "element %zu (id %d) of argument '%s' passed as %s is moved-from after the call", i, a.before[i].id,
                  _name.c_str(), cat_name(a.c));
        VRT_CHECK(now[i].id == a.before[i].id && (now[i].moved || now[i].payload == a.before[i].payload), sig,
                  "element %zu of argument '%s' passed as %s was (id %d, payload %d), now (id %d, payload %d)", i, _name.c_str(),
                  cat_name(a.c), a.before[i].id, a.before[i].payload, now[i].id, now[i].payload);
      }
      return;
    }
    vrt::fail("harness:after_unknown_arg", _name);
  }

  [[nodiscard]] std::string const &op() const { return op_; }
  [[nodiscard]] int first_fresh_id() const { return first_fresh_id_; }

private:
  struct arg_rec
  {
    std::string name;
    cat c;
    std::vector<item> before;
  };
  std::string origin(int const _id) const
  {
    auto it = rvalue_origin_.find(_id);
    if (it != rvalue_origin_.end())
      return "from rvalue '" + it->second + "'";
    it = lvalue_origin_.find(_id);
    if (it != lvalue_origin_.end())
      return "from lvalue '" + it->second + "'";
    return "unknown origin";
  }
  std::pair<bool, int> payload_before(int const _id) const
  {
    for (arg_rec const &a : args_)
      for (item const &i : a.before)
        if (i.id == _id)
          return {true, i.payload};
    return {false, 0};
  }
  std::string op_;
  std::vector<arg_rec> args_;
  std::map<int, std::string> rvalue_origin_, lvalue_origin_;
  int first_fresh_id_ = 0;
};

// One case = one (operation, shape, value categories).  _body builds the arguments, registers them, arms the log,
// calls fcppt, disarms and states the expectations.  Everything built by _body is destroyed before the balance check.
template <class Body> void run_case(std::string const &_op, std::string const &_descr, bool const _nontrivial, Body &&_body)
{
  if (!vrt::begin_text(intern(_op), _op + "(" + _descr + ")"))
    return;
  vrt::nontrivial(_nontrivial);
  vrt::maybe_sample();
  reset_log();
  long const live_before = L().live;
  {
    ctx c(_op);
    try
    {
      _body(c);
    }
    catch (std::exception const &e)
    {
      L().armed = false;
      vrt::fail(_op + ":exception:" + vrt::demangle(typeid(e).name()), e.what());
    }
    L().armed = false;
  }
  VRT_CHECK(L().live == live_before, _op + ":live_balance", "live tracked objects after the case: %ld (before: %ld)", L().live, live_before);
  L().live = 0; // a leak is reported once, for the case that leaked; the following cases start from a clean balance
}

inline std::string descr(std::initializer_list<std::pair<char const *, cat>> _cats, std::string const &_shape)
{
  std::string r = _shape;
  for (auto const &p : _cats)
    r += std::string(r.empty() ? "" : ", ") + p.first + ":" + cat_name(p.second);
  return r;
}

// ------------------------------------------------------------------ argument builders
template <class T = tracked> std::vector<T> make_vec(int const _n, int const _base = 10)
{
  std::vector<T> v;
  v.reserve(static_cast<std::size_t>(_n));
  for (int i = 0; i < _n; ++i)
    v.emplace_back(_base + i);
  return v;
}

// element counts of the shapes: empty / one / three (thorough adds two and five)
inline std::vector<int> sizes() { if (throwing_move) return std::vector<int>{0, 1}; return vrt::thorough() ? std::vector<int>{0, 1, 2, 3, 5} : std::vector<int>{0, 1, 3}; }

void register_algorithm_container_shards();
void register_grid_tree_shards();
void register_optional_shards();
void register_either_variant_shards();
void register_record_tuple_shards();
void register_array_shards();
void register_options_shards();
void register_parse_shards();
void register_nested_shards();
void register_assoc_shards();
}

namespace std
{
template <bool C, int Tag> struct hash<c05::tracked_t<C, Tag>>
{
  std::size_t operator()(c05::tracked_t<C, Tag> const &_t) const noexcept { return std::hash<int>{}(_t.get()); }
};
}

// C18 (part 2) -- grid spiral range and moore/neumann neighbour helpers.
// Engine E: every (origin, distance) / every position of the stated squares, compared with
// explicit point sets built by plain loops.
#include <vrt.hpp>

#include "C18_common.hpp"
#include "C18_protocol.hpp"

#include <fcppt/container/grid/make_spiral_range.hpp>
#include <fcppt/container/grid/moore_neighbor_array.hpp>
#include <fcppt/container/grid/moore_neighbors.hpp>
#include <fcppt/container/grid/neumann_neighbor_array.hpp>
#include <fcppt/container/grid/neumann_neighbors.hpp>
#include <fcppt/container/grid/pos.hpp>
#include <fcppt/container/grid/spiral_iterator_impl.hpp>
#include <fcppt/container/grid/spiral_range_impl.hpp>
#include <fcppt/math/vector/comparison.hpp>

#include <cstdint>
#include <cstdlib>
#include <iterator>
#include <type_traits>
#include <set>
#include <string>
#include <utility>
#include <vector>

namespace
{
using pt = std::pair<long long, long long>;

std::string show(std::vector<pt> const &s, std::size_t max = 24)
{
  std::string r;
  for (std::size_t i = 0; i < s.size() && i < max; ++i)
    r += "(" + std::to_string(s[i].first) + "," + std::to_string(s[i].second) + ")";
  if (s.size() > max)
    r += "...";
  return r;
}

// ------------------------------------------------------------------ spiral range
// Statement: visits every lattice point within Manhattan distance d of the origin exactly once,
// in rings of non-decreasing distance (so 2d^2+2d+1 points, the origin first).
template <class T, bool UseMake> void spiral_case(std::string const &name, long long ox, long long oy, long long d)
{
  using pos = fcppt::container::grid::pos<T, 2>;
  // reference: explicit point set
  std::set<pt> want;
  for (long long x = ox - d; x <= ox + d; ++x)
    for (long long y = oy - d; y <= oy + d; ++y)
      if (std::llabs(x - ox) + std::llabs(y - oy) <= d)
        want.insert({x, y});
  std::size_t const n = static_cast<std::size_t>(2 * d * d + 2 * d + 1);
  VRT_CHECK(want.size() == n, "harness:spiral_reference", "reference set has %zu points, formula says %zu", want.size(), n);

  pos const origin(static_cast<T>(ox), static_cast<T>(oy));
  fcppt::container::grid::spiral_range<pos> const r =
      UseMake ? fcppt::container::grid::make_spiral_range(origin, static_cast<T>(d))
              : fcppt::container::grid::spiral_range<pos>(origin, static_cast<T>(d));
  std::vector<pt> seq;
  bool overrun = false;
  auto const end = r.end();
  for (auto it = r.begin(); it != end; ++it)
  {
    if (seq.size() > n + 8) // a wrong state machine never meets end(): stop, do not hang
    {
      overrun = true;
      break;
    }
    pos const p = *it;
    seq.push_back({static_cast<long long>(p.x()), static_cast<long long>(p.y())});
  }
  VRT_CHECK(!overrun, name + ":overrun", "iteration did not reach end() after %zu points: %s", seq.size(), show(seq).c_str());
  if (overrun)
    return;
  VRT_CHECK(seq.size() == n, name + ":count", "visited %zu points, want %zu: %s", seq.size(), n, show(seq).c_str());
  if (!seq.empty())
    VRT_CHECK(seq.front() == pt(ox, oy), name + ":first", "first point (%lld,%lld) is not the origin", seq.front().first,
              seq.front().second);
  std::set<pt> seen;
  long long last = 0;
  for (std::size_t i = 0; i < seq.size(); ++i)
  {
    long long const dist = std::llabs(seq[i].first - ox) + std::llabs(seq[i].second - oy);
    VRT_CHECK(dist <= d, name + ":outside", "point %zu (%lld,%lld) has distance %lld > %lld", i, seq[i].first, seq[i].second,
              dist, d);
    VRT_CHECK(dist >= last, name + ":ring_order", "point %zu (%lld,%lld) has distance %lld after distance %lld", i, seq[i].first,
              seq[i].second, dist, last);
    last = dist;
    VRT_CHECK(seen.insert(seq[i]).second, name + ":duplicate", "point %zu (%lld,%lld) visited twice", i, seq[i].first,
              seq[i].second);
  }
  if (seen != want)
  {
    std::vector<pt> missing;
    for (pt const &p : want)
      if (!seen.count(p))
        missing.push_back(p);
    vrt::fail(name + ":missing", "points never visited: " + show(missing));
  }
}

template <class T> void spiral_all()
{
  static std::string const name = std::string("spiral_range<") + c18::tname<T>::v + ">";
  static std::string const name_m = std::string("make_spiral_range<") + c18::tname<T>::v + ">";
  int const omax = vrt::thorough() ? 3 : 2;
  int const dmax = vrt::thorough() ? (sizeof(T) == 1 ? 12 : 20) : 6;
  std::vector<pt> origins;
  for (int ox = -omax; ox <= omax; ++ox)
    for (int oy = -omax; oy <= omax; ++oy)
      origins.push_back({ox, oy});
  // a few origins far away from zero ("arbitrary origins"); all coordinates touched stay representable
  long long const far = sizeof(T) == 1 ? 100 : (sizeof(T) == 2 ? 30000 : 1000000);
  for (pt const &p : {pt(far, far), pt(-far, far), pt(far, -far), pt(-far, -far), pt(far, 0), pt(0, -far)})
    origins.push_back(p);
  for (pt const &o : origins)
    for (int d = 0; d <= dmax; ++d)
    {
      if (vrt::out_of_time())
        return;
      if (vrt::begin(name.c_str(), o.first, o.second, d))
      {
        vrt::nontrivial(d >= 1);
        vrt::maybe_sample();
        spiral_case<T, false>(name, o.first, o.second, d);
      }
      if (vrt::begin(name_m.c_str(), o.first, o.second, d))
      {
        vrt::nontrivial(d >= 1);
        spiral_case<T, true>(name_m, o.first, o.second, d);
      }
    }
}

// ------------------------------------------------------------------ neighbours
// Stated elements: von Neumann = the 4 positions at Manhattan distance 1; Moore = the 8 positions
// at Chebyshev distance 1. The order inside the array is not documented and not compared.
template <class T, class Array> std::vector<pt> to_points(Array const &a)
{
  std::vector<pt> r;
  for (auto const &p : a)
    r.push_back({static_cast<long long>(p.x()), static_cast<long long>(p.y())});
  return r;
}

template <class T> void neighbours_all(long long lo, long long hi)
{
  static std::string const n_moore = std::string("moore_neighbors<") + c18::tname<T>::v + ">";
  static std::string const n_neumann = std::string("neumann_neighbors<") + c18::tname<T>::v + ">";
  using pos = fcppt::container::grid::pos<T, 2>;
  for (long long x = lo; x <= hi; ++x)
    for (long long y = lo; y <= hi; ++y)
    {
      std::set<pt> want_m, want_n;
      for (int dx = -1; dx <= 1; ++dx)
        for (int dy = -1; dy <= 1; ++dy)
        {
          if (dx == 0 && dy == 0)
            continue;
          want_m.insert({x + dx, y + dy});
          if (dx == 0 || dy == 0)
            want_n.insert({x + dx, y + dy});
        }
      pos const p(static_cast<T>(x), static_cast<T>(y));
      if (vrt::begin(n_moore.c_str(), x, y))
      {
        vrt::nontrivial(true);
        vrt::maybe_sample();
        fcppt::container::grid::moore_neighbor_array<pos> const a = fcppt::container::grid::moore_neighbors(p);
        std::vector<pt> const got = to_points<T>(a);
        std::set<pt> const gs(got.begin(), got.end());
        VRT_CHECK(got.size() == 8, n_moore + ":count", "%zu elements", got.size());
        VRT_CHECK(gs.size() == got.size(), n_moore + ":duplicate", "duplicate neighbour in %s", show(got).c_str());
        VRT_CHECK(gs == want_m, n_moore + ":wrong", "got %s", show(got).c_str());
      }
      if (vrt::begin(n_neumann.c_str(), x, y))
      {
        vrt::nontrivial(true);
        fcppt::container::grid::neumann_neighbor_array<pos> const a = fcppt::container::grid::neumann_neighbors(p);
        std::vector<pt> const got = to_points<T>(a);
        std::set<pt> const gs(got.begin(), got.end());
        VRT_CHECK(got.size() == 4, n_neumann + ":count", "%zu elements", got.size());
        VRT_CHECK(gs.size() == got.size(), n_neumann + ":duplicate", "duplicate neighbour in %s", show(got).c_str());
        VRT_CHECK(gs == want_n, n_neumann + ":wrong", "got %s", show(got).c_str());
      }
    }
}
}

// Unsigned coordinates at the ends of the type's range: "No range checking is performed", i.e. the neighbours are
// computed with the position type's own arithmetic, which for an unsigned T is arithmetic modulo 2^bits (no overflow, so
// nothing undefined): 8 resp. 4 distinct positions, none of them the position itself, each x +- 1 / y +- 1 in T.
template <class T> void neighbours_unsigned_edges()
{
  static_assert(std::is_unsigned_v<T> && sizeof(T) >= sizeof(int));
  static std::string const n_moore = std::string("moore_neighbors<") + c18::tname<T>::v + ">/edge";
  static std::string const n_neumann = std::string("neumann_neighbors<") + c18::tname<T>::v + ">/edge";
  using pos = fcppt::container::grid::pos<T, 2>;
  T const mx = std::numeric_limits<T>::max();
  T const vals[] = {T(0), T(1), T(2), T(mx - 2), T(mx - 1), mx};
  for (int xi = 0; xi < 6; ++xi)
    for (int yi = 0; yi < 6; ++yi)
    {
      T const x = vals[xi], y = vals[yi];
      std::set<pt> want_m, want_n;
      for (int dx = -1; dx <= 1; ++dx)
        for (int dy = -1; dy <= 1; ++dy)
        {
          if (dx == 0 && dy == 0)
            continue;
          T const nx = static_cast<T>(dx < 0 ? x - T(1) : (dx > 0 ? x + T(1) : x));
          T const ny = static_cast<T>(dy < 0 ? y - T(1) : (dy > 0 ? y + T(1) : y));
          want_m.insert({static_cast<long long>(nx), static_cast<long long>(ny)});
          if (dx == 0 || dy == 0)
            want_n.insert({static_cast<long long>(nx), static_cast<long long>(ny)});
        }
      pos const p(x, y);
      if (vrt::begin(n_moore.c_str(), xi, yi))
      {
        vrt::nontrivial(xi == 0 || xi == 5 || yi == 0 || yi == 5);
        std::vector<pt> const got = to_points<T>(fcppt::container::grid::moore_neighbors(p));
        std::set<pt> const gs(got.begin(), got.end());
        VRT_CHECK(got.size() == 8 && gs.size() == 8, n_moore + ":duplicate", "not 8 distinct positions: %s", show(got).c_str());
        VRT_CHECK(gs == want_m, n_moore + ":wrong", "got %s", show(got).c_str());
      }
      if (vrt::begin(n_neumann.c_str(), xi, yi))
      {
        vrt::nontrivial(xi == 0 || xi == 5 || yi == 0 || yi == 5);
        std::vector<pt> const got = to_points<T>(fcppt::container::grid::neumann_neighbors(p));
        std::set<pt> const gs(got.begin(), got.end());
        VRT_CHECK(got.size() == 4 && gs.size() == 4, n_neumann + ":duplicate", "not 4 distinct positions: %s", show(got).c_str());
        VRT_CHECK(gs == want_n, n_neumann + ":wrong", "got %s", show(got).c_str());
      }
    }
}

namespace
{
// ------------------------------------------------------------------ iterator protocol (laws in C18_protocol.hpp)
template <class T> void spiral_protocol()
{
  static std::string const name = std::string("spiral_range<") + c18::tname<T>::v + ">";
  static std::string const tn = std::string("spiral_iterator<") + c18::tname<T>::v + ">";
  using pos = fcppt::container::grid::pos<T, 2>;
  using It = decltype(std::declval<fcppt::container::grid::spiral_range<pos> const &>().begin());
  if (vrt::begin(tn.c_str(), 0))
  {
    vrt::nontrivial(true);
    // detail/spiral_iterator_base.hpp: iterator::types<spiral_iterator<Pos>, Pos, Pos, value_type<Pos>, std::input_iterator_tag>
    using tr = std::iterator_traits<It>;
    if (!(std::is_same_v<typename tr::value_type, pos>)) vrt::count("info:" + tn + ":traits:value_type"); /* declared iterator traits are recorded, not judged: value_type is not Pos */
    if (!(std::is_same_v<typename tr::reference, pos>)) vrt::count("info:" + tn + ":traits:reference"); /* declared iterator traits are recorded, not judged: reference is not Pos */
    if (!(std::is_same_v<decltype(*std::declval<It const &>()), pos>)) vrt::count("info:" + tn + ":traits:reference"); /* declared iterator traits are recorded, not judged: operator* does not return Pos */
    if (!(std::is_same_v<typename tr::difference_type, T>)) vrt::count("info:" + tn + ":traits:difference_type"); /* declared iterator traits are recorded, not judged: difference_type is not the coordinate type */
    if (!(std::is_same_v<typename tr::iterator_category, std::input_iterator_tag>)) vrt::count("info:" + tn + ":traits:iterator_category"); /* declared iterator traits are recorded, not judged: category is not input */
  }
  int const dmax = vrt::thorough() ? 5 : 3;
  c18p::opts o;
  o.value_reference = true; // spiral_iterator_decl.hpp: reference is Pos (a value)
  for (int ox = -2; ox <= 2; ++ox)
    for (int oy = -2; oy <= 2; ++oy)
      for (int d = 0; d <= dmax; ++d)
      {
        if (!vrt::begin(name.c_str(), ox, oy, d))
          continue;
        vrt::nontrivial(d >= 1);
        vrt::maybe_sample();
        // the model sequence: rings of increasing distance; inside a ring the order is the one fixed by the
        // sequence check of spiral_case (set + ring order); here the sequence itself is taken from one
        // `it != end` walk (verified above against the point set) and the *protocol* is checked against it
        fcppt::container::grid::spiral_range<pos> const r(pos(static_cast<T>(ox), static_cast<T>(oy)), static_cast<T>(d));
        std::vector<pt> model;
        std::size_t const n = static_cast<std::size_t>(2 * d * d + 2 * d + 1);
        {
          auto const end = r.end();
          for (auto it = r.begin(); it != end && model.size() <= n; ++it)
          {
            pos const p = *it;
            model.push_back({static_cast<long long>(p.x()), static_cast<long long>(p.y())});
          }
        }
        if (model.size() != n)
        {
          vrt::fail(name + ":proto:model", vrt::fmt("plain walk saw %zu points, want %zu", model.size(), n));
          continue;
        }
        c18p::check_fresh(name, [&r] { return r.begin(); }, [&r] { return r.end(); }, model,
                    [](pos const &p) { return pt(static_cast<long long>(p.x()), static_cast<long long>(p.y())); }, o);
      }
}

template <class T> void neighbour_array_protocol()
{
  static std::string const n_m = std::string("moore_neighbor_array<") + c18::tname<T>::v + ">";
  static std::string const n_n = std::string("neumann_neighbor_array<") + c18::tname<T>::v + ">";
  using pos = fcppt::container::grid::pos<T, 2>;
  auto const keyof = [](pos const &p) { return pt(static_cast<long long>(p.x()), static_cast<long long>(p.y())); };
  for (int x = 1; x <= 4; ++x)
    for (int y = 1; y <= 4; ++y)
    {
      pos const p(static_cast<T>(x), static_cast<T>(y));
      if (vrt::begin(n_m.c_str(), x, y))
      {
        vrt::nontrivial(true);
        auto a = fcppt::container::grid::moore_neighbors(p);
        auto const &ca = a;
        std::vector<pt> model;
        for (std::size_t i = 0; i < a.size(); ++i)
          model.push_back(keyof(ca.get_unsafe(i)));
        c18p::check(n_m, a.begin(), a.end(), model, keyof, c18p::opts{});
        c18p::check(n_m + ":const", ca.begin(), ca.end(), model, keyof, c18p::opts{});
      }
      if (vrt::begin(n_n.c_str(), x, y))
      {
        vrt::nontrivial(true);
        auto a = fcppt::container::grid::neumann_neighbors(p);
        auto const &ca = a;
        std::vector<pt> model;
        for (std::size_t i = 0; i < a.size(); ++i)
          model.push_back(keyof(ca.get_unsafe(i)));
        c18p::check(n_n, a.begin(), a.end(), model, keyof, c18p::opts{});
        c18p::check(n_n + ":const", ca.begin(), ca.end(), model, keyof, c18p::opts{});
      }
    }
}
}

namespace c18
{
void register_grid_shards()
{
  vrt::shard("protocol:spiral", [] {
    spiral_protocol<int>();
    spiral_protocol<long>();
    spiral_protocol<short>();
    spiral_protocol<std::int8_t>();
  });
  vrt::shard("protocol:neighbour_arrays", [] {
    neighbour_array_protocol<int>();
    neighbour_array_protocol<unsigned>();
  });
  vrt::shard("spiral<int>", [] { spiral_all<int>(); });
  vrt::shard("spiral<long>", [] { spiral_all<long>(); });
  vrt::shard("spiral<short>", [] { spiral_all<short>(); });
  vrt::shard("spiral<i8>", [] { spiral_all<std::int8_t>(); });
  vrt::shard("neighbours", [] {
    long long const r = vrt::thorough() ? 40 : 8;
    neighbours_all<int>(-r, r);
    neighbours_all<long>(-r, r);
    // unsigned positions: x-1 is only meaningful for x >= 1 ("no range checking is performed")
    neighbours_all<unsigned>(1, 2 * r + 1);
    neighbours_all<unsigned long>(1, 2 * r + 1);
    neighbours_unsigned_edges<unsigned>();
    neighbours_unsigned_edges<unsigned long>();
  });
}
}

// C05 -- value conservation: fcppt::optional combinators.
#include "C05_common.hpp"

#include <fcppt/make_cref.hpp>
#include <fcppt/make_ref.hpp>
#include <fcppt/reference_impl.hpp>
#include <fcppt/optional/alternative.hpp>
#include <fcppt/optional/apply.hpp>
#include <fcppt/optional/assign.hpp>
#include <fcppt/optional/bind.hpp>
#include <fcppt/optional/cat.hpp>
#include <fcppt/optional/combine.hpp>
#include <fcppt/optional/copy_value.hpp>
#include <fcppt/optional/filter.hpp>
#include <fcppt/optional/from.hpp>
#include <fcppt/optional/join.hpp>
#include <fcppt/optional/make.hpp>
#include <fcppt/optional/make_if.hpp>
#include <fcppt/optional/map.hpp>
#include <fcppt/optional/maybe.hpp>
#include <fcppt/optional/maybe_multi.hpp>
#include <fcppt/optional/maybe_void.hpp>
#include <fcppt/optional/maybe_void_multi.hpp>
#include <fcppt/optional/object_impl.hpp>
#include <fcppt/optional/reference.hpp>
#include <fcppt/optional/sequence.hpp>
#include <fcppt/optional/to_container.hpp>
#include <fcppt/optional/to_exception.hpp>

#include <stdexcept>

namespace
{
using namespace c05;
using opt = fcppt::optional::object<tracked>;
using opt_b = fcppt::optional::object<tracked_b>;
using vec = std::vector<tracked>;

template <class T = tracked> fcppt::optional::object<T> mk(bool present, int payload)
{
  return present ? fcppt::optional::object<T>{T(payload)} : fcppt::optional::object<T>{};
}
std::string pa(bool p) { return p ? "present" : "absent"; }

#define FWD(e) std::forward<decltype(e)>(e)

void optional_unary()
{
  for (int p = 0; p < 2; ++p)
    for_cat([&](auto c) {
      constexpr cat C = decltype(c)::value;
      std::string const d = descr({{"optional", C}}, pa(p));
      run_case("optional::object(value)", descr({{"value", C}}, ""), true, [&](ctx &x) {
        tracked v(7);
        x.arg("value", C, v);
        x.arm();
        opt r(pass<C>(v));
        x.disarm();
        x.result_is(r, ids_of(v));
        x.after("value", v);
      });
      run_case("optional::object(optional)", d, p, [&](ctx &x) {
        opt o = mk(p, 7);
        x.arg("optional", C, o);
        std::vector<int> const want = ids_of(o);
        x.arm();
        opt r(pass<C>(o));
        x.disarm();
        x.result_is(r, want);
        x.after("optional", o);
      });
      run_case("optional::map", d, p, [&](ctx &x) {
        opt o = mk(p, 7);
        std::vector<int> const want = ids_of(o);
        x.arg("optional", C, o);
        x.arm();
        opt r = fcppt::optional::map(pass<C>(o), [](auto &&e) { return take(FWD(e)); });
        x.disarm();
        x.result_is(r, want);
        x.after("optional", o);
      });
      for (int keep = 0; keep < 2; ++keep)
      {
        run_case("optional::bind", d + (keep ? " f=some" : " f=nothing"), p, [&](ctx &x) {
          opt o = mk(p, 7);
          std::vector<int> const want = keep ? ids_of(o) : std::vector<int>{};
          x.arg("optional", C, o);
          x.arm();
          opt r = fcppt::optional::bind(pass<C>(o), [keep](auto &&e) {
            note(FWD(e));
            return keep ? opt{take(FWD(e))} : opt{};
          });
          x.disarm();
          x.result_is(r, want);
          x.after("optional", o);
        });
        run_case("optional::filter", d + (keep ? " pred=true" : " pred=false"), p, [&](ctx &x) {
          opt o = mk(p, 7);
          std::vector<int> const want = keep ? ids_of(o) : std::vector<int>{};
          x.arg("optional", C, o);
          x.arm();
          opt r = fcppt::optional::filter(pass<C>(o), [keep](tracked const &e) { return e.get() == 7 && keep; });
          x.disarm();
          x.result_is(r, want);
          x.after("optional", o);
        });
      }
      run_case("optional::maybe", d, p, [&](ctx &x) {
        opt o = mk(p, 7);
        x.arg("optional", C, o);
        int fresh = -1;
        x.arm();
        tracked r = fcppt::optional::maybe(
            pass<C>(o),
            [&fresh] {
              tracked t(99);
              fresh = peek::id(t);
              return t;
            },
            [](auto &&e) { return take(FWD(e)); });
        x.disarm();
        x.result_is(r, p ? ids_of(o) : std::vector<int>{fresh});
        x.after("optional", o);
      });
      run_case("optional::maybe_void", d, p, [&](ctx &x) {
        opt o = mk(p, 7);
        x.arg("optional", C, o);
        vec sink;
        sink.reserve(1);
        x.arm();
        fcppt::optional::maybe_void(pass<C>(o), [&sink](auto &&e) { sink.push_back(take(FWD(e))); });
        x.disarm();
        x.result_is(sink, ids_of(o));
        x.after("optional", o);
      });
      run_case("optional::from", d, p, [&](ctx &x) {
        opt o = mk(p, 7);
        x.arg("optional", C, o);
        int fresh = -1;
        x.arm();
        tracked r = fcppt::optional::from(pass<C>(o), [&fresh] {
          tracked t(99);
          fresh = peek::id(t);
          return t;
        });
        x.disarm();
        x.result_is(r, p ? ids_of(o) : std::vector<int>{fresh});
        x.after("optional", o);
      });
      for (int alt = 0; alt < 2; ++alt)
        run_case("optional::alternative", d + (alt ? " alt=some" : " alt=nothing"), p || alt, [&](ctx &x) {
          opt o = mk(p, 7);
          x.arg("optional", C, o);
          int fresh = -1, calls = 0;
          x.arm();
          opt r = fcppt::optional::alternative(pass<C>(o), [&] {
            ++calls;
            if (!alt)
              return opt{};
            tracked t(99);
            fresh = peek::id(t);
            return opt{std::move(t)};
          });
          x.disarm();
          // whether the second alternative is evaluated when it is not needed is not promised: information only
          if (calls != (p ? 0 : 1))
            vrt::count("info:" + x.op() + ":second_alternative_evaluated_although_not_needed");
          x.result_is(r, p ? ids_of(o) : alt ? std::vector<int>{fresh} : std::vector<int>{});
          x.after("optional", o);
        });
      run_case("optional::to_container", d, p, [&](ctx &x) {
        opt o = mk(p, 7);
        std::vector<int> const want = ids_of(o);
        x.arg("optional", C, o);
        x.arm();
        vec r = fcppt::optional::to_container<vec>(pass<C>(o));
        x.disarm();
        x.result_is(r, want);
        x.after("optional", o);
      });
      run_case("optional::to_exception", d, p, [&](ctx &x) {
        opt o = mk(p, 7);
        std::vector<int> const want = ids_of(o);
        x.arg("optional", C, o);
        vec sink;
        sink.reserve(1);
        bool thrown = false;
        x.arm();
        try
        {
          // the result is T& for an lvalue optional, T&& for an rvalue: consume it the way a caller would
          sink.push_back(take(fcppt::optional::to_exception(pass<C>(o), [] { return std::runtime_error("none"); })));
        }
        catch (std::runtime_error const &)
        {
          thrown = true;
        }
        x.disarm();
        VRT_CHECK(thrown == !p, x.op() + ":throw", "thrown=%d present=%d", int(thrown), p);
        x.result_is(sink, want);
        x.after("optional", o);
      });
      for (int inner = 0; inner < 2; ++inner)
        run_case("optional::join", d + (inner ? " inner=present" : " inner=absent"), p && inner, [&](ctx &x) {
          using oo = fcppt::optional::object<opt>;
          oo o = p ? oo{mk(inner, 7)} : oo{};
          std::vector<int> const want = ids_of(o);
          x.arg("optional", C, o);
          x.arm();
          opt r = fcppt::optional::join(pass<C>(o));
          x.disarm();
          x.result_is(r, want);
          x.after("optional", o);
        });
    });
}

void optional_misc()
{
  for (int p = 0; p < 2; ++p)
  {
    run_case("optional::assign", descr({{"arg", cat::rv}}, "target " + pa(p)), true, [&](ctx &x) {
      opt o = mk(p, 7);
      tracked v(8);
      x.inout("optional", o);
      x.arg("arg", cat::rv, v);
      x.arm();
      tracked &r = fcppt::optional::assign(o, std::move(v));
      x.disarm();
      x.result_is(o, ids_of(v), "optional");
      VRT_CHECK(&r == &o.get_unsafe(), x.op() + ":returned_reference", "does not refer to the optional's content");
    });
    for (int ci = 0; ci < 2; ++ci)
      run_case("optional::copy_value", descr({{"referee", ci ? cat::clv : cat::lv}}, pa(p)), p, [&](ctx &x) {
        tracked v(8);
        x.arg("referee", ci ? cat::clv : cat::lv, v);
        if (ci)
        {
          fcppt::optional::reference<tracked const> const ref =
              p ? fcppt::optional::reference<tracked const>{fcppt::make_cref(v)} : fcppt::optional::reference<tracked const>{};
          x.arm();
          opt r = fcppt::optional::copy_value(ref);
          x.disarm();
          x.result_is(r, p ? ids_of(v) : std::vector<int>{});
        }
        else
        {
          fcppt::optional::reference<tracked> const ref =
              p ? fcppt::optional::reference<tracked>{fcppt::make_ref(v)} : fcppt::optional::reference<tracked>{};
          x.arm();
          opt r = fcppt::optional::copy_value(ref);
          x.disarm();
          x.result_is(r, p ? ids_of(v) : std::vector<int>{});
        }
        x.after("referee", v);
      });
    run_case("optional::make_if", p ? "true" : "false", p, [&](ctx &x) {
      int fresh = -1, calls = 0;
      x.arm();
      opt r = fcppt::optional::make_if(p != 0, [&] {
        ++calls;
        tracked t(99);
        fresh = peek::id(t);
        return t;
      });
      x.disarm();
      if (calls != p) // not promised: information only
        vrt::count("info:" + x.op() + ":function_calls_differ_from_is_set");
      x.result_is(r, p ? std::vector<int>{fresh} : std::vector<int>{});
    });
    for_cat([&](auto c) {
      constexpr cat C = decltype(c)::value;
      run_case("optional::make", descr({{"value", C}}, ""), true, [&](ctx &x) {
        tracked v(7);
        x.arg("value", C, v);
        x.arm();
        opt r = fcppt::optional::make(pass<C>(v));
        x.disarm();
        x.result_is(r, ids_of(v));
        x.after("value", v);
      });
    });
  }
}

void optional_binary()
{
  for (int p1 = 0; p1 < 2; ++p1)
    for (int p2 = 0; p2 < 2; ++p2)
      for_cat([&](auto c1) {
        for_cat([&](auto c2) {
          constexpr cat C1 = decltype(c1)::value;
          constexpr cat C2 = decltype(c2)::value;
          std::string const d = descr({{"optional1", C1}, {"optional2", C2}}, pa(p1) + "," + pa(p2));
          bool const both = p1 && p2;
          run_case("optional::apply/2", d, both, [&](ctx &x) {
            opt a = mk(p1, 7);
            opt_b b = mk<tracked_b>(p2, 8);
            x.arg("optional1", C1, a);
            x.arg("optional2", C2, b);
            x.arm();
            fcppt::optional::object<std::pair<tracked, tracked_b>> r = fcppt::optional::apply(
                [](auto &&e1, auto &&e2) { return std::pair<tracked, tracked_b>(take(FWD(e1)), take(FWD(e2))); }, pass<C1>(a), pass<C2>(b));
            x.disarm();
            x.result_is(r, both ? ids_of(a) + ids_of(b) : std::vector<int>{});
            x.after("optional1", a);
            x.after("optional2", b);
          });
          run_case("optional::maybe_multi/2", d, both, [&](ctx &x) {
            opt a = mk(p1, 7);
            opt_b b = mk<tracked_b>(p2, 8);
            x.arg("optional1", C1, a);
            x.arg("optional2", C2, b);
            std::vector<int> fresh;
            x.arm();
            std::pair<tracked, tracked_b> r = fcppt::optional::maybe_multi(
                [&fresh] {
                  std::pair<tracked, tracked_b> d0(tracked(90), tracked_b(91));
                  fresh = ids_of(d0);
                  return d0;
                },
                [](auto &&e1, auto &&e2) { return std::pair<tracked, tracked_b>(take(FWD(e1)), take(FWD(e2))); }, pass<C1>(a), pass<C2>(b));
            x.disarm();
            x.result_is(r, both ? ids_of(a) + ids_of(b) : fresh);
            x.after("optional1", a);
            x.after("optional2", b);
          });
          run_case("optional::maybe_void_multi/2", d, both, [&](ctx &x) {
            opt a = mk(p1, 7);
            opt_b b = mk<tracked_b>(p2, 8);
            x.arg("optional1", C1, a);
            x.arg("optional2", C2, b);
            std::vector<std::pair<tracked, tracked_b>> sink;
            sink.reserve(1);
            x.arm();
            fcppt::optional::maybe_void_multi(
                [&sink](auto &&e1, auto &&e2) { sink.emplace_back(take(FWD(e1)), take(FWD(e2))); }, pass<C1>(a), pass<C2>(b));
            x.disarm();
            x.result_is(sink, both ? ids_of(a) + ids_of(b) : std::vector<int>{});
            x.after("optional1", a);
            x.after("optional2", b);
          });
          run_case("optional::combine", d, p1 || p2, [&](ctx &x) {
            opt a = mk(p1, 7);
            opt b = mk(p2, 8);
            x.arg("optional1", C1, a);
            x.arg("optional2", C2, b);
            // the combining function keeps its first argument and drops the second
            x.arm();
            opt r = fcppt::optional::combine(pass<C1>(a), pass<C2>(b), [](auto &&e1, auto &&e2) {
              note(FWD(e2));
              return take(FWD(e1));
            });
            x.disarm();
            x.result_is(r, p1 ? ids_of(a) : ids_of(b));
            x.after("optional1", a);
            x.after("optional2", b);
          });
        });
      });
}

void optional_ranges()
{
  for (int n : sizes())
    for (int mask = 0; mask < (1 << (n < 3 ? n : 3)); ++mask) // bit i set: element i is nothing (elements >= 3 are present)
      for_cat([&](auto c) {
        constexpr cat C = decltype(c)::value;
        std::string const d = descr({{"source", C}}, "n=" + std::to_string(n) + " nothing_mask=" + std::to_string(mask));
        auto const build = [&] {
          std::vector<opt> v;
          v.reserve(static_cast<std::size_t>(n));
          for (int i = 0; i < n; ++i)
            v.push_back(mk(!(i < 3 && (mask >> i & 1)), 10 + i));
          return v;
        };
        run_case("optional::cat", d, n > 0 && mask != (1 << n) - 1, [&](ctx &x) {
          std::vector<opt> v = build();
          std::vector<int> const want = ids_of(v);
          x.arg("source", C, v);
          x.arm();
          vec r = fcppt::optional::cat<vec>(pass<C>(v));
          x.disarm();
          x.result_is(r, want);
          x.after("source", v);
        });
        run_case("optional::sequence", d, n > 0 && mask == 0, [&](ctx &x) {
          std::vector<opt> v = build();
          std::vector<int> const want = mask == 0 ? ids_of(v) : std::vector<int>{};
          x.arg("source", C, v);
          x.arm();
          fcppt::optional::object<vec> r = fcppt::optional::sequence<vec>(pass<C>(v));
          x.disarm();
          VRT_CHECK(r.has_value() == (mask == 0), x.op() + ":result:has_value", "has_value=%d mask=%d", int(r.has_value()), mask);
          x.result_is(r, want);
          x.after("source", v);
        });
      });
}
}

namespace c05
{
void register_optional_shards()
{
  vrt::shard("optional/unary", [] {
    optional_unary();
    optional_misc();
    flush_info();
  });
  vrt::shard("optional/binary", [] {
    optional_binary();
    flush_info();
  });
  vrt::shard("optional/ranges", [] {
    optional_ranges();
    flush_info();
  });
}
}

// C10, part c: enums with 16 and 17 enumerators (structured family)
#include "C10_common.hpp"

namespace c10
{
void register_c()
{
  register_enum<e16, 16>("e16", 1, 4);
  register_enum<e17, 17>("e17", 1, 4);
}
}

// C01, part 6: every registered function that reads from a std::basic_istream is driven with every answer the stream
// and its buffer can give.
//
// scripted_buf serves a text in chunks of 1..3 characters and, at its k-th refill event (underflow / uflow / xsgetn),
// answers from a menu: normal, end-of-file (once or from then on), throws std::ios_base::failure (once / from then
// on), throws a type that is not derived from std::exception (once / from then on).  The stream in front of it starts
// in every state (good, failbit, badbit, eofbit) with every exception mask (none, badbit, failbit|badbit,
// eofbit|failbit|badbit).  In addition: std::ifstream / std::wifstream on a directory, on a missing path, on a file.
//
// Oracle (C01): the call returns -- failure only through the empty optional / either failure -- and nothing escapes,
// except what the *caller* asked the stream for: with a non-empty exceptions() mask std::ios_base::failure is the
// standard's documented channel, and with badbit in the mask the standard rethrows the buffer's own exception.
// Consistency: with normal answers on a good stream the result equals the obvious expectation and the result of the
// same call on a std::istringstream (chunking must not matter); otherwise a returned value never contains characters
// the buffer did not deliver.
#include "C01_common.hpp"

#include <fcppt/either/object_impl.hpp>
#include <fcppt/io/buffer.hpp>
#include <fcppt/io/extract.hpp>
#include <fcppt/io/get.hpp>
#include <fcppt/io/optional_buffer.hpp>
#include <fcppt/io/peek.hpp>
#include <fcppt/io/read.hpp>
#include <fcppt/io/read_chars.hpp>
#include <fcppt/io/stream_to_string.hpp>
#include <fcppt/container/raw_vector/object_impl.hpp>
#include <fcppt/optional/object_impl.hpp>
#include <fcppt/parse/char_set.hpp>
#include <fcppt/parse/int.hpp>
#include <fcppt/parse/make_lexeme.hpp>
#include <fcppt/parse/parse_stream.hpp>
#include <fcppt/parse/phrase_parse_stream.hpp>
#include <fcppt/parse/operators/repetition.hpp>
#include <fcppt/parse/operators/repetition_plus.hpp>
#include <fcppt/parse/skipper/space.hpp>

#include <bit>
#include <filesystem>
#include <fstream>
#include <functional>
#include <ios>
#include <istream>
#include <sstream>
#include <streambuf>
#include <string>

using namespace c01;

namespace
{
enum class ans
{
  normal,
  eof_sticky,
  eof_once,
  fail_sticky,
  fail_once,
  foreign_sticky,
  foreign_once
};
char const *const ans_names[] = {"normal", "eof from then on", "eof once", "throws ios_base::failure from then on", "throws ios_base::failure once",
                                 "throws foreign_error from then on", "throws foreign_error once"};

struct foreign_error // deliberately not derived from std::exception
{
  int event;
};

template <class Ch> class scripted_buf : public std::basic_streambuf<Ch>
{
public:
  using base = std::basic_streambuf<Ch>;
  using traits = typename base::traits_type;
  using int_type = typename base::int_type;
  using pos_type = typename base::pos_type;
  using off_type = typename base::off_type;

  scripted_buf(std::basic_string<Ch> text, std::size_t chunk, int k, ans a) : text_(std::move(text)), chunk_(chunk), k_(k), a_(a)
  {
    this->setg(area_, area_, area_);
  }
  int events() const { return events_; }

protected:
  int_type underflow() override
  {
    if (this->gptr() < this->egptr())
      return traits::to_int_type(*this->gptr());
    if (deviate())
      return traits::eof();
    if (next_ >= text_.size())
      return traits::eof();
    std::size_t const n = std::min(chunk_, text_.size() - next_);
    for (std::size_t i = 0; i < n; ++i)
      area_[i] = text_[next_ + i];
    next_ += n;
    this->setg(area_, area_, area_ + n);
    return traits::to_int_type(area_[0]);
  }
  // uflow: the default (underflow, then advance) -- its refill is the underflow event above
  std::streamsize xsgetn(Ch *s, std::streamsize n) override
  {
    if (deviate())
      return 0;
    return base::xsgetn(s, n); // refills through underflow: further events
  }
  pos_type seekoff(off_type off, std::ios_base::seekdir dir, std::ios_base::openmode) override
  {
    off_type const cur = static_cast<off_type>(next_) - static_cast<off_type>(this->egptr() - this->gptr());
    off_type const target = dir == std::ios_base::beg ? off : dir == std::ios_base::cur ? cur + off : static_cast<off_type>(text_.size()) + off;
    if (target < 0 || target > static_cast<off_type>(text_.size()))
      return pos_type(off_type(-1));
    next_ = static_cast<std::size_t>(target);
    this->setg(area_, area_, area_);
    return pos_type(target);
  }
  pos_type seekpos(pos_type pos, std::ios_base::openmode which) override { return seekoff(off_type(pos), std::ios_base::beg, which); }

private:
  // true: answer end-of-file now; may throw instead
  bool deviate()
  {
    ++events_;
    bool const sticky = a_ == ans::eof_sticky || a_ == ans::fail_sticky || a_ == ans::foreign_sticky;
    if (a_ == ans::normal || !(events_ == k_ || (sticky && events_ > k_)))
      return false;
    switch (a_)
    {
    case ans::eof_sticky:
    case ans::eof_once:
      return true;
    case ans::fail_sticky:
    case ans::fail_once:
      throw std::ios_base::failure("scripted_buf: read error");
    case ans::foreign_sticky:
    case ans::foreign_once:
      throw foreign_error{events_};
    default:
      return false;
    }
  }
  std::basic_string<Ch> text_;
  std::size_t chunk_;
  int k_;
  ans a_;
  std::size_t next_ = 0;
  int events_ = 0;
  Ch area_[4];
};

constexpr std::ios_base::iostate good = std::ios_base::goodbit, failb = std::ios_base::failbit, badb = std::ios_base::badbit,
                                 eofb = std::ios_base::eofbit;
std::ios_base::iostate const pre_states[] = {good, failb, badb, eofb};
std::ios_base::iostate const masks[] = {good, badb, failb | badb, eofb | failb | badb};

std::string show_state(std::ios_base::iostate s)
{
  if (s == good)
    return "good";
  std::string r;
  if (s & eofb)
    r += "eof";
  if (s & failb)
    r += (r.empty() ? "" : "|") + std::string("fail");
  if (s & badb)
    r += (r.empty() ? "" : "|") + std::string("bad");
  return r;
}

// a registered stream consumer
template <class Ch> struct consumer
{
  std::string name;
  // performs the fcppt call, returns a printable summary of the result ("nothing" / "value:..." / "failure" / "success:...")
  std::function<std::string(std::basic_istream<Ch> &)> call;
  // independent expectation for a good stream that delivers the whole text (empty function: none)
  std::function<std::string(std::string const &)> expected;
  // may the summary come from a stream over (part of) text?  (empty function: anything)
  std::function<bool(std::string const &, std::string const &)> sane;
};

template <class Ch> std::basic_string<Ch> conv(std::string const &s) { return std::basic_string<Ch>(s.begin(), s.end()); }

std::vector<std::string> texts()
{
  auto r = all_strings<char>("a1 ", vrt::thorough() ? 4U : 3U);
  r.push_back("-12 ab");
  r.push_back("1 2 3 4");
  return r;
}

// classification of what came out of a call
enum class outcome
{
  returned,
  accepted_exception,
  violation
};

template <class F> outcome run_call(std::string const &fn, std::ios_base::iostate mask, bool foreign_possible, F &&f)
{
  try
  {
    f();
    return outcome::returned;
  }
  catch (std::ios_base::failure const &x)
  {
    if (mask != good) // the caller asked the stream for exceptions
    {
      vrt::count("accepted:ios_base::failure with an exceptions() mask");
      return outcome::accepted_exception;
    }
    vrt::fail("exception:" + fn + ":std::ios_base::failure", x.what());
  }
  catch (foreign_error const &x)
  {
    if ((mask & badb) && foreign_possible) // the standard rethrows the buffer's exception when badbit is in the mask
    {
      vrt::count("accepted:buffer exception rethrown with badbit in the mask");
      return outcome::accepted_exception;
    }
    vrt::fail("exception:" + fn + ":foreign_error", "the stream buffer's exception (event " + std::to_string(x.event) + ") escaped");
  }
  catch (std::exception const &x)
  {
    vrt::fail("exception:" + fn + ":" + vrt::demangle(typeid(x).name()), x.what());
  }
  catch (...)
  {
    std::type_info const *t = abi::__cxa_current_exception_type();
    vrt::fail("exception:" + fn + ":" + (t ? vrt::demangle(t->name()) : std::string("unknown")), "exception not derived from std::exception");
  }
  return outcome::violation;
}

template <class Ch> void prepare(std::basic_istream<Ch> &s, std::ios_base::iostate pre, std::ios_base::iostate mask)
{
  try
  {
    if (mask != good)
      s.exceptions(mask); // throws at once if the stream is already in a masked state (unopened file)
  }
  catch (std::ios_base::failure const &)
  {
  }
  try
  {
    if (pre != good)
      s.setstate(pre);
  }
  catch (std::ios_base::failure const &)
  {
  }
}

template <class Ch> void drive(consumer<Ch> const &c)
{
  entry e(c.name + "[scripted streambuf]");
  int const kmax = vrt::thorough() ? 6 : 4;
  for (auto const &text : texts())
    for (std::size_t chunk = 1; chunk <= 3; ++chunk)
      for (int a = 0; a < 7; ++a)
        for (int k = (a == 0 ? 0 : 1); k <= (a == 0 ? 0 : kmax); ++k)
          for (auto pre : pre_states)
            for (auto mask : masks)
            {
              if (vrt::out_of_time())
                return;
              ans const an = static_cast<ans>(a);
              if (!e.begin_text(show(text) + " in chunks of " + std::to_string(chunk) +
                                (a == 0 ? std::string("") : ", event " + std::to_string(k) + " " + ans_names[a]) + ", stream " + show_state(pre) +
                                ", exceptions(" + show_state(mask) + ")"))
                continue;
              vrt::nontrivial(a != 0 || pre != good || mask != good);
              vrt::maybe_sample();
              scripted_buf<Ch> buf(conv<Ch>(text), chunk, k, an);
              std::basic_istream<Ch> stream(&buf);
              prepare(stream, pre, mask);
              std::string summary;
              outcome const o = run_call(e.name, mask, an == ans::foreign_sticky || an == ans::foreign_once, [&] { summary = c.call(stream); });
              if (o != outcome::returned)
                continue;
              bool const delivered_all = an == ans::normal || buf.events() < k; // the deviation was never reached
              if (delivered_all && pre == good)
              {
                if (c.expected)
                {
                  std::string const want = c.expected(text);
                  VRT_CHECK(summary == want, e.name + ":wrong", "got %s want %s", summary.c_str(), want.c_str());
                }
                // the same call on a string stream
                std::string plain;
                std::basic_istringstream<Ch> is(conv<Ch>(text));
                prepare(is, good, mask);
                if (run_call(e.name + " (std::istringstream)", mask, false, [&] { plain = c.call(is); }) == outcome::returned)
                  VRT_CHECK(summary == plain, e.name + ":chunking", "got %s, a string stream gives %s", summary.c_str(), plain.c_str());
              }
              else if (c.sane)
                VRT_CHECK(c.sane(text, summary), e.name + ":invented", "result %s cannot come from the delivered text", summary.c_str());
            }
}

// std::basic_ifstream on a directory, a missing path and a regular file
template <class Ch> void drive_files(consumer<Ch> const &c, std::string const &root)
{
  entry e(c.name + "[file stream]");
  std::string const content = "12 ab";
  char const *const kinds[] = {"directory", "missing path", "regular file"};
  for (int kind = 0; kind < 3; ++kind)
    for (auto mask : masks)
    {
      if (!e.begin_text(std::string(kinds[kind]) + ", exceptions(" + show_state(mask) + ")"))
        continue;
      vrt::nontrivial(kind != 2);
      vrt::maybe_sample();
      std::basic_ifstream<Ch> stream((kind == 0 ? root + "/dir" : kind == 1 ? root + "/missing" : root + "/file").c_str());
      prepare(stream, good, mask);
      std::string summary;
      outcome const o = run_call(e.name, mask, false, [&] { summary = c.call(stream); });
      if (o == outcome::returned && kind == 2 && c.expected)
      {
        std::string const want = c.expected(content);
        VRT_CHECK(summary == want, e.name + ":wrong", "got %s want %s", summary.c_str(), want.c_str());
      }
      if (o == outcome::returned && kind != 2 && c.sane)
        VRT_CHECK(c.sane(std::string{}, summary), e.name + ":invented", "result %s from a stream that cannot deliver anything", summary.c_str());
    }
}

std::string make_files(std::string const &tag)
{
  std::string const root = vrt::S().cfg.tmp + "/C01_streams_" + tag;
  std::error_code ec;
  std::filesystem::remove_all(root, ec);
  std::filesystem::create_directories(root + "/dir", ec);
  std::ofstream f(root + "/file", std::ios::binary);
  f << "12 ab";
  return root;
}

template <class Ch> std::string val(std::basic_string<Ch> const &s) { return "value:" + show(s); }
bool is_prefix_value(std::string const &text, std::string const &summary)
{
  if (summary == "nothing")
    return true;
  for (std::size_t n = 0; n <= text.size(); ++n)
    if (summary == val(text.substr(0, n)))
      return true;
  return false;
}

// ------------------------------------------------------------ the consumers
template <class Ch> consumer<Ch> c_stream_to_string(char const *chn)
{
  return {std::string("io::stream_to_string<") + chn + ">",
          [](std::basic_istream<Ch> &s) {
            auto const r = fcppt::io::stream_to_string(s);
            return r.has_value() ? val(r.get_unsafe()) : std::string("nothing");
          },
          [](std::string const &t) { return val(t); }, is_prefix_value};
}

template <class Ch> consumer<Ch> c_get(char const *chn, bool peek)
{
  return {std::string(peek ? "io::peek<" : "io::get<") + chn + ">",
          [peek](std::basic_istream<Ch> &s) {
            auto const r = peek ? fcppt::io::peek(s) : fcppt::io::get(s);
            return r.has_value() ? val(std::basic_string<Ch>(1, r.get_unsafe())) : std::string("nothing");
          },
          [](std::string const &t) { return t.empty() ? std::string("nothing") : val(t.substr(0, 1)); },
          [](std::string const &t, std::string const &sum) { return sum == "nothing" || (!t.empty() && sum == val(t.substr(0, 1))); }};
}

consumer<char> c_read_chars(std::size_t n)
{
  return {"io::read_chars(" + std::to_string(n) + ")",
          [n](std::istream &s) {
            fcppt::io::optional_buffer const r = fcppt::io::read_chars(s, n);
            if (!r.has_value())
              return std::string("nothing");
            return val(std::string(r.get_unsafe().begin(), r.get_unsafe().end()));
          },
          // "Tries to read count chars": no expectation for a request of zero characters
          n == 0 ? std::function<std::string(std::string const &)>{}
                 : std::function<std::string(std::string const &)>{
                       [n](std::string const &t) { return n <= t.size() ? val(t.substr(0, n)) : std::string("nothing"); }},
          [n](std::string const &t, std::string const &sum) { return sum == "nothing" || (n <= t.size() && sum == val(t.substr(0, n))); }};
}

template <class T> consumer<char> c_read(char const *tn, std::endian en)
{
  auto expected = [en](std::string const &t) {
    if (t.size() < sizeof(T))
      return std::string("nothing");
    std::uint64_t v = 0;
    for (std::size_t i = 0; i < sizeof(T); ++i)
      v |= static_cast<std::uint64_t>(static_cast<unsigned char>(t[i])) << (8 * (en == std::endian::big ? sizeof(T) - 1 - i : i));
    return "value:" + std::to_string(v);
  };
  return {std::string("io::read<") + tn + (en == std::endian::big ? ",big>" : ",little>"),
          [en](std::istream &s) {
            auto const r = fcppt::io::read<T>(s, en);
            return r.has_value() ? "value:" + std::to_string(static_cast<std::uint64_t>(r.get_unsafe())) : std::string("nothing");
          },
          expected, [expected](std::string const &t, std::string const &sum) { return sum == "nothing" || sum == expected(t); }};
}

template <class T> std::string to_s(T const &v)
{
  if constexpr (std::is_same_v<T, std::string>)
    return show(v);
  else if constexpr (std::is_same_v<T, char>)
    return show(std::string(1, v));
  else
    return std::to_string(v);
}

template <class T> consumer<char> c_extract(char const *tn)
{
  return {std::string("io::extract<") + tn + ">",
          [](std::istream &s) {
            auto const r = fcppt::io::extract<T>(s);
            return r.has_value() ? "value:" + to_s(r.get_unsafe()) : std::string("nothing");
          },
          {}, {}};
}

namespace p = fcppt::parse;

consumer<char> c_parse_int()
{
  return {"parse::parse_stream(int_<int>)",
          [](std::istream &s) {
            s.unsetf(std::ios_base::skipws);
            auto const r = p::parse_stream(p::int_<int>{}, s);
            return r.has_success() ? "success:" + std::to_string(r.get_success_unsafe()) : std::string("failure");
          },
          {}, {}};
}

consumer<char> c_phrase_parse_words()
{
  return {"parse::phrase_parse_stream(*lexeme(+char_set{a,1}), space)",
          [](std::istream &s) {
            s.unsetf(std::ios_base::skipws);
            auto const parser{*p::make_lexeme(+p::char_set{'a', '1'})};
            auto const r = p::phrase_parse_stream(parser, s, p::skipper::space());
            if (!r.has_success())
              return std::string("failure");
            std::string out = "success:";
            for (auto const &w : r.get_success_unsafe())
              out += show(std::string(w.begin(), w.end()));
            return out;
          },
          {}, {}};
}

void shard_body(std::string const &tag, std::function<void(std::string const &)> const &body)
{
  if (too_many_restarts("streams_" + tag))
    return;
  body(make_files(tag));
}
}

void c01::register_streams()
{
  vrt::shard("streams/stream_to_string", [] {
    shard_body("sts", [](std::string const &root) {
      drive(c_stream_to_string<char>("char"));
      drive_files(c_stream_to_string<char>("char"), root);
      drive(c_stream_to_string<wchar_t>("wchar_t"));
      drive_files(c_stream_to_string<wchar_t>("wchar_t"), root);
    });
  }, 10);
  vrt::shard("streams/get_peek", [] {
    shard_body("gp", [](std::string const &root) {
      drive(c_get<char>("char", false));
      drive_files(c_get<char>("char", false), root);
      drive(c_get<char>("char", true));
      drive_files(c_get<char>("char", true), root);
      drive(c_get<wchar_t>("wchar_t", false));
      drive_files(c_get<wchar_t>("wchar_t", false), root);
      drive(c_get<wchar_t>("wchar_t", true));
    });
  }, 10);
  vrt::shard("streams/read_chars", [] {
    shard_body("rc", [](std::string const &root) {
      for (std::size_t n : {std::size_t(0), std::size_t(1), std::size_t(2), std::size_t(4)})
      {
        drive(c_read_chars(n));
        drive_files(c_read_chars(n), root);
      }
    });
  }, 10);
  vrt::shard("streams/read", [] {
    shard_body("rd", [](std::string const &root) {
      drive(c_read<u8>("u8", std::endian::little));
      drive(c_read<u16>("u16", std::endian::little));
      drive_files(c_read<u16>("u16", std::endian::little), root);
      drive(c_read<u32>("u32", std::endian::big));
      drive_files(c_read<u32>("u32", std::endian::big), root);
    });
  }, 10);
  vrt::shard("streams/extract", [] {
    shard_body("ex", [](std::string const &root) {
      drive(c_extract<int>("int"));
      drive_files(c_extract<int>("int"), root);
      drive(c_extract<std::string>("std::string"));
      drive_files(c_extract<std::string>("std::string"), root);
      drive(c_extract<char>("char"));
    });
  }, 10);
  vrt::shard("streams/parse_int", [] {
    shard_body("pi", [](std::string const &root) {
      drive(c_parse_int());
      drive_files(c_parse_int(), root);
    });
  }, 10);
  vrt::shard("streams/parse_words", [] {
    shard_body("pw", [](std::string const &root) {
      drive(c_phrase_parse_words());
      drive_files(c_phrase_parse_words(), root);
    });
  }, 10);
}

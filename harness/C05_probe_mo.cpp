// C05 compile probes: the registry instantiated with the move-only element type for rvalue arguments.
// One entry per -DC05_PROBE=<n> (so that one failing entry does not hide the others); each must compile, none is run.
// Callbacks use the *documented* signature: the element type by value (an rvalue element binds to it by move).
// The list of (n, name) pairs lives in vf/props.d/C05.py.
#include "C05_common.hpp"

#include <deque>
#include <list>
#include <map>
#include <stdexcept>
#include <string>
#include <utility>
#include <vector>

using mo = c05::tracked_mo;
using mob = c05::tracked_mo_b;
using moc = c05::tracked_mo_c;
using vmo = std::vector<mo>;

#ifndef C05_PROBE
#error "C05_PROBE not set"
#endif

// ------------------------------------------------------------------ algorithm 1..
#if C05_PROBE == 1
#include <fcppt/algorithm/map.hpp>
vmo probe(vmo v) { return fcppt::algorithm::map<vmo>(std::move(v), [](mo x) { return x; }); }
#elif C05_PROBE == 2
#include <fcppt/algorithm/fold.hpp>
vmo probe(vmo v)
{
  return fcppt::algorithm::fold(std::move(v), vmo{}, [](mo x, vmo s) {
    s.push_back(std::move(x));
    return s;
  });
}
#elif C05_PROBE == 3
#include <fcppt/algorithm/fold.hpp>
#include <fcppt/container/make_move_range.hpp>
vmo probe(vmo v)
{
  return fcppt::algorithm::fold(fcppt::container::make_move_range(std::move(v)), vmo{}, [](mo x, vmo s) {
    s.push_back(std::move(x));
    return s;
  });
}
#elif C05_PROBE == 4
#include <fcppt/loop.hpp>
#include <fcppt/algorithm/fold_break.hpp>
vmo probe(vmo v)
{
  return fcppt::algorithm::fold_break(std::move(v), vmo{}, [](mo x, vmo s) {
    s.push_back(std::move(x));
    return std::make_pair(fcppt::loop::continue_, std::move(s));
  });
}
#elif C05_PROBE == 5
#include <fcppt/loop.hpp>
#include <fcppt/algorithm/fold_break.hpp>
#include <fcppt/container/make_move_range.hpp>
vmo probe(vmo v)
{
  return fcppt::algorithm::fold_break(fcppt::container::make_move_range(std::move(v)), vmo{}, [](mo x, vmo s) {
    s.push_back(std::move(x));
    return std::make_pair(fcppt::loop::continue_, std::move(s));
  });
}
#elif C05_PROBE == 6
#include <fcppt/algorithm/map_concat.hpp>
vmo probe(vmo v)
{
  return fcppt::algorithm::map_concat<vmo>(std::move(v), [](mo x) {
    vmo r;
    r.push_back(std::move(x));
    return r;
  });
}
#elif C05_PROBE == 7
#include <fcppt/algorithm/map_concat.hpp>
#include <fcppt/container/make_move_range.hpp>
vmo probe(vmo v)
{
  return fcppt::algorithm::map_concat<vmo>(fcppt::container::make_move_range(std::move(v)), [](mo x) {
    vmo r;
    r.push_back(std::move(x));
    return r;
  });
}
#elif C05_PROBE == 8
#include <fcppt/algorithm/map_optional.hpp>
#include <fcppt/optional/object_impl.hpp>
vmo probe(vmo v)
{
  return fcppt::algorithm::map_optional<vmo>(std::move(v), [](mo x) { return fcppt::optional::object<mo>{std::move(x)}; });
}
#elif C05_PROBE == 9
#include <fcppt/algorithm/map_optional.hpp>
#include <fcppt/container/make_move_range.hpp>
#include <fcppt/optional/object_impl.hpp>
vmo probe(vmo v)
{
  return fcppt::algorithm::map_optional<vmo>(fcppt::container::make_move_range(std::move(v)),
                                             [](mo x) { return fcppt::optional::object<mo>{std::move(x)}; });
}
#elif C05_PROBE == 10
#include <fcppt/algorithm/reverse.hpp>
vmo probe(vmo v) { return fcppt::algorithm::reverse(std::move(v)); }
// ------------------------------------------------------------------ container 11..
#elif C05_PROBE == 11
#include <fcppt/container/join.hpp>
vmo probe(vmo a, vmo b) { return fcppt::container::join(std::move(a), std::move(b)); }
#elif C05_PROBE == 12
#include <fcppt/container/join.hpp>
vmo probe(vmo a, vmo b, vmo c) { return fcppt::container::join(std::move(a), std::move(b), std::move(c)); }
#elif C05_PROBE == 13
#include <fcppt/container/pop_back.hpp>
fcppt::optional::object<mo> probe(vmo &v) { return fcppt::container::pop_back(v); }
#elif C05_PROBE == 14
#include <fcppt/container/pop_front.hpp>
fcppt::optional::object<mo> probe(std::deque<mo> &v) { return fcppt::container::pop_front(v); }
#elif C05_PROBE == 15
#include <fcppt/container/get_or_insert.hpp>
mo &probe(std::map<int, mo> &m) { return fcppt::container::get_or_insert(m, 3, [](int k) { return mo(k); }); }
#elif C05_PROBE == 16
#include <fcppt/algorithm/map.hpp>
#include <fcppt/container/make_move_range.hpp>
vmo probe(vmo v) { return fcppt::algorithm::map<vmo>(fcppt::container::make_move_range(std::move(v)), [](mo x) { return x; }); }
// ------------------------------------------------------------------ grid 17..
#elif C05_PROBE == 17
#include <fcppt/container/grid/map.hpp>
#include <fcppt/container/grid/object.hpp>
using g = fcppt::container::grid::object<mo, 2>;
g probe(g a) { return fcppt::container::grid::map(std::move(a), [](mo x) { return x; }); }
#elif C05_PROBE == 18
#include <fcppt/container/grid/apply.hpp>
#include <fcppt/container/grid/object.hpp>
using g = fcppt::container::grid::object<mo, 2>;
using gp = fcppt::container::grid::object<std::pair<mo, mo>, 2>;
gp probe(g a, g b)
{
  return fcppt::container::grid::apply([](mo x, mo y) { return std::pair<mo, mo>(std::move(x), std::move(y)); }, std::move(a), std::move(b));
}
#elif C05_PROBE == 19
#include <fcppt/container/grid/object.hpp>
#include <fcppt/container/grid/resize.hpp>
using g = fcppt::container::grid::object<mo, 2>;
g probe(g a) { return fcppt::container::grid::resize(std::move(a), g::dim(2U, 2U), [](g::pos const &) { return mo(1); }); }
// ------------------------------------------------------------------ tree 20..
#elif C05_PROBE == 20
#include <fcppt/container/tree/object_impl.hpp>
using t = fcppt::container::tree::object<mo>;
t probe(mo v) { return t(std::move(v)); }
#elif C05_PROBE == 21
#include <fcppt/container/tree/object_impl.hpp>
using t = fcppt::container::tree::object<mo>;
t probe(mo v, t::child_list l) { return t(std::move(v), std::move(l)); }
#elif C05_PROBE == 22
#include <fcppt/container/tree/object_impl.hpp>
using t = fcppt::container::tree::object<mo>;
t probe(t a, t b)
{
  t c(std::move(a));
  c = std::move(b);
  return c;
}
#elif C05_PROBE == 23
#include <fcppt/container/tree/object_impl.hpp>
using t = fcppt::container::tree::object<mo>;
void probe(t &a, mo x, mo y, mo z)
{
  a.push_back(std::move(x));
  a.push_front(std::move(y));
  a.insert(a.begin(), std::move(z));
}
#elif C05_PROBE == 24
#include <fcppt/container/tree/object_impl.hpp>
using t = fcppt::container::tree::object<mo>;
void probe(t &a, t x, t y, t z)
{
  a.push_back(std::move(x));
  a.push_front(std::move(y));
  a.insert(a.begin(), std::move(z));
}
#elif C05_PROBE == 25
#include <fcppt/container/tree/object_impl.hpp>
using t = fcppt::container::tree::object<mo>;
t probe(t &a)
{
  fcppt::optional::object<t> x = a.pop_back();
  fcppt::optional::object<t> y = a.pop_front();
  return a.release(a.begin());
}
#elif C05_PROBE == 26
#include <fcppt/container/tree/object_impl.hpp>
using t = fcppt::container::tree::object<mo>;
void probe(t &a, mo v) { a.value(std::move(v)); }
// ------------------------------------------------------------------ optional 30..
#elif C05_PROBE >= 30 && C05_PROBE < 60
#include <fcppt/optional/alternative.hpp>
#include <fcppt/optional/apply.hpp>
#include <fcppt/optional/assign.hpp>
#include <fcppt/optional/bind.hpp>
#include <fcppt/optional/cat.hpp>
#include <fcppt/optional/combine.hpp>
#include <fcppt/optional/filter.hpp>
#include <fcppt/optional/from.hpp>
#include <fcppt/optional/join.hpp>
#include <fcppt/optional/make.hpp>
#include <fcppt/optional/make_if.hpp>
#include <fcppt/optional/map.hpp>
#include <fcppt/optional/maybe.hpp>
#include <fcppt/optional/maybe_multi.hpp>
#include <fcppt/optional/maybe_void.hpp>
#include <fcppt/optional/maybe_void_multi.hpp>
#include <fcppt/optional/object_impl.hpp>
#include <fcppt/optional/sequence.hpp>
#include <fcppt/optional/to_container.hpp>
#include <fcppt/optional/to_exception.hpp>
using o = fcppt::optional::object<mo>;
using ob = fcppt::optional::object<mob>;
#if C05_PROBE == 30
o probe(o a) { return fcppt::optional::map(std::move(a), [](mo x) { return x; }); }
#elif C05_PROBE == 31
o probe(o a) { return fcppt::optional::bind(std::move(a), [](mo x) { return o{std::move(x)}; }); }
#elif C05_PROBE == 32
o probe(o a) { return fcppt::optional::filter(std::move(a), [](mo const &) { return true; }); }
#elif C05_PROBE == 33
mo probe(o a) { return fcppt::optional::maybe(std::move(a), [] { return mo(1); }, [](mo x) { return x; }); }
#elif C05_PROBE == 34
void probe(o a, vmo &sink) { fcppt::optional::maybe_void(std::move(a), [&sink](mo x) { sink.push_back(std::move(x)); }); }
#elif C05_PROBE == 35
mo probe(o a) { return fcppt::optional::from(std::move(a), [] { return mo(1); }); }
#elif C05_PROBE == 36
o probe(o a) { return fcppt::optional::alternative(std::move(a), [] { return o{mo(1)}; }); }
#elif C05_PROBE == 37
vmo probe(o a) { return fcppt::optional::to_container<vmo>(std::move(a)); }
#elif C05_PROBE == 38
mo probe(o a) { return fcppt::optional::to_exception(std::move(a), [] { return std::runtime_error("x"); }); }
#elif C05_PROBE == 39
o probe(fcppt::optional::object<o> a) { return fcppt::optional::join(std::move(a)); }
#elif C05_PROBE == 40
mo &probe(o &a, mo v) { return fcppt::optional::assign(a, std::move(v)); }
#elif C05_PROBE == 41
o probe(bool b) { return fcppt::optional::make_if(b, [] { return mo(1); }); }
#elif C05_PROBE == 42
o probe(mo v) { return fcppt::optional::make(std::move(v)); }
#elif C05_PROBE == 43
fcppt::optional::object<std::pair<mo, mob>> probe(o a, ob b)
{
  return fcppt::optional::apply([](mo x, mob y) { return std::pair<mo, mob>(std::move(x), std::move(y)); }, std::move(a), std::move(b));
}
#elif C05_PROBE == 44
std::pair<mo, mob> probe(o a, ob b)
{
  return fcppt::optional::maybe_multi([] { return std::pair<mo, mob>(mo(1), mob(2)); },
                                      [](mo x, mob y) { return std::pair<mo, mob>(std::move(x), std::move(y)); }, std::move(a), std::move(b));
}
#elif C05_PROBE == 45
void probe(o a, ob b, vmo &sink)
{
  fcppt::optional::maybe_void_multi([&sink](mo x, mob) { sink.push_back(std::move(x)); }, std::move(a), std::move(b));
}
#elif C05_PROBE == 46
o probe(o a, o b) { return fcppt::optional::combine(std::move(a), std::move(b), [](mo x, mo) { return x; }); }
#elif C05_PROBE == 47
vmo probe(std::vector<o> v) { return fcppt::optional::cat<vmo>(std::move(v)); }
#elif C05_PROBE == 48
fcppt::optional::object<vmo> probe(std::vector<o> v) { return fcppt::optional::sequence<vmo>(std::move(v)); }
#elif C05_PROBE == 49
o probe(mo v) { return o(std::move(v)); }
#else
#error "unknown optional probe"
#endif
// ------------------------------------------------------------------ either 60..
#elif C05_PROBE >= 60 && C05_PROBE < 90
#include <fcppt/function_impl.hpp>
#include <fcppt/either/apply.hpp>
#include <fcppt/either/bind.hpp>
#include <fcppt/either/construct.hpp>
#include <fcppt/either/error.hpp>
#include <fcppt/either/error_from_optional.hpp>
#include <fcppt/either/failure_opt.hpp>
#include <fcppt/either/first_success.hpp>
#include <fcppt/either/from_optional.hpp>
#include <fcppt/either/join.hpp>
#include <fcppt/either/loop.hpp>
#include <fcppt/either/make_failure.hpp>
#include <fcppt/either/make_success.hpp>
#include <fcppt/either/map.hpp>
#include <fcppt/either/map_failure.hpp>
#include <fcppt/either/match.hpp>
#include <fcppt/either/no_error.hpp>
#include <fcppt/either/object_impl.hpp>
#include <fcppt/either/sequence.hpp>
#include <fcppt/either/sequence_error.hpp>
#include <fcppt/either/success_opt.hpp>
#include <fcppt/either/to_exception.hpp>
#include <fcppt/either/try_call.hpp>
#include <fcppt/optional/object_impl.hpp>
using e = fcppt::either::object<mob, mo>; // failure mob, success mo
using ec = fcppt::either::object<mob, moc>;
#if C05_PROBE == 60
e probe(mo s, mob f, bool b) { return b ? e(std::move(s)) : e(std::move(f)); }
#elif C05_PROBE == 61
e probe(mo s, mob f, bool b) { return b ? fcppt::either::make_success<mob>(std::move(s)) : fcppt::either::make_failure<mo>(std::move(f)); }
#elif C05_PROBE == 62
e probe(e a) { return fcppt::either::map(std::move(a), [](mo x) { return x; }); }
#elif C05_PROBE == 63
e probe(e a) { return fcppt::either::map_failure(std::move(a), [](mob x) { return x; }); }
#elif C05_PROBE == 64
e probe(e a) { return fcppt::either::bind(std::move(a), [](mo x) { return e{std::move(x)}; }); }
#elif C05_PROBE == 65
int probe(e a) { return fcppt::either::match(std::move(a), [](mob) { return 0; }, [](mo) { return 1; }); }
#elif C05_PROBE == 66
fcppt::optional::object<mo> probe(e a) { return fcppt::either::success_opt(std::move(a)); }
#elif C05_PROBE == 67
fcppt::optional::object<mob> probe(e a) { return fcppt::either::failure_opt(std::move(a)); }
#elif C05_PROBE == 68
mo probe(e a) { return fcppt::either::to_exception(std::move(a), [](mob) { return std::runtime_error("x"); }); }
#elif C05_PROBE == 69
e probe(fcppt::either::object<mob, e> a) { return fcppt::either::join(std::move(a)); }
#elif C05_PROBE == 70
e probe(fcppt::optional::object<mo> a) { return fcppt::either::from_optional(std::move(a), [] { return mob(1); }); }
#elif C05_PROBE == 71
fcppt::either::error<mob> probe(fcppt::optional::object<mob> a) { return fcppt::either::error_from_optional(std::move(a)); }
#elif C05_PROBE == 72
fcppt::either::object<mob, std::pair<mo, moc>> probe(e a, ec b)
{
  return fcppt::either::apply([](mo x, moc y) { return std::pair<mo, moc>(std::move(x), std::move(y)); }, std::move(a), std::move(b));
}
#elif C05_PROBE == 73
fcppt::either::object<mob, vmo> probe(std::vector<e> v) { return fcppt::either::sequence<vmo>(std::move(v)); }
#elif C05_PROBE == 74
fcppt::either::error<mob> probe(vmo v)
{
  return fcppt::either::sequence_error(std::move(v), [](mo) { return fcppt::either::error<mob>{fcppt::either::no_error{}}; });
}
#elif C05_PROBE == 75
fcppt::either::object<std::vector<mob>, mo> probe(std::vector<fcppt::function<e()>> const &fs) { return fcppt::either::first_success(fs); }
#elif C05_PROBE == 76
mob probe(vmo &sink)
{
  return fcppt::either::loop([] { return e{mob(1)}; }, [&sink](mo x) { sink.push_back(std::move(x)); });
}
#elif C05_PROBE == 77
e probe(bool b) { return fcppt::either::construct(b, [] { return mo(1); }, [] { return mob(2); }); }
#elif C05_PROBE == 78
e probe() { return fcppt::either::try_call<std::runtime_error>([] { return mo(1); }, [](std::runtime_error const &) { return mob(2); }); }
#else
#error "unknown either probe"
#endif
// ------------------------------------------------------------------ variant 90..
#elif C05_PROBE >= 90 && C05_PROBE < 100
#include <fcppt/optional/object_impl.hpp>
#include <fcppt/variant/apply.hpp>
#include <fcppt/variant/match.hpp>
#include <fcppt/variant/object_impl.hpp>
#include <fcppt/variant/to_optional.hpp>
using v = fcppt::variant::object<mo, mob, moc>;
#if C05_PROBE == 90
v probe(mo x) { return v(std::move(x)); }
#elif C05_PROBE == 91
int probe(v a) { return fcppt::variant::match(std::move(a), [](mo) { return 0; }, [](mob) { return 1; }, [](moc) { return 2; }); }
#elif C05_PROBE == 92
struct visitor
{
  int operator()(mo) const { return 0; }
  int operator()(mob) const { return 1; }
  int operator()(moc) const { return 2; }
};
int probe(v a) { return fcppt::variant::apply(visitor{}, std::move(a)); }
#elif C05_PROBE == 93
struct visitor2
{
  template <class A, class B> int operator()(A, B) const { return 0; }
};
int probe(v a, v b) { return fcppt::variant::apply(visitor2{}, std::move(a), std::move(b)); }
#elif C05_PROBE == 94
fcppt::optional::object<mob> probe(v a) { return fcppt::variant::to_optional<mob>(std::move(a)); }
#else
#error "unknown variant probe"
#endif
// ------------------------------------------------------------------ record 100..
#elif C05_PROBE >= 100 && C05_PROBE < 110
#include <fcppt/record/element.hpp>
#include <fcppt/record/init.hpp>
#include <fcppt/record/make_label.hpp>
#include <fcppt/record/map.hpp>
#include <fcppt/record/multiply_disjoint.hpp>
#include <fcppt/record/object_impl.hpp>
#include <fcppt/record/permute.hpp>
#include <fcppt/record/set.hpp>
FCPPT_RECORD_MAKE_LABEL(la);
FCPPT_RECORD_MAKE_LABEL(lb);
using r2 = fcppt::record::object<fcppt::record::element<la, mo>, fcppt::record::element<lb, mob>>;
using r2p = fcppt::record::object<fcppt::record::element<lb, mob>, fcppt::record::element<la, mo>>;
using ra = fcppt::record::object<fcppt::record::element<la, mo>>;
using rb = fcppt::record::object<fcppt::record::element<lb, mob>>;
#if C05_PROBE == 100
r2 probe(mo x, mob y) { return r2{lb{} = std::move(y), la{} = std::move(x)}; }
#elif C05_PROBE == 101
void probe(r2 &r, mo x) { fcppt::record::set<la>(r, std::move(x)); }
#elif C05_PROBE == 102
r2p probe(r2 r) { return fcppt::record::permute<r2p>(std::move(r)); }
#elif C05_PROBE == 103
struct ident
{
  template <class T> T operator()(T t) const { return t; }
};
r2 probe(r2 r) { return fcppt::record::map(std::move(r), ident{}); }
#elif C05_PROBE == 104
auto probe(ra a, rb b) { return fcppt::record::multiply_disjoint(std::move(a), std::move(b)); }
#elif C05_PROBE == 105
r2 probe()
{
  return fcppt::record::init<r2>([]<typename L, typename T>(fcppt::record::element<L, T>) { return T(1); });
}
#else
#error "unknown record probe"
#endif
// ------------------------------------------------------------------ tuple 110..
#elif C05_PROBE >= 110 && C05_PROBE < 125
#include <fcppt/array/object_impl.hpp>
#include <fcppt/tuple/apply.hpp>
#include <fcppt/tuple/concat.hpp>
#include <fcppt/tuple/from_array.hpp>
#include <fcppt/tuple/init.hpp>
#include <fcppt/tuple/invoke.hpp>
#include <fcppt/tuple/make.hpp>
#include <fcppt/tuple/map.hpp>
#include <fcppt/tuple/object_impl.hpp>
#include <fcppt/tuple/push_back.hpp>
using t2 = fcppt::tuple::object<mo, mob>;
struct ident
{
  template <class T> T operator()(T t) const { return t; }
};
#if C05_PROBE == 110
t2 probe(mo x, mob y) { return t2(std::move(x), std::move(y)); }
#elif C05_PROBE == 111
t2 probe(mo x, mob y) { return fcppt::tuple::make(std::move(x), std::move(y)); }
#elif C05_PROBE == 112
t2 probe(t2 t) { return fcppt::tuple::map(std::move(t), ident{}); }
#elif C05_PROBE == 113
int probe(t2 t) { return fcppt::tuple::invoke([](mo, mob) { return 1; }, std::move(t)); }
#elif C05_PROBE == 114
fcppt::tuple::object<mo, mob, moc> probe(t2 t, moc z) { return fcppt::tuple::push_back(std::move(t), std::move(z)); }
#elif C05_PROBE == 115
fcppt::tuple::object<mo, mob, mo, mob> probe(t2 a, t2 b) { return fcppt::tuple::concat(std::move(a), std::move(b)); }
#elif C05_PROBE == 116
struct pairer
{
  template <class T> std::pair<T, T> operator()(T a, T b) const { return std::pair<T, T>(std::move(a), std::move(b)); }
};
auto probe(t2 a, t2 b) { return fcppt::tuple::apply(pairer{}, std::move(a), std::move(b)); }
#elif C05_PROBE == 117
fcppt::tuple::object<mo, mo> probe(fcppt::array::object<mo, 2> a) { return fcppt::tuple::from_array(std::move(a)); }
#elif C05_PROBE == 118
t2 probe()
{
  return fcppt::tuple::init<t2>([]<std::size_t I>(std::integral_constant<std::size_t, I>) { return std::tuple_element_t<I, t2::impl_type>(1); });
}
#else
#error "unknown tuple probe"
#endif
// ------------------------------------------------------------------ array 125..
#elif C05_PROBE >= 125 && C05_PROBE < 140
#include <fcppt/array/append.hpp>
#include <fcppt/array/apply.hpp>
#include <fcppt/array/from_range.hpp>
#include <fcppt/array/init.hpp>
#include <fcppt/array/join.hpp>
#include <fcppt/array/make.hpp>
#include <fcppt/array/map.hpp>
#include <fcppt/array/object_impl.hpp>
#include <fcppt/array/push_back.hpp>
#include <fcppt/optional/object_impl.hpp>
template <std::size_t N> using a = fcppt::array::object<mo, N>;
#if C05_PROBE == 125
a<2> probe(mo x, mo y) { return a<2>(std::move(x), std::move(y)); }
#elif C05_PROBE == 126
a<2> probe(mo x, mo y) { return fcppt::array::make(std::move(x), std::move(y)); }
#elif C05_PROBE == 127
a<2> probe(a<2> x) { return fcppt::array::map(std::move(x), [](mo e) { return e; }); }
#elif C05_PROBE == 128
a<2> probe(a<2> x) { return fcppt::array::join(std::move(x)); }
#elif C05_PROBE == 129
a<4> probe(a<2> x, a<2> y) { return fcppt::array::join(std::move(x), std::move(y)); }
#elif C05_PROBE == 130
a<5> probe(a<2> x, a<2> y, a<1> z) { return fcppt::array::join(std::move(x), std::move(y), std::move(z)); }
#elif C05_PROBE == 131
fcppt::optional::object<a<2>> probe(vmo v) { return fcppt::array::from_range<2>(std::move(v)); }
#elif C05_PROBE == 132
a<3> probe(a<2> x, mo e) { return fcppt::array::push_back(std::move(x), std::move(e)); }
#elif C05_PROBE == 133
fcppt::array::object<std::pair<mo, mo>, 2> probe(a<2> x, a<2> y)
{
  return fcppt::array::apply([](mo p, mo q) { return std::pair<mo, mo>(std::move(p), std::move(q)); }, std::move(x), std::move(y));
}
#elif C05_PROBE == 134
a<3> probe(a<2> x, a<1> y) { return fcppt::array::append(std::move(x), std::move(y)); }
#elif C05_PROBE == 135
a<2> probe()
{
  return fcppt::array::init<a<2>>([]<std::size_t I>(std::integral_constant<std::size_t, I>) { return mo(1); });
}
#else
#error "unknown array probe"
#endif
// ------------------------------------------------------------------ parse 140..
#elif C05_PROBE >= 140 && C05_PROBE < 150
#include <fcppt/parse/char.hpp>
#include <fcppt/parse/make_convert.hpp>
#include <fcppt/parse/parse_string.hpp>
#include <fcppt/parse/operators/alternative.hpp>
#include <fcppt/parse/operators/optional.hpp>
#include <fcppt/parse/operators/repetition.hpp>
#include <fcppt/parse/operators/repetition_plus.hpp>
#include <fcppt/parse/operators/sequence.hpp>
inline auto pm()
{
  return fcppt::parse::make_convert(fcppt::parse::char_{}, [](char &&c) { return mo(c); });
}
inline auto pb()
{
  return fcppt::parse::make_convert(fcppt::parse::char_{}, [](char &&c) { return mob(c); });
}
#if C05_PROBE == 140
auto probe() { return fcppt::parse::parse_string(pm() >> pb() >> pm(), std::string("abc")); }
#elif C05_PROBE == 141
auto probe() { return fcppt::parse::parse_string(*pm(), std::string("abc")); }
#elif C05_PROBE == 142
auto probe() { return fcppt::parse::parse_string(+pm(), std::string("abc")); }
#elif C05_PROBE == 143
auto probe() { return fcppt::parse::parse_string(-pm() >> pb(), std::string("abc")); }
#elif C05_PROBE == 144
auto probe() { return fcppt::parse::parse_string(pm() | pb(), std::string("abc")); }
#else
#error "unknown parse probe"
#endif
#else
#error "unknown C05_PROBE"
#endif

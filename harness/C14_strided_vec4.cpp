// C14_strided_vec4.cpp -- vectors of dimension 4 over non-contiguous storages
#include "C14_strided_vecdim.hpp"

namespace c14
{
using namespace noncontig;

void register_strided_vec4()
{
  vrt::shard("noncontiguous/vector4", [] { all_pairs<vec_k, 4>(vrt::thorough() ? std::vector<long>{-1, 0, 2} : std::vector<long>{0, 2}); });
}
}

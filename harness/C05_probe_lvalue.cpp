// C05 compile probes: registry entries that had to be left out of the runtime registry because the operation does not
// compile for that value category / arity at all (found while instantiating the registry).  One entry per
// -DC05_PROBE=<n>; each must compile, none is run.  The element type is the copyable tracked type.
#include "C05_common.hpp"

#include <utility>

using tr = c05::tracked;
using trb = c05::tracked_b;

#ifndef C05_PROBE
#error "C05_PROBE not set"
#endif

#if C05_PROBE >= 1 && C05_PROBE <= 3
#include <fcppt/record/element.hpp>
#include <fcppt/record/make_label.hpp>
#include <fcppt/record/map.hpp>
#include <fcppt/record/object_impl.hpp>
FCPPT_RECORD_MAKE_LABEL(la);
FCPPT_RECORD_MAKE_LABEL(lb);
using r2 = fcppt::record::object<fcppt::record::element<la, tr>, fcppt::record::element<lb, trb>>;
struct ident
{
  template <class T> T operator()(T const &t) const { return t; }
};
#if C05_PROBE == 1
r2 probe(r2 &r) { return fcppt::record::map(r, ident{}); } // documented: "Record An fcppt::record::object", forwarded with Record&&
#elif C05_PROBE == 2
r2 probe(r2 const &r) { return fcppt::record::map(r, ident{}); }
#else
// an initializer (label = value) kept in a variable
r2 probe(tr x, trb y)
{
  auto ia = (la{} = std::move(x));
  auto ib = (lb{} = std::move(y));
  return r2{ia, ib};
}
#endif
#elif C05_PROBE >= 4 && C05_PROBE <= 7
#include <fcppt/tuple/apply.hpp>
#include <fcppt/tuple/object_impl.hpp>
using t2 = fcppt::tuple::object<tr, trb>;
struct pairer
{
  template <class T> std::pair<T, T> operator()(T const &a, T const &b) const { return std::pair<T, T>(a, b); }
  template <class T> T operator()(T const &a) const { return a; }
  template <class T> T operator()(T const &a, T const &, T const &) const { return a; }
};
#if C05_PROBE == 4
auto probe(t2 &a, t2 &b) { return fcppt::tuple::apply(pairer{}, a, b); }
#elif C05_PROBE == 5
auto probe(t2 const &a, t2 const &b) { return fcppt::tuple::apply(pairer{}, a, b); }
#elif C05_PROBE == 6
auto probe(t2 a) { return fcppt::tuple::apply(pairer{}, std::move(a)); } // "multiple tuples": one
#else
auto probe(t2 a, t2 b, t2 c) { return fcppt::tuple::apply(pairer{}, std::move(a), std::move(b), std::move(c)); } // three
#endif
#elif C05_PROBE == 8
#include <fcppt/optional/assign.hpp>
#include <fcppt/optional/object_impl.hpp>
tr &probe(fcppt::optional::object<tr> &o, tr const &v) { return fcppt::optional::assign(o, v); } // "Assigns _arg to _optional", Arg&& forwarded
#elif C05_PROBE == 9
#include <fcppt/optional/assign.hpp>
#include <fcppt/optional/object_impl.hpp>
tr &probe(fcppt::optional::object<tr> &o, tr &v) { return fcppt::optional::assign(o, v); }
#else
#error "unknown C05_PROBE"
#endif

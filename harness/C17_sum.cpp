// C17 (part): optional, either, variant, tuple, array, record, enum array.
// Components range over {0,1,2} (strings "a","b","c" stand for 0,1,2 in the same order).
#include <C17_common.hpp>

#include <fcppt/array/comparison.hpp>
#include <fcppt/array/get.hpp>
#include <fcppt/array/init.hpp>
#include <fcppt/array/object.hpp>
#include <fcppt/either/comparison.hpp>
#include <fcppt/either/make_failure.hpp>
#include <fcppt/either/make_success.hpp>
#include <fcppt/either/object.hpp>
#include <fcppt/enum/array.hpp>
#include <fcppt/enum/array_comparison.hpp>
#include <fcppt/enum/array_init.hpp>
#include <fcppt/optional/assign.hpp>
#include <fcppt/optional/comparison.hpp>
#include <fcppt/optional/make.hpp>
#include <fcppt/optional/nothing.hpp>
#include <fcppt/optional/object.hpp>
#include <fcppt/record/comparison.hpp>
#include <fcppt/record/element.hpp>
#include <fcppt/record/get.hpp>
#include <fcppt/record/make_label.hpp>
#include <fcppt/record/object.hpp>
#include <fcppt/record/permute.hpp>
#include <fcppt/record/set.hpp>
#include <fcppt/tuple/comparison.hpp>
#include <fcppt/tuple/get.hpp>
#include <fcppt/tuple/make.hpp>
#include <fcppt/tuple/object.hpp>
#include <fcppt/variant/compare.hpp>
#include <fcppt/variant/comparison.hpp>
#include <fcppt/variant/object.hpp>

#include <string>
#include <type_traits>
#include <vector>

namespace
{
using c17::key_t;

std::string str_of(long v) { return std::string(1, static_cast<char>('a' + v)); }
// a long string with the same order (defeats the small-string buffer)
std::string long_str_of(long v) { return std::string(30, 'a') + static_cast<char>('a' + v); }

// ------------------------------------------------------------------ optional
void optionals()
{
  {
    using opt = fcppt::optional::object<int>;
    c17::universe<opt> u;
    c17::add(u, opt{}, key_t{0}, "default ctor");
    c17::add(u, opt{fcppt::optional::nothing{}}, key_t{0}, "from nothing");
    {
      opt o{1};
      o = opt{};
      c17::add(u, o, key_t{0}, "emptied by assignment");
    }
    for (int v = 0; v <= 2; ++v)
    {
      c17::add(u, opt{v}, key_t{1, v}, "value ctor");
      c17::add(u, fcppt::optional::make(v), key_t{1, v}, "make");
      opt e{};
      e = opt{v};
      c17::add(u, e, key_t{1, v}, "assigned over nothing");
      opt f{(v + 1) % 3};
      opt const src{v};
      f = src;
      c17::add(u, f, key_t{1, v}, "copy-assigned over another value");
      opt g{};
      int &r = fcppt::optional::assign(g, int{v});
      (void)r;
      c17::add(u, g, key_t{1, v}, "optional::assign");
      opt h{7};
      h.get_unsafe() = v;
      c17::add(u, h, key_t{1, v}, "written through get_unsafe");
    }
    for (auto const &e : u)
      if (e.value.has_value() != (e.key[0] == 1) || (e.value.has_value() && e.value.get_unsafe() != e.key[1]))
        vrt::fail("optional:expose:<int>", "has_value/get_unsafe disagree with " + c17::show(e));
    c17::check_type<c17::NE | c17::LT | c17::LEX>("optional", "<int>", u);
  }
  {
    using inner = fcppt::optional::object<int>;
    using opt = fcppt::optional::object<inner>;
    c17::universe<opt> u;
    c17::add(u, opt{}, key_t{0}, "nothing");
    c17::add(u, opt{inner{}}, key_t{1, 0}, "some(nothing)");
    {
      opt o{inner{2}};
      o.get_unsafe() = inner{};
      c17::add(u, o, key_t{1, 0}, "some(x) with x emptied");
      opt p{inner{}};
      p = opt{};
      c17::add(u, p, key_t{0}, "some(nothing) emptied");
    }
    for (int v = 0; v <= 2; ++v)
    {
      c17::add(u, opt{inner{v}}, key_t{1, 1, v}, "some(some(v))");
      opt o{};
      o = opt{inner{v}};
      c17::add(u, o, key_t{1, 1, v}, "assigned over nothing");
      opt p{inner{}};
      p.get_unsafe() = inner{v};
      c17::add(u, p, key_t{1, 1, v}, "inner assigned over nothing");
    }
    c17::check_type<c17::NE | c17::LT | c17::LEX>("optional", "<optional<int>>", u);
  }
  {
    using opt = fcppt::optional::object<std::string>;
    c17::universe<opt> u;
    c17::add(u, opt{}, key_t{0}, "default ctor");
    {
      opt o{long_str_of(1)};
      o = opt{};
      c17::add(u, o, key_t{0}, "emptied by assignment");
    }
    for (int v = 0; v <= 2; ++v)
    {
      c17::add(u, opt{long_str_of(v)}, key_t{1, v}, "value ctor");
      opt f{long_str_of((v + 1) % 3)};
      f = opt{long_str_of(v)};
      c17::add(u, f, key_t{1, v}, "assigned over another value");
      opt g{std::string{}};
      g.get_unsafe() = long_str_of(v);
      c17::add(u, g, key_t{1, v}, "written through get_unsafe");
    }
    c17::check_type<c17::NE | c17::LT | c17::LEX>("optional", "<string>", u);
  }
}

// ------------------------------------------------------------------ either
void eithers()
{
  using eith = fcppt::either::object<std::string, int>;
  c17::universe<eith> u;
  for (int v = 0; v <= 2; ++v)
  {
    c17::add(u, eith{v}, key_t{1, v}, "success ctor");
    c17::add(u, eith{str_of(v)}, key_t{0, v}, "failure ctor");
    c17::add(u, fcppt::either::make_success<std::string>(v), key_t{1, v}, "make_success");
    c17::add(u, fcppt::either::make_failure<int>(str_of(v)), key_t{0, v}, "make_failure");
    {
      eith e{str_of(v)};
      e = eith{v};
      c17::add(u, e, key_t{1, v}, "success assigned over a failure");
    }
    {
      eith e{v};
      e = eith{str_of(v)};
      c17::add(u, e, key_t{0, v}, "failure assigned over a success");
    }
    {
      eith e{7};
      e.get_success_unsafe() = v;
      c17::add(u, e, key_t{1, v}, "written through get_success_unsafe");
    }
    {
      eith e{std::string("zz")};
      e.get_failure_unsafe() = str_of(v);
      c17::add(u, e, key_t{0, v}, "written through get_failure_unsafe");
    }
  }
  for (auto const &e : u)
  {
    bool const s = e.key[0] == 1;
    if (e.value.has_success() != s || e.value.has_failure() == s ||
        (s ? e.value.get_success_unsafe() != e.key[1] : e.value.get_failure_unsafe() != str_of(e.key[1])))
      vrt::fail("either:expose:<string,int>", "observers disagree with " + c17::show(e));
  }
  c17::check_type<c17::NE>("either", "<string,int>", u);
}

// ------------------------------------------------------------------ variant
struct eq_fn
{
  template <class T> bool operator()(T const &a, T const &b) const { return a == b; }
};

void variants()
{
  using var = fcppt::variant::object<bool, int, std::string>;
  c17::universe<var> u;
  auto donors = [] {
    return std::vector<var>{var{true}, var{5}, var{std::string("donor")}, var{long_str_of(2)}};
  };
  auto reach = [&](var const &target, key_t const &k, std::string const &what) {
    c17::add(u, target, k, what + " ctor");
    std::size_t n = 0;
    for (var d : donors())
    {
      d = target; // copy assignment over another (or the same) alternative
      c17::add(u, d, k, what + " copy-assigned over donor " + std::to_string(n));
      var d2{donors()[n]};
      d2 = var{target}; // move assignment
      c17::add(u, d2, k, what + " move-assigned over donor " + std::to_string(n));
      ++n;
    }
  };
  for (int v = 0; v <= 1; ++v)
    reach(var{v == 1}, key_t{0, v}, "bool");
  for (int v = 0; v <= 2; ++v)
    reach(var{v}, key_t{1, v}, "int");
  for (int v = 0; v <= 2; ++v)
    reach(var{long_str_of(v)}, key_t{2, v}, "string");
  {
    var w{1};
    w.get_unsafe<int>() = 2;
    c17::add(u, w, key_t{1, 2}, "int written through get_unsafe");
  }
  for (auto const &e : u)
    if (e.value.is_invalid() || static_cast<long>(e.value.type_index()) != e.key[0])
      vrt::fail("variant:type_index:<bool,int,string>", "type_index disagrees with " + c17::show(e));
  // thin the triples in the quick tier: the full universe has 73 objects
  c17::check_type<c17::NE | c17::LT | c17::LEX>("variant", "<bool,int,string>", u, 0, 1, true);
  // variant::compare with an equality functor is operator==
  for (std::size_t i = 0; i < u.size(); ++i)
    for (std::size_t j = 0; j < u.size(); ++j)
    {
      if (!vrt::begin("variant::compare<bool,int,string>", i, j))
        continue;
      vrt::nontrivial(i != j);
      bool const r = fcppt::variant::compare(u[i].value, u[j].value, eq_fn{});
      VRT_CHECK(r == (u[i].key == u[j].key), "variant:compare:<bool,int,string>", "compare gave %d for %s vs %s", (int)r,
                c17::show(u[i]).c_str(), c17::show(u[j]).c_str());
    }
}

// ------------------------------------------------------------------ tuple, array
void tuples_arrays()
{
  {
    using tup = fcppt::tuple::object<int, int, int>;
    c17::universe<tup> u;
    for (key_t const &k : c17::tuples(3, 3))
    {
      int const a = static_cast<int>(k[0]), b = static_cast<int>(k[1]), c = static_cast<int>(k[2]);
      c17::add(u, tup{a, b, c}, k, "ctor");
      c17::add(u, fcppt::tuple::make(a, b, c), k, "make");
      tup t{9, 9, 9};
      fcppt::tuple::get<0>(t) = a;
      fcppt::tuple::get<1>(t) = b;
      fcppt::tuple::get<2>(t) = c;
      c17::add(u, t, k, "written through get<I>");
    }
    c17::check_type<c17::NE>("tuple", "<int,int,int>", u, 0, 1, vrt::thorough());
  }
  {
    using tup = fcppt::tuple::object<bool, std::string>;
    c17::universe<tup> u;
    for (int a = 0; a <= 1; ++a)
      for (int b = 0; b <= 2; ++b)
      {
        c17::add(u, tup{a == 1, long_str_of(b)}, key_t{a, b}, "ctor");
        tup t{a == 0, std::string{}};
        t = tup{a == 1, long_str_of(b)};
        c17::add(u, t, key_t{a, b}, "assigned");
      }
    c17::check_type<c17::NE>("tuple", "<bool,string>", u);
  }
  {
    using arr = fcppt::array::object<int, 3>;
    c17::universe<arr> u;
    for (key_t const &k : c17::tuples(3, 3))
    {
      int const a = static_cast<int>(k[0]), b = static_cast<int>(k[1]), c = static_cast<int>(k[2]);
      c17::add(u, arr{a, b, c}, k, "ctor");
      c17::add(u,
               fcppt::array::init<arr>([&]<std::size_t I>(std::integral_constant<std::size_t, I>)
                                       { return static_cast<int>(k[I]); }),
               k, "init");
      arr t{9, 9, 9};
      fcppt::array::get<0>(t) = a;
      t.get_unsafe(1) = b;
      *(t.begin() + 2) = c;
      c17::add(u, t, k, "written through get/get_unsafe/iterator");
    }
    c17::check_type<c17::NE>("array", "<int,3>", u, 0, 1, vrt::thorough());
  }
  {
    using arr = fcppt::array::object<int, 1>;
    c17::universe<arr> u;
    for (int v = 0; v <= 2; ++v)
    {
      c17::add(u, arr{v}, key_t{v}, "ctor");
      arr t{9};
      t.get_unsafe(0) = v;
      c17::add(u, t, key_t{v}, "written");
    }
    c17::check_type<c17::NE>("array", "<int,1>", u);
  }
}

// ------------------------------------------------------------------ record
FCPPT_RECORD_MAKE_LABEL(la);
FCPPT_RECORD_MAKE_LABEL(lb);
FCPPT_RECORD_MAKE_LABEL(lc);

void records()
{
  using ea = fcppt::record::element<la, int>;
  using eb = fcppt::record::element<lb, int>;
  using ec = fcppt::record::element<lc, std::string>;
  using r1 = fcppt::record::object<ea, eb, ec>;
  using r2 = fcppt::record::object<ec, ea, eb>; // equivalent, other element order
  c17::universe<r1> u1;
  c17::universe<r2> u2;
  bool const full = vrt::thorough();
  for (key_t const &k : c17::tuples(3, 3)) // key order: la, lb, lc
  {
    int const a = static_cast<int>(k[0]), b = static_cast<int>(k[1]);
    std::string const c = long_str_of(k[2]);
    c17::add(u1, r1{la{} = a, lb{} = b, lc{} = c}, k, "ctor");
    c17::add(u1, r1{lc{} = c, lb{} = b, la{} = a}, k, "ctor, arguments in another order");
    c17::add(u2, r2{la{} = a, lb{} = b, lc{} = c}, k, "ctor");
    if (full || k[0] == k[1])
    {
      r1 s{la{} = 9, lb{} = 9, lc{} = std::string("x")};
      fcppt::record::set<la>(s, a);
      fcppt::record::set<lb>(s, b);
      fcppt::record::set<lc>(s, c);
      c17::add(u1, s, k, "record::set");
      c17::add(u1, fcppt::record::permute<r1>(r2{la{} = a, lb{} = b, lc{} = c}), k, "permute from the other order");
      r2 t{la{} = 9, lb{} = 9, lc{} = std::string("x")};
      fcppt::record::get<la>(t) = a;
      fcppt::record::get<lb>(t) = b;
      fcppt::record::get<lc>(t) = c;
      c17::add(u2, t, k, "written through record::get");
    }
  }
  for (auto const &e : u1)
    if (fcppt::record::get<la>(e.value) != e.key[0] || fcppt::record::get<lb>(e.value) != e.key[1] ||
        fcppt::record::get<lc>(e.value) != long_str_of(e.key[2]))
      vrt::fail("record:get:<a,b,c>", "record::get disagrees with " + c17::show(e));
  c17::check_type<c17::NE>("record", "<a:int,b:int,c:string>", u1, 0, 1, vrt::thorough());
  c17::check_type<c17::NE>("record", "<c:string,a:int,b:int>", u2, 0, 1, true);
  // equivalent records with different element order compare by label
  for (std::size_t i = 0; i < u1.size(); ++i)
    for (std::size_t j = 0; j < u2.size(); ++j)
    {
      if (!vrt::begin("record:mixed_order:pair", i, j))
        continue;
      vrt::nontrivial(true);
      bool const keq = u1[i].key == u2[j].key;
      bool const e12 = u1[i].value == u2[j].value, e21 = u2[j].value == u1[i].value;
      bool const n12 = u1[i].value != u2[j].value, n21 = u2[j].value != u1[i].value;
      VRT_CHECK(e12 == keq && e21 == keq && n12 == !keq && n21 == !keq, "record:mixed_order_eq",
                "==:%d/%d !=:%d/%d, components %s: %s vs %s", (int)e12, (int)e21, (int)n12, (int)n21,
                keq ? "equal" : "differ", c17::show(u1[i]).c_str(), c17::show(u2[j]).c_str());
    }
}

// ------------------------------------------------------------------ enum array
enum class e3
{
  a,
  b,
  c,
  fcppt_maximum = c
};
enum class e1
{
  a,
  fcppt_maximum = a
};

void enum_arrays()
{
  {
    using arr = fcppt::enum_::array<e3, int>;
    c17::universe<arr> u;
    for (key_t const &k : c17::tuples(3, 3))
    {
      int const a = static_cast<int>(k[0]), b = static_cast<int>(k[1]), c = static_cast<int>(k[2]);
      c17::add(u, arr{a, b, c}, k, "ctor");
      c17::add(u,
               fcppt::enum_::array_init<arr>([&]<e3 E>(std::integral_constant<e3, E>)
                                             { return static_cast<int>(k[static_cast<std::size_t>(E)]); }),
               k, "array_init");
      arr t{9, 9, 9};
      t[e3::c] = c;
      t[e3::a] = a;
      *(t.begin() + 1) = b;
      c17::add(u, t, k, "written through operator[] / iterator");
    }
    for (auto const &e : u)
      if (e.value[e3::a] != e.key[0] || e.value[e3::b] != e.key[1] || e.value[e3::c] != e.key[2])
        vrt::fail("enum_array:index:<e3,int>", "operator[] disagrees with " + c17::show(e));
    c17::check_type<c17::NE>("enum_array", "<e3,int>", u, 0, 1, vrt::thorough());
  }
  {
    using arr = fcppt::enum_::array<e1, std::string>;
    c17::universe<arr> u;
    for (int v = 0; v <= 2; ++v)
    {
      c17::add(u, arr{long_str_of(v)}, key_t{v}, "ctor");
      arr t{std::string{}};
      t[e1::a] = long_str_of(v);
      c17::add(u, t, key_t{v}, "written");
    }
    c17::check_type<c17::NE>("enum_array", "<e1,string>", u);
  }
}

} // namespace

void register_sums()
{
  vrt::shard("optional", [] { optionals(); });
  vrt::shard("either", [] { eithers(); });
  vrt::shard("variant", [] { variants(); });
  vrt::shard("tuple_array", [] { tuples_arrays(); });
  vrt::shard("record", [] { records(); });
  vrt::shard("enum_array", [] { enum_arrays(); });
}

// C10, part b: enums with 8 and 9 enumerators (all subsets, all pairs)
#include "C10_common.hpp"

namespace c10
{
void register_b()
{
  register_enum<e8, 8>("e8", 2, 2);
  register_enum<e9, 9>("e9", 8, 4);
}
}

// C16, part 4: array::map / append / join / push_back / init / from_range, tuple::map / concat / push_back, and the
// algorithm functions (map, loop, loop_break, fold, index_of, at_optional) on fcppt arrays, tuples and mpl lists.
// Sizes are compile-time: every size 0..4 (init: 0..6) is instantiated, every content over {0,1,2} is enumerated.
#include "C16_common.hpp"

#include <fcppt/loop.hpp>
#include <fcppt/no_init.hpp>
#include <fcppt/tag.hpp>
#include <fcppt/algorithm/fold.hpp>
#include <fcppt/algorithm/index_of.hpp>
#include <fcppt/algorithm/loop.hpp>
#include <fcppt/algorithm/loop_break.hpp>
#include <fcppt/algorithm/loop_break_mpl.hpp>
#include <fcppt/algorithm/loop_break_tuple.hpp>
#include <fcppt/algorithm/map.hpp>
#include <fcppt/algorithm/map_array.hpp>
#include <fcppt/algorithm/map_optional.hpp>
#include <fcppt/algorithm/map_tuple.hpp>
#include <fcppt/algorithm/reverse.hpp>
#include <fcppt/array/append.hpp>
#include <fcppt/array/from_range.hpp>
#include <fcppt/array/init.hpp>
#include <fcppt/array/join.hpp>
#include <fcppt/array/map.hpp>
#include <fcppt/array/object_impl.hpp>
#include <fcppt/array/push_back.hpp>
#include <fcppt/container/at_optional.hpp>
#include <fcppt/container/join.hpp>
#include <fcppt/mpl/list/object.hpp>
#include <fcppt/optional/object_impl.hpp>
#include <fcppt/tuple/concat.hpp>
#include <fcppt/tuple/map.hpp>
#include <fcppt/tuple/object_impl.hpp>
#include <fcppt/tuple/push_back.hpp>

#include <tuple>
#include <type_traits>

namespace c16
{
namespace
{
template <std::size_t N> using arr = fcppt::array::object<int, N>;

// arrays are filled element by element: no fcppt algorithm takes part in building the inputs
template <std::size_t N> arr<N> make_arr(seq const &s)
{
  arr<N> a{fcppt::no_init{}};
  for (std::size_t i = 0; i < N; ++i)
    a.impl()[i] = s[i];
  return a;
}
template <class A> seq arr_contents(A const &a)
{
  seq r;
  for (std::size_t i = 0; i < a.impl().size(); ++i)
    r.push_back(static_cast<int>(a.impl()[i]));
  return r;
}

// all sequences over {0,1,2} of exactly this length
std::vector<seq> seqs_of_len(std::size_t n)
{
  std::vector<seq> r;
  for (seq const &s : all_seqs(3, static_cast<int>(n)))
    if (s.size() == n)
      r.push_back(s);
  return r;
}

// ------------------------------------------------------------------ array::map, algorithm::map on arrays
template <std::size_t N> void check_array_map()
{
  static std::string const n_am = "array::map<" + std::to_string(N) + ">";
  static std::string const n_alg = "algorithm::map<array>(array<" + std::to_string(N) + ">)";
  static std::string const n_vec = "algorithm::map<vector>(array<" + std::to_string(N) + ">)";
  seq &log = call_log();
  for (seq const &s : seqs_of_len(N))
    for (int f = 0; f < 27; ++f)
    {
      seq want;
      for (int x : s)
        want.push_back(apply3(f, x) + 10);
      std::string const descr = " " + show(s) + " " + show_fun3(f);
      auto const fn = [f, &log](int x) -> long {
        log.push_back(x);
        return apply3(f, x) + 10;
      };
      for (int rv = 0; rv < 2; ++rv)
      {
        if (!vrt::begin_text(n_am.c_str(), n_am + descr + (rv ? " rvalue" : " const lvalue")))
          continue;
        vrt::nontrivial(N >= 2);
        vrt::maybe_sample();
        arr<N> a = make_arr<N>(s);
        log.clear();
        auto const r = rv ? fcppt::array::map(std::move(a), fn) : fcppt::array::map(std::as_const(a), fn);
        static_assert(std::is_same_v<std::remove_cvref_t<decltype(r)>, fcppt::array::object<long, N>>);
        VRT_CHECK(log == s, n_am + ":visit_order", "called with %s want %s", show(log).c_str(), show(s).c_str());
        VRT_CHECK(arr_contents(r) == want, n_am + ":wrong", "got %s want %s", show(arr_contents(r)).c_str(),
                  show(want).c_str());
      }
      if (vrt::begin_text(n_alg.c_str(), n_alg + descr))
      {
        vrt::nontrivial(N >= 2);
        arr<N> const a = make_arr<N>(s);
        log.clear();
        auto const r = fcppt::algorithm::map<fcppt::array::object<long, N>>(a, fn);
        VRT_CHECK(log == s, n_alg + ":visit_order", "called with %s want %s", show(log).c_str(), show(s).c_str());
        VRT_CHECK(arr_contents(r) == want, n_alg + ":wrong", "got %s want %s", show(arr_contents(r)).c_str(),
                  show(want).c_str());
      }
      if (vrt::begin_text(n_vec.c_str(), n_vec + descr))
      {
        vrt::nontrivial(N >= 2);
        arr<N> const a = make_arr<N>(s);
        log.clear();
        std::vector<long> const r = fcppt::algorithm::map<std::vector<long>>(a, fn);
        VRT_CHECK(log == s, n_vec + ":visit_order", "called with %s want %s", show(log).c_str(), show(s).c_str());
        VRT_CHECK(contents(r) == want, n_vec + ":wrong", "got %s want %s", show(contents(r)).c_str(), show(want).c_str());
      }
    }
}

// loop, loop_break, fold, index_of, at_optional with an fcppt array as the range
template <std::size_t N> void check_array_as_range()
{
  static std::string const sz = "array<" + std::to_string(N) + ">";
  static std::string const n_loop = "loop(" + sz + ")";
  static std::string const n_break = "loop_break(" + sz + ")";
  static std::string const n_fold = "fold(" + sz + ")";
  static std::string const n_idx = "index_of(" + sz + ")";
  static std::string const n_at = "at_optional(" + sz + ")";
  seq &log = call_log();
  for (seq const &s : seqs_of_len(N))
  {
    std::string const ss = " " + show(s);
    arr<N> a = make_arr<N>(s);
    if (vrt::begin_text(n_loop.c_str(), n_loop + ss))
    {
      vrt::nontrivial(N >= 2);
      log.clear();
      fcppt::algorithm::loop(std::as_const(a), [&log](int e) { log.push_back(e); });
      VRT_CHECK(log == s, n_loop + ":wrong", "visited %s", show(log).c_str());
    }
    for (std::size_t k = 1; k <= N + 1; ++k)
    {
      if (!vrt::begin_text(n_break.c_str(), n_break + ss + " break_at_call=" + std::to_string(k)))
        continue;
      vrt::nontrivial(k <= N);
      log.clear();
      fcppt::algorithm::loop_break(a, [&log, k](int &e) {
        log.push_back(e);
        return log.size() == k ? fcppt::loop::break_ : fcppt::loop::continue_;
      });
      seq const want(s.begin(), s.begin() + static_cast<std::ptrdiff_t>(std::min(k, N)));
      VRT_CHECK(log == want, n_break + ":wrong", "visited %s want %s", show(log).c_str(), show(want).c_str());
    }
    if (vrt::begin_text(n_fold.c_str(), n_fold + ss))
    {
      vrt::nontrivial(N >= 2);
      std::string const r = fcppt::algorithm::fold(std::as_const(a), std::string("i"), [](int e, std::string st) {
        return "(" + st + "," + std::to_string(e) + ")";
      });
      std::string want = "i";
      for (int e : s)
        want = "(" + want + "," + std::to_string(e) + ")";
      VRT_CHECK(r == want, n_fold + ":wrong", "got %s want %s", r.c_str(), want.c_str());
    }
    for (int v = -1; v <= 3; ++v)
    {
      if (!vrt::begin_text(n_idx.c_str(), n_idx + ss + " value=" + std::to_string(v)))
        continue;
      std::size_t idx = 0;
      while (idx < N && s[idx] != v)
        ++idx;
      vrt::nontrivial(idx > 0 && idx < N);
      fcppt::optional::object<std::size_t> const r = fcppt::algorithm::index_of(std::as_const(a), v);
      VRT_CHECK(r.has_value() == (idx < N) && (!r.has_value() || r.get_unsafe() == idx), n_idx + ":wrong",
                "got %ld want %ld", r.has_value() ? static_cast<long>(r.get_unsafe()) : -1L, idx < N ? static_cast<long>(idx) : -1L);
    }
    for (std::size_t i = 0; i <= N + 1; ++i)
    {
      if (!vrt::begin_text(n_at.c_str(), n_at + ss + " index=" + std::to_string(i)))
        continue;
      vrt::nontrivial(i + 1 >= N);
      auto const r = fcppt::container::at_optional(a, i);
      VRT_CHECK(r.has_value() == (i < N), n_at + ":presence", "has_value=%d for index %zu of %zu", int(r.has_value()), i, N);
      if (r.has_value() && i < N)
        VRT_CHECK(&r.get_unsafe().get() == &a.impl()[i], n_at + ":wrong_element", "reference is not element %zu", i);
    }
  }
}

// ------------------------------------------------------------------ array::init
template <std::size_t N> void check_array_init()
{
  static std::string const name = "array::init<" + std::to_string(N) + ">";
  seq &log = call_log();
  for (seq const &s : seqs_of_len(N))
  {
    if (!vrt::begin_text(name.c_str(), name + " f(i)=" + show(s) + "[i]"))
      continue;
    vrt::nontrivial(N >= 2);
    vrt::maybe_sample();
    log.clear();
    arr<N> const r = fcppt::array::init<arr<N>>([&]<std::size_t I>(std::integral_constant<std::size_t, I>) {
      static_assert(I < N);
      log.push_back(static_cast<int>(I));
      return s[I];
    });
    seq idx;
    for (std::size_t i = 0; i < N; ++i)
      idx.push_back(static_cast<int>(i));
    // documented: "by calling _function(std::integral_constant<std::size_t, Index>) for every index" -- once per index;
    // the order of the calls is not documented (information counter only)
    VRT_CHECK(sorted(log) == idx, name + ":index_calls", "called with indices %s, want every index once", show(log).c_str());
    if (log != idx)
      vrt::count("info:" + name + ":index_order");
    VRT_CHECK(arr_contents(r) == s, name + ":wrong", "got %s want %s", show(arr_contents(r)).c_str(), show(s).c_str());
  }
}

// ------------------------------------------------------------------ array::append, push_back, join (rvalue arguments;
// lvalue arguments are covered by the compile probes C16_probe_*.cpp)
template <std::size_t N, std::size_t M> void check_array_append()
{
  static std::string const name = "array::append<" + std::to_string(N) + "," + std::to_string(M) + ">";
  for (seq const &a : seqs_of_len(N))
    for (seq const &b : seqs_of_len(M))
    {
      if (!vrt::begin_text(name.c_str(), name + " " + show(a) + " " + show(b)))
        continue;
      vrt::nontrivial(N >= 1 && M >= 1);
      vrt::maybe_sample();
      auto const r = fcppt::array::append(make_arr<N>(a), make_arr<M>(b));
      static_assert(std::is_same_v<std::remove_cvref_t<decltype(r)>, arr<N + M>>);
      seq want = a;
      want.insert(want.end(), b.begin(), b.end());
      VRT_CHECK(arr_contents(r) == want, name + ":wrong", "got %s want %s", show(arr_contents(r)).c_str(), show(want).c_str());
    }
}
template <std::size_t N> void check_array_append_row()
{
  check_array_append<N, 0>();
  check_array_append<N, 1>();
  check_array_append<N, 2>();
  check_array_append<N, 3>();
}

template <std::size_t N> void check_array_push_back()
{
  static std::string const name = "array::push_back<" + std::to_string(N) + ">";
  for (seq const &a : seqs_of_len(N))
    for (int v = 0; v < 3; ++v)
      for (int lv = 0; lv < 2; ++lv)
      {
        if (!vrt::begin_text(name.c_str(), name + " " + show(a) + " " + std::to_string(v) + (lv ? " lvalue element" : " rvalue element")))
          continue;
        vrt::nontrivial(N >= 1);
        int elem = v;
        auto const r = lv ? fcppt::array::push_back(make_arr<N>(a), elem) : fcppt::array::push_back(make_arr<N>(a), int{v});
        static_assert(std::is_same_v<std::remove_cvref_t<decltype(r)>, arr<N + 1>>);
        seq want = a;
        want.push_back(v);
        VRT_CHECK(arr_contents(r) == want, name + ":wrong", "got %s want %s", show(arr_contents(r)).c_str(), show(want).c_str());
      }
}

template <std::size_t N, std::size_t M, std::size_t K> void check_array_join()
{
  static std::string const name = "array::join<" + std::to_string(N) + "," + std::to_string(M) + "," + std::to_string(K) + ">";
  for (seq const &a : seqs_of_len(N))
    for (seq const &b : seqs_of_len(M))
      for (seq const &c : seqs_of_len(K))
      {
        if (!vrt::begin_text(name.c_str(), name + " " + show(a) + " " + show(b) + " " + show(c)))
          continue;
        vrt::nontrivial(N >= 1 && M >= 1 && K >= 1);
        vrt::maybe_sample();
        auto const r = fcppt::array::join(make_arr<N>(a), make_arr<M>(b), make_arr<K>(c));
        static_assert(std::is_same_v<std::remove_cvref_t<decltype(r)>, arr<N + M + K>>);
        seq want = a;
        want.insert(want.end(), b.begin(), b.end());
        want.insert(want.end(), c.begin(), c.end());
        VRT_CHECK(arr_contents(r) == want, name + ":wrong", "got %s want %s", show(arr_contents(r)).c_str(), show(want).c_str());
      }
}
template <std::size_t N, std::size_t M> void check_array_join_row()
{
  check_array_join<N, M, 0>();
  check_array_join<N, M, 1>();
  check_array_join<N, M, 2>();
}
template <std::size_t N> void check_array_join_plane()
{
  check_array_join_row<N, 0>();
  check_array_join_row<N, 1>();
  check_array_join_row<N, 2>();
  // one and two arguments
  static std::string const name = "array::join<" + std::to_string(N) + "> / <" + std::to_string(N) + ",1>";
  for (seq const &a : seqs_of_len(N))
  {
    if (!vrt::begin_text(name.c_str(), name + " " + show(a)))
      continue;
    auto const r1 = fcppt::array::join(make_arr<N>(a));
    auto const r2 = fcppt::array::join(make_arr<N>(a), make_arr<1>(seq{2}));
    seq want = a;
    VRT_CHECK(arr_contents(r1) == want, name + ":wrong1", "got %s", show(arr_contents(r1)).c_str());
    want.push_back(2);
    VRT_CHECK(arr_contents(r2) == want, name + ":wrong2", "got %s", show(arr_contents(r2)).c_str());
  }
}

// ------------------------------------------------------------------ array::from_range
template <std::size_t Size, class K, bool Rvalue> void check_from_range()
{
  static std::string const name = "array::from_range<" + std::to_string(Size) + ">(" + K::name + (Rvalue ? "&&)" : " const&)");
  for (seq const &s : seqs3())
  {
    if (!vrt::begin_text(name.c_str(), name + " " + show(s)))
      continue;
    vrt::nontrivial(s.size() + 1 >= Size && s.size() <= Size + 1); // at or next to the required size
    vrt::maybe_sample();
    typename K::type src = K::make(s);
    auto const r = Rvalue ? fcppt::array::from_range<Size>(std::move(src)) : fcppt::array::from_range<Size>(std::as_const(src));
    static_assert(std::is_same_v<std::remove_cvref_t<decltype(r)>,
                                 fcppt::optional::object<fcppt::array::object<typename K::type::value_type, Size>>>);
    if (s.size() == Size)
    {
      VRT_CHECK(r.has_value(), name + ":missing", "range of the right size gave nothing");
      if (r.has_value())
      {
        seq got;
        for (auto v : r.get_unsafe().impl())
          got.push_back(std::is_same_v<K, k_string> ? v - 'a' : static_cast<int>(v));
        VRT_CHECK(got == s, name + ":wrong", "got %s", show(got).c_str());
      }
    }
    else
      VRT_CHECK(!r.has_value(), name + ":spurious", "range of size %zu gave an array of %zu", s.size(), Size);
  }
}
template <std::size_t Size> void check_from_range_size()
{
  check_from_range<Size, k_vector, false>();
  check_from_range<Size, k_vector, true>();
  check_from_range<Size, k_deque, false>();
  check_from_range<Size, k_string, false>();
}

// ------------------------------------------------------------------ tuples
template <std::size_t N> struct tuple_of;
template <> struct tuple_of<0>
{
  using type = fcppt::tuple::object<>;
};
template <> struct tuple_of<1>
{
  using type = fcppt::tuple::object<int>;
};
template <> struct tuple_of<2>
{
  using type = fcppt::tuple::object<int, long>;
};
template <> struct tuple_of<3>
{
  using type = fcppt::tuple::object<int, long, char>;
};
template <> struct tuple_of<4>
{
  using type = fcppt::tuple::object<int, long, char, short>;
};
template <std::size_t N> using tuple_t = typename tuple_of<N>::type;

template <class T, std::size_t... I> T make_tuple_impl(seq const &s, std::index_sequence<I...>)
{
  return T(static_cast<std::tuple_element_t<I, typename T::impl_type>>(s[I])...);
}
template <std::size_t N> tuple_t<N> make_tup(seq const &s)
{
  return make_tuple_impl<tuple_t<N>>(s, std::make_index_sequence<N>{});
}
template <class T> seq tup_contents(T const &t)
{
  return std::apply([](auto const &...v) { return seq{static_cast<int>(v)...}; }, t.impl());
}

template <std::size_t N> void check_tuple_map()
{
  static std::string const n_tm = "tuple::map<" + std::to_string(N) + ">";
  static std::string const n_ts = "tuple::map<" + std::to_string(N) + ">:to_string";
  static std::string const n_alg = "algorithm::map<tuple>(tuple<" + std::to_string(N) + ">)";
  seq &log = call_log();
  for (seq const &s : seqs_of_len(N))
    for (int f = 0; f < 27; ++f)
    {
      seq want;
      for (int x : s)
        want.push_back(apply3(f, x));
      std::string const descr = " " + show(s) + " " + show_fun3(f);
      // keeps the element type: int stays int, long stays long, ...
      auto const fn = [f, &log](auto v) {
        log.push_back(static_cast<int>(v));
        return static_cast<decltype(v)>(apply3(f, static_cast<int>(v)));
      };
      for (int rv = 0; rv < 2; ++rv)
      {
        if (!vrt::begin_text(n_tm.c_str(), n_tm + descr + (rv ? " rvalue" : " const lvalue")))
          continue;
        vrt::nontrivial(N >= 2);
        vrt::maybe_sample();
        tuple_t<N> t = make_tup<N>(s);
        log.clear();
        auto const r = rv ? fcppt::tuple::map(std::move(t), fn) : fcppt::tuple::map(std::as_const(t), fn);
        static_assert(std::is_same_v<std::remove_cvref_t<decltype(r)>, tuple_t<N>>);
        VRT_CHECK(log == s, n_tm + ":visit_order", "called with %s want %s", show(log).c_str(), show(s).c_str());
        VRT_CHECK(tup_contents(r) == want, n_tm + ":wrong", "got %s want %s", show(tup_contents(r)).c_str(), show(want).c_str());
      }
      if (vrt::begin_text(n_alg.c_str(), n_alg + descr))
      {
        vrt::nontrivial(N >= 2);
        tuple_t<N> const t = make_tup<N>(s);
        log.clear();
        tuple_t<N> const r = fcppt::algorithm::map<tuple_t<N>>(t, fn);
        VRT_CHECK(log == s, n_alg + ":visit_order", "called with %s want %s", show(log).c_str(), show(s).c_str());
        VRT_CHECK(tup_contents(r) == want, n_alg + ":wrong", "got %s want %s", show(tup_contents(r)).c_str(), show(want).c_str());
      }
    }
  // a function that changes every element type
  for (seq const &s : seqs_of_len(N))
  {
    if (!vrt::begin_text(n_ts.c_str(), n_ts + " " + show(s)))
      continue;
    vrt::nontrivial(N >= 2);
    tuple_t<N> const t = make_tup<N>(s);
    auto const r = fcppt::tuple::map(t, [](auto v) { return std::to_string(static_cast<int>(v)); });
    std::string got = std::apply([](auto const &...v) { return (std::string() + ... + (v + ";")); }, r.impl());
    std::string want;
    for (int x : s)
      want += std::to_string(x) + ";";
    VRT_CHECK(got == want, n_ts + ":wrong", "got %s want %s", got.c_str(), want.c_str());
  }
}

template <std::size_t N> void check_tuple_as_range()
{
  static std::string const sz = "tuple<" + std::to_string(N) + ">";
  static std::string const n_loop = "loop(" + sz + ")";
  static std::string const n_break = "loop_break(" + sz + ")";
  static std::string const n_fold = "fold(" + sz + ")";
  seq &log = call_log();
  for (seq const &s : seqs_of_len(N))
  {
    std::string const ss = " " + show(s);
    tuple_t<N> t = make_tup<N>(s);
    if (vrt::begin_text(n_loop.c_str(), n_loop + ss))
    {
      vrt::nontrivial(N >= 2);
      log.clear();
      fcppt::algorithm::loop(std::as_const(t), [&log](auto const &e) { log.push_back(static_cast<int>(e)); });
      VRT_CHECK(log == s, n_loop + ":wrong", "visited %s", show(log).c_str());
    }
    for (std::size_t k = 1; k <= N + 1; ++k)
    {
      if (!vrt::begin_text(n_break.c_str(), n_break + ss + " break_at_call=" + std::to_string(k)))
        continue;
      vrt::nontrivial(k <= N);
      vrt::maybe_sample();
      log.clear();
      fcppt::algorithm::loop_break(t, [&log, k](auto &e) {
        log.push_back(static_cast<int>(e));
        return log.size() == k ? fcppt::loop::break_ : fcppt::loop::continue_;
      });
      seq const want(s.begin(), s.begin() + static_cast<std::ptrdiff_t>(std::min(k, N)));
      VRT_CHECK(log == want, n_break + ":wrong", "visited %s want %s", show(log).c_str(), show(want).c_str());
    }
    if (vrt::begin_text(n_fold.c_str(), n_fold + ss))
    {
      vrt::nontrivial(N >= 2);
      std::string const r = fcppt::algorithm::fold(std::as_const(t), std::string("i"), [](auto const &e, std::string st) {
        return "(" + st + "," + std::to_string(static_cast<int>(e)) + ")";
      });
      std::string want = "i";
      for (int e : s)
        want = "(" + want + "," + std::to_string(e) + ")";
      VRT_CHECK(r == want, n_fold + ":wrong", "got %s want %s", r.c_str(), want.c_str());
    }
  }
}

template <std::size_t N> void check_tuple_push_back()
{
  static std::string const name = "tuple::push_back<" + std::to_string(N) + ">";
  for (seq const &s : seqs_of_len(N))
    for (int v = 0; v < 3; ++v)
      for (int mode = 0; mode < 3; ++mode)
      {
        // 0: (tuple&&, short&&)  1: (tuple const&, short&)  2: (tuple&&, std::string&&)
        static char const *const mn[3] = {" (&&,short&&)", " (const&,short&)", " (&&,string)"};
        if (!vrt::begin_text(name.c_str(), name + " " + show(s) + " " + std::to_string(v) + mn[mode]))
          continue;
        vrt::nontrivial(N >= 1);
        vrt::maybe_sample();
        seq want = s;
        want.push_back(v);
        tuple_t<N> t = make_tup<N>(s);
        short sv = static_cast<short>(v);
        if (mode == 2)
        {
          auto const r = fcppt::tuple::push_back(std::move(t), std::to_string(v));
          static_assert(std::tuple_size_v<typename std::remove_cvref_t<decltype(r)>::impl_type> == N + 1);
          static_assert(std::is_same_v<std::tuple_element_t<N, typename std::remove_cvref_t<decltype(r)>::impl_type>, std::string>);
          seq got = std::apply(
              [](auto const &...e) {
                seq g;
                auto const add = [&g](auto const &x) {
                  if constexpr (std::is_same_v<std::remove_cvref_t<decltype(x)>, std::string>)
                    g.push_back(std::stoi(x));
                  else
                    g.push_back(static_cast<int>(x));
                };
                (add(e), ...);
                return g;
              },
              r.impl());
          VRT_CHECK(got == want, name + ":wrong", "got %s want %s", show(got).c_str(), show(want).c_str());
        }
        else
        {
          auto const r = mode == 0 ? fcppt::tuple::push_back(std::move(t), short{sv}) : fcppt::tuple::push_back(std::as_const(t), sv);
          static_assert(std::tuple_size_v<typename std::remove_cvref_t<decltype(r)>::impl_type> == N + 1);
          static_assert(std::is_same_v<std::tuple_element_t<N, typename std::remove_cvref_t<decltype(r)>::impl_type>, short>);
          VRT_CHECK(tup_contents(r) == want, name + ":wrong", "got %s want %s", show(tup_contents(r)).c_str(), show(want).c_str());
        }
      }
}

template <std::size_t N, std::size_t M> void check_tuple_concat()
{
  static std::string const name = "tuple::concat<" + std::to_string(N) + "," + std::to_string(M) + ">";
  static std::string const name3 = "tuple::concat<" + std::to_string(N) + "," + std::to_string(M) + ",1>";
  for (seq const &a : seqs_of_len(N))
    for (seq const &b : seqs_of_len(M))
    {
      seq want = a;
      want.insert(want.end(), b.begin(), b.end());
      if (vrt::begin_text(name.c_str(), name + " " + show(a) + " " + show(b)))
      {
        vrt::nontrivial(N >= 1 && M >= 1);
        vrt::maybe_sample();
        auto const r = fcppt::tuple::concat(make_tup<N>(a), make_tup<M>(b));
        static_assert(std::tuple_size_v<typename std::remove_cvref_t<decltype(r)>::impl_type> == N + M);
        VRT_CHECK(tup_contents(r) == want, name + ":wrong", "got %s want %s", show(tup_contents(r)).c_str(), show(want).c_str());
      }
      if (vrt::begin_text(name3.c_str(), name3 + " " + show(a) + " " + show(b) + " [2]"))
      {
        vrt::nontrivial(N >= 1 && M >= 1);
        auto const r = fcppt::tuple::concat(make_tup<N>(a), make_tup<M>(b), make_tup<1>(seq{2}));
        static_assert(std::tuple_size_v<typename std::remove_cvref_t<decltype(r)>::impl_type> == N + M + 1);
        want.push_back(2);
        VRT_CHECK(tup_contents(r) == want, name3 + ":wrong", "got %s want %s", show(tup_contents(r)).c_str(), show(want).c_str());
      }
    }
}
template <std::size_t N> void check_tuple_concat_row()
{
  check_tuple_concat<N, 0>();
  check_tuple_concat<N, 1>();
  check_tuple_concat<N, 2>();
  check_tuple_concat<N, 3>();
}

// ------------------------------------------------------------------ lvalue arguments are not moved from
// Elements are std::strings taken by value by the callbacks: if an lvalue argument were treated as an rvalue
// (move_if_rvalue / move_iterator_if_rvalue with the wrong type), its strings would be left empty.
void check_no_steal()
{
  static std::string const name = "lvalue_not_moved_from";
  using svec = std::vector<std::string>;
  auto const strings = [](seq const &s) {
    svec r;
    for (int x : s)
      r.push_back(std::string("element-") + std::to_string(x) + "-long-enough-to-live-on-the-heap");
    return r;
  };
  auto const by_value = [](std::string s) { return s; };
  for (seq const &s : all_seqs(3, 4))
  {
    svec const orig = strings(s);
    std::string const ss = " " + show(s);
    auto const run = [&](char const *what, auto body) {
      if (!vrt::begin_text(name.c_str(), name + " " + what + ss))
        return;
      vrt::nontrivial(!s.empty());
      vrt::maybe_sample();
      body();
    };
    run("map(vector&)", [&] {
      svec src = orig;
      svec const r = fcppt::algorithm::map<svec>(src, by_value);
      VRT_CHECK(r == orig, name + ":map:wrong", "wrong result");
      VRT_CHECK(src == orig, name + ":map", "source changed: now %s", show(src).c_str());
    });
    run("map_optional(vector&)", [&] {
      svec src = orig;
      svec const r = fcppt::algorithm::map_optional<svec>(src, [](std::string v) { return fcppt::optional::object<std::string>{v}; });
      VRT_CHECK(r == orig, name + ":map_optional:wrong", "wrong result");
      VRT_CHECK(src == orig, name + ":map_optional", "source changed: now %s", show(src).c_str());
    });
    run("fold(vector&)", [&] {
      svec src = orig;
      std::size_t const n = fcppt::algorithm::fold(src, std::size_t{0}, [](std::string v, std::size_t c) { return c + (v.empty() ? 0U : 1U); });
      VRT_CHECK(n == orig.size(), name + ":fold:wrong", "wrong result");
      VRT_CHECK(src == orig, name + ":fold", "source changed: now %s", show(src).c_str());
    });
    run("join(vector&,vector&,vector&&)", [&] {
      svec a = orig, b = orig;
      svec const r = fcppt::container::join(a, b, svec(orig));
      svec want = orig;
      want.insert(want.end(), orig.begin(), orig.end());
      want.insert(want.end(), orig.begin(), orig.end());
      VRT_CHECK(r == want, name + ":join:wrong", "got %s", show(r).c_str());
      VRT_CHECK(a == orig && b == orig, name + ":join", "arguments changed: now %s and %s", show(a).c_str(), show(b).c_str());
    });
    run("join(vector&&,vector&)", [&] {
      svec b = orig;
      svec const r = fcppt::container::join(svec(orig), b);
      VRT_CHECK(r.size() == 2 * orig.size(), name + ":join2:wrong", "got %s", show(r).c_str());
      VRT_CHECK(b == orig, name + ":join2", "lvalue argument changed: now %s", show(b).c_str());
    });
    run("reverse(vector&)", [&] {
      svec src = orig;
      svec const r = fcppt::algorithm::reverse(src);
      VRT_CHECK(r == svec(orig.rbegin(), orig.rend()), name + ":reverse:wrong", "got %s", show(r).c_str());
      VRT_CHECK(src == orig, name + ":reverse", "source changed: now %s", show(src).c_str());
    });
    if (s.size() == 2)
    {
      // every mix of value categories: only the rvalue arguments may be moved from
      run("array::append / join / push_back, tuple::concat (mixed lvalues and rvalues)", [&] {
        using sarr2 = fcppt::array::object<std::string, 2>;
        using sarr1 = fcppt::array::object<std::string, 1>;
        auto const same = [&orig](auto const &a) {
          bool ok = true;
          for (std::size_t i = 0; i < a.impl().size(); ++i)
            ok = ok && a.impl()[i] == orig[i % 2];
          return ok;
        };
        sarr2 a{orig[0], orig[1]}, b{orig[0], orig[1]}, c{orig[0], orig[1]};
        auto const r1 = fcppt::array::append(sarr2{orig[0], orig[1]}, b);
        VRT_CHECK(same(b) && same(r1), name + ":array::append(&&,&)", "lvalue second argument changed: now [%s,%s]",
                  b.impl()[0].c_str(), b.impl()[1].c_str());
        auto const r2 = fcppt::array::append(a, sarr2{orig[0], orig[1]});
        VRT_CHECK(same(a) && same(r2), name + ":array::append(&,&&)", "lvalue first argument changed: now [%s,%s]",
                  a.impl()[0].c_str(), a.impl()[1].c_str());
        auto const r3 = fcppt::array::append(a, b);
        VRT_CHECK(same(a) && same(b) && same(r3), name + ":array::append(&,&)", "lvalue arguments changed");
        auto const r4 = fcppt::array::join(a, b, c);
        VRT_CHECK(same(a) && same(b) && same(c) && same(r4) && r4.impl().size() == 6, name + ":array::join(&,&,&)",
                  "lvalue arguments changed: c is now [%s,%s]", c.impl()[0].c_str(), c.impl()[1].c_str());
        auto const r5 = fcppt::array::join(sarr2{orig[0], orig[1]}, b, c);
        VRT_CHECK(same(b) && same(c) && same(r5), name + ":array::join(&&,&,&)", "lvalue arguments changed");
        auto const r6 = fcppt::array::join(a, sarr2{orig[0], orig[1]}, c);
        VRT_CHECK(same(a) && same(c) && same(r6), name + ":array::join(&,&&,&)", "lvalue arguments changed");
        std::string extra = orig[0];
        auto const r7 = fcppt::array::push_back(a, extra);
        VRT_CHECK(same(a) && extra == orig[0] && same(r7), name + ":array::push_back(&,&)", "lvalue arguments changed");
        auto const r8 = fcppt::array::push_back(sarr2{orig[0], orig[1]}, extra);
        VRT_CHECK(extra == orig[0] && same(r8), name + ":array::push_back(&&,&)", "lvalue element changed: now %s", extra.c_str());
        sarr1 one{orig[0]};
        auto const r9 = fcppt::array::push_back(one, std::string(orig[1]));
        VRT_CHECK(one.impl()[0] == orig[0] && same(r9), name + ":array::push_back(&,&&)", "lvalue array changed");
        using stup = fcppt::tuple::object<std::string, std::string>;
        stup t1{orig[0], orig[1]}, t2{orig[0], orig[1]};
        auto const tsame = [&orig](stup const &t) { return std::get<0>(t.impl()) == orig[0] && std::get<1>(t.impl()) == orig[1]; };
        auto const c1 = fcppt::tuple::concat(stup{orig[0], orig[1]}, t2);
        VRT_CHECK(tsame(t2) && std::get<3>(c1.impl()) == orig[1], name + ":tuple::concat(&&,&)", "lvalue second argument changed");
        auto const c2 = fcppt::tuple::concat(t1, stup{orig[0], orig[1]});
        VRT_CHECK(tsame(t1) && std::get<0>(c2.impl()) == orig[0], name + ":tuple::concat(&,&&)", "lvalue first argument changed");
        auto const c3 = fcppt::tuple::concat(t1, t2);
        VRT_CHECK(tsame(t1) && tsame(t2) && std::get<2>(c3.impl()) == orig[0], name + ":tuple::concat(&,&)", "lvalue arguments changed");
      });
      run("array::map / from_range / tuple::map / tuple::push_back (lvalues)", [&] {
        fcppt::array::object<std::string, 2> arr2{orig[0], orig[1]};
        auto const r1 = fcppt::array::map(arr2, by_value);
        VRT_CHECK(arr2.impl()[0] == orig[0] && arr2.impl()[1] == orig[1] && r1.impl()[1] == orig[1], name + ":array::map",
                  "array changed: now [%s,%s]", arr2.impl()[0].c_str(), arr2.impl()[1].c_str());
        svec src = orig;
        auto const r2 = fcppt::array::from_range<2>(src);
        VRT_CHECK(src == orig && r2.has_value() && r2.get_unsafe().impl()[0] == orig[0], name + ":array::from_range",
                  "source changed: now %s", show(src).c_str());
        fcppt::tuple::object<std::string, std::string> tup{orig[0], orig[1]};
        auto const r3 = fcppt::tuple::map(tup, by_value);
        VRT_CHECK(std::get<0>(tup.impl()) == orig[0] && std::get<1>(tup.impl()) == orig[1] &&
                      std::get<1>(r3.impl()) == orig[1],
                  name + ":tuple::map", "tuple changed: now (%s,%s)", std::get<0>(tup.impl()).c_str(),
                  std::get<1>(tup.impl()).c_str());
        std::string extra = orig[0];
        auto const r4 = fcppt::tuple::push_back(tup, extra);
        VRT_CHECK(std::get<0>(tup.impl()) == orig[0] && std::get<1>(tup.impl()) == orig[1] && extra == orig[0] &&
                      std::get<2>(r4.impl()) == orig[0],
                  name + ":tuple::push_back", "arguments changed: now (%s,%s) and %s", std::get<0>(tup.impl()).c_str(),
                  std::get<1>(tup.impl()).c_str(), extra.c_str());
      });
    }
  }
}

// ------------------------------------------------------------------ mpl lists as ranges
template <int... V> void check_mpl_list()
{
  using list = fcppt::mpl::list::object<std::integral_constant<int, V>...>;
  seq const s{V...};
  static std::string const ls = "mpl::list" + show(seq{V...});
  static std::string const n_loop = "loop(" + ls + ")";
  static std::string const n_break = "loop_break(" + ls + ")";
  static std::string const n_map = "map<vector>(" + ls + ")";
  seq &log = call_log();
  if (vrt::begin_text(n_loop.c_str(), n_loop))
  {
    vrt::nontrivial(s.size() >= 2);
    log.clear();
    fcppt::algorithm::loop(list{}, [&log]<int I>(fcppt::tag<std::integral_constant<int, I>>) { log.push_back(I); });
    VRT_CHECK(log == s, n_loop + ":wrong", "visited %s", show(log).c_str());
  }
  for (std::size_t k = 1; k <= s.size() + 1; ++k)
  {
    if (!vrt::begin_text(n_break.c_str(), n_break + " break_at_call=" + std::to_string(k)))
      continue;
    vrt::nontrivial(k <= s.size());
    vrt::maybe_sample();
    log.clear();
    fcppt::algorithm::loop_break(list{}, [&log, k]<int I>(fcppt::tag<std::integral_constant<int, I>>) {
      log.push_back(I);
      return log.size() == k ? fcppt::loop::break_ : fcppt::loop::continue_;
    });
    seq const want(s.begin(), s.begin() + static_cast<std::ptrdiff_t>(std::min(k, s.size())));
    VRT_CHECK(log == want, n_break + ":wrong", "visited %s want %s", show(log).c_str(), show(want).c_str());
  }
  for (int f = 0; f < 27; ++f)
  {
    if (!vrt::begin_text(n_map.c_str(), n_map + " " + show_fun3(f)))
      continue;
    vrt::nontrivial(s.size() >= 2);
    log.clear();
    std::vector<int> const r =
        fcppt::algorithm::map<std::vector<int>>(list{}, [&log, f]<int I>(fcppt::tag<std::integral_constant<int, I>>) {
          log.push_back(I);
          return apply3(f, I);
        });
    seq want;
    for (int x : s)
      want.push_back(apply3(f, x));
    VRT_CHECK(log == s, n_map + ":visit_order", "called with %s", show(log).c_str());
    VRT_CHECK(r == want, n_map + ":wrong", "got %s want %s", show(r).c_str(), show(want).c_str());
  }
}
}

void register_array_tuple_shards()
{
  c16::shard("array/map", [] {
    check_array_map<0>();
    check_array_map<1>();
    check_array_map<2>();
    check_array_map<3>();
    check_array_map<4>();
  });
  c16::shard("array/as_range_init", [] {
    check_array_as_range<0>();
    check_array_as_range<1>();
    check_array_as_range<2>();
    check_array_as_range<3>();
    check_array_as_range<4>();
    check_array_init<0>();
    check_array_init<1>();
    check_array_init<2>();
    check_array_init<3>();
    check_array_init<4>();
    check_array_init<5>();
    check_array_init<6>();
  });
  c16::shard("array/append_push_back", [] {
    check_array_append_row<0>();
    check_array_append_row<1>();
    check_array_append_row<2>();
    check_array_append_row<3>();
    check_array_push_back<0>();
    check_array_push_back<1>();
    check_array_push_back<2>();
    check_array_push_back<3>();
    check_array_push_back<4>();
  });
  c16::shard("array/join", [] {
    check_array_join_plane<0>();
    check_array_join_plane<1>();
    check_array_join_plane<2>();
  });
  c16::shard("array/from_range", [] {
    check_from_range_size<0>();
    check_from_range_size<1>();
    check_from_range_size<2>();
    check_from_range_size<3>();
    check_from_range_size<4>();
    check_from_range_size<5>();
    check_from_range_size<7>();
  });
  c16::shard("tuple/map", [] {
    check_tuple_map<0>();
    check_tuple_map<1>();
    check_tuple_map<2>();
    check_tuple_map<3>();
    check_tuple_map<4>();
  });
  c16::shard("tuple/as_range_push_back", [] {
    check_tuple_as_range<0>();
    check_tuple_as_range<1>();
    check_tuple_as_range<2>();
    check_tuple_as_range<3>();
    check_tuple_as_range<4>();
    check_tuple_push_back<0>();
    check_tuple_push_back<1>();
    check_tuple_push_back<2>();
    check_tuple_push_back<3>();
  });
  c16::shard("tuple/concat", [] {
    check_tuple_concat_row<0>();
    check_tuple_concat_row<1>();
    check_tuple_concat_row<2>();
    check_tuple_concat_row<3>();
  });
  c16::shard("lvalue_not_moved_from", [] { check_no_steal(); });
  c16::shard("mpl_list", [] {
    check_mpl_list<>();
    check_mpl_list<1>();
    check_mpl_list<2, 0>();
    check_mpl_list<0, 1, 2>();
    check_mpl_list<2, 2, 1, 0>();
    check_mpl_list<1, 0, 2, 2, 0, 1>();
  });
}
}

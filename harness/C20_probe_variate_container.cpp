// C20 compile probe: a variate over wrapper::uniform_container (make_variate(generator, container
// distribution)): "uniform_container only yields elements of its container" is stated for draws
// through a variate as well.  uniform_container is a distribution without param()/reset(): variate
// may only require what it documents (copy construction and operator()(generator)).
// Must compile; it is never run.
#include <fcppt/make_ref.hpp>
#include <fcppt/reference_impl.hpp>
#include <fcppt/random/make_variate.hpp>
#include <fcppt/random/variate.hpp>
#include <fcppt/random/distribution/parameters/uniform_int_wrapper.hpp>
#include <fcppt/random/generator/minstd_rand.hpp>
#include <fcppt/random/wrapper/uniform_container.hpp>

#include <vector>

using container = std::vector<int>;
using dist = fcppt::random::wrapper::uniform_container<container, fcppt::random::distribution::parameters::uniform_int_wrapper>;

int c20_probe_variate_container(fcppt::random::generator::minstd_rand &_gen, dist const &_d)
{
  auto v = fcppt::random::make_variate(fcppt::make_ref(_gen), _d);
  fcppt::random::variate<fcppt::random::generator::minstd_rand, dist> w(fcppt::make_ref(_gen), _d);
  return v() + w();
}

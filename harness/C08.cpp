// C08 -- Grid positions, offsets and ranges form an exact row-major bijection (fcppt::container::grid).
// Engine E: every grid size with extents 0..4 in 1, 2 and 3 dimensions, every (min, sup) pair with components
// 0..5, every position in a margin around the grid is enumerated and compared with explicit nested loops in
// storage order (C08_common.hpp).  Parts: C08_pos.cpp (free functions on positions, three size types),
// C08_grid.cpp (grid::object, at_optional, pos_ref ranges), C08_ops.cpp (resize/map/apply/fill/clamp helpers),
// C08_scale.cpp (large extents, value operations), C08_hist.cpp (range objects kept across operations on their grid),
// C08_cat.cpp (value categories of grid arguments).
#include <C08_common.hpp>

int main(int argc, char **argv)
{
  c08::register_pos_shards();
  c08::register_grid_shards();
  c08::register_ops_shards();
  c08::register_scale_shards();
  c08::register_hist_shards();
  c08::register_cat_shards();
  return vrt::run(argc, argv);
}

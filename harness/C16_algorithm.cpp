// C16, part 1: map, map_optional, map_concat, fold, fold_break, loop, loop_break, all_of, contains, contains_if,
// generate_n, repeat -- against hand-written loops, including visit order and call counts.
#include "C16_common.hpp"

#include <fcppt/int_range_impl.hpp>
#include <fcppt/loop.hpp>
#include <fcppt/make_int_range.hpp>
#include <fcppt/make_int_range_count.hpp>
#include <fcppt/algorithm/all_of.hpp>
#include <fcppt/algorithm/contains.hpp>
#include <fcppt/algorithm/contains_if.hpp>
#include <fcppt/algorithm/fold.hpp>
#include <fcppt/algorithm/fold_break.hpp>
#include <fcppt/algorithm/generate_n.hpp>
#include <fcppt/algorithm/loop.hpp>
#include <fcppt/algorithm/loop_break.hpp>
#include <fcppt/algorithm/map.hpp>
#include <fcppt/algorithm/map_concat.hpp>
#include <fcppt/algorithm/map_optional.hpp>
#include <fcppt/algorithm/repeat.hpp>
#include <fcppt/enum/make_range.hpp>
#include <fcppt/enum/make_range_start_end.hpp>
#include <fcppt/enum/range_impl.hpp>
#include <fcppt/optional/object_impl.hpp>

#include <cstdint>
#include <type_traits>

namespace c16
{
namespace
{
enum class e5
{
  a,
  b,
  c,
  d,
  e,
  fcppt_maximum = e
};

inline int to_int(int v) { return v; }
inline int to_int(unsigned v) { return static_cast<int>(v); }
inline int to_int(e5 v) { return static_cast<int>(v); }
inline int to_int(std::pair<int const, int> const &p) { return p.first * 10 + p.second; }

template <pass P, class C> decltype(auto) give(C &c)
{
  if constexpr (P == pass::const_lvalue)
    return std::as_const(c);
  else if constexpr (P == pass::lvalue)
    return (c);
  else
    return std::move(c);
}

template <class TK> auto tk_from_int(int v)
{
  if constexpr (std::is_same_v<TK, k_string>)
    return static_cast<char>('a' + v);
  else
    return v;
}

bool is_prefix(seq const &p, seq const &s)
{
  return p.size() <= s.size() && std::equal(p.begin(), p.end(), s.begin());
}

// ------------------------------------------------------------------ map
template <class SK, class TK, pass P> void check_map()
{
  static std::string const name = std::string("map<") + TK::name + ">(" + SK::name + show(P) + ")";
  for (seq const &s : seqs3())
  {
    std::string const head = name + " " + show(s) + " ";
    seq const order = SK::order(s);
    for (int f = 0; f < 27; ++f)
    {
      if (!vrt::begin_text(name.c_str(), head + show_fun3(f)))
        continue;
      vrt::nontrivial(order.size() >= 2);
      vrt::maybe_sample();
      typename SK::type src = SK::make(s);
      seq &log = call_log();
      log.clear();
      auto const fn = [f, &log](int x) {
        log.push_back(x);
        return tk_from_int<TK>(apply3(f, x));
      };
      typename TK::type const res = fcppt::algorithm::map<typename TK::type>(give<P>(src), fn);
      seq mapped;
      for (int x : order)
        mapped.push_back(apply3(f, x));
      seq const got = contents(res), want = TK::order(mapped);
      VRT_CHECK(log == order, name + ":visit_order", "function called with %s, source order is %s", show(log).c_str(),
                show(order).c_str());
      VRT_CHECK(got == want, name + ":wrong", "got %s want %s", show(got).c_str(), show(want).c_str());
      consumed_once<SK>(src, name);
      if constexpr (P != pass::rvalue && !std::is_same_v<SK, k_single_pass>)
        VRT_CHECK(contents(src) == order, name + ":source_changed", "source is now %s", show(contents(src)).c_str());
    }
  }
}

// int ranges, enum ranges and std::map as sources of map / loop / loop_break / fold
template <class Int> void check_int_range_sources()
{
  static std::string const tn = std::is_signed_v<Int> ? "int" : "unsigned";
  static std::string const n_map = "map<vector>(int_range<" + tn + ">)";
  static std::string const n_loop = "loop(int_range<" + tn + ">)";
  static std::string const n_break = "loop_break(int_range<" + tn + ">)";
  static std::string const n_fold = "fold(int_range<" + tn + ">)";
  int const lo = std::is_signed_v<Int> ? -3 : 0, hi = std::is_signed_v<Int> ? 4 : 7;
  for (int b = lo; b <= hi; ++b)
    for (int e = lo; e <= hi; ++e)
    {
      seq order; // documented: [b,e), empty if e < b
      for (int x = b; x < e; ++x)
        order.push_back(x);
      std::string const rs = "[" + std::to_string(b) + "," + std::to_string(e) + ")";
      auto const make = [b, e] { return fcppt::make_int_range(static_cast<Int>(b), static_cast<Int>(e)); };
      seq &log = call_log();
      for (int f = 0; f < 27; ++f)
      {
        if (!vrt::begin_text(n_map.c_str(), n_map + " " + rs + " " + show_fun3(f)))
          continue;
        vrt::nontrivial(order.size() >= 2);
        vrt::maybe_sample();
        log.clear();
        std::vector<int> const res = fcppt::algorithm::map<std::vector<int>>(make(), [f, &log](Int x) {
          log.push_back(static_cast<int>(x));
          return apply3(f, static_cast<int>(x));
        });
        seq want;
        for (int x : order)
          want.push_back(apply3(f, x));
        VRT_CHECK(log == order, n_map + ":visit_order", "called with %s want %s", show(log).c_str(), show(order).c_str());
        VRT_CHECK(res == want, n_map + ":wrong", "got %s want %s", show(res).c_str(), show(want).c_str());
      }
      if (vrt::begin_text(n_loop.c_str(), n_loop + " " + rs))
      {
        vrt::nontrivial(order.size() >= 2);
        log.clear();
        fcppt::algorithm::loop(make(), [&log](Int x) { log.push_back(static_cast<int>(x)); });
        VRT_CHECK(log == order, n_loop + ":wrong", "visited %s want %s", show(log).c_str(), show(order).c_str());
      }
      for (std::size_t k = 1; k <= order.size() + 1; ++k)
      {
        if (!vrt::begin_text(n_break.c_str(), n_break + " " + rs + " break_at_call=" + std::to_string(k)))
          continue;
        vrt::nontrivial(k <= order.size());
        log.clear();
        auto const range = make();
        fcppt::algorithm::loop_break(range, [&log, k](Int x) {
          log.push_back(static_cast<int>(x));
          return log.size() == k ? fcppt::loop::break_ : fcppt::loop::continue_;
        });
        seq const want(order.begin(), order.begin() + static_cast<std::ptrdiff_t>(std::min(k, order.size())));
        VRT_CHECK(log == want, n_break + ":wrong", "visited %s want %s", show(log).c_str(), show(want).c_str());
      }
      if (vrt::begin_text(n_fold.c_str(), n_fold + " " + rs))
      {
        vrt::nontrivial(order.size() >= 2);
        std::string const res =
            fcppt::algorithm::fold(make(), std::string("i"), [](Int x, std::string st) { return st + "," + std::to_string(x); });
        std::string want = "i";
        for (int x : order)
          want += "," + std::to_string(x);
        VRT_CHECK(res == want, n_fold + ":wrong", "got %s want %s", res.c_str(), want.c_str());
      }
    }
}

void check_enum_range_sources()
{
  static std::string const n_map = "map<vector>(enum_range)";
  static std::string const n_loop = "loop(enum_range)";
  static std::string const n_break = "loop_break(enum_range)";
  seq &log = call_log();
  for (int b = 0; b < 5; ++b)
    for (int e = b; e < 5; ++e) // closed range [b,e]
    {
      seq order;
      for (int x = b; x <= e; ++x)
        order.push_back(x);
      std::string const rs = "[" + std::to_string(b) + "," + std::to_string(e) + "]";
      auto const make = [b, e] { return fcppt::enum_::make_range_start_end(static_cast<e5>(b), static_cast<e5>(e)); };
      for (int f = 0; f < 27; ++f)
      {
        if (!vrt::begin_text(n_map.c_str(), n_map + " " + rs + " " + show_fun3(f)))
          continue;
        vrt::nontrivial(order.size() >= 2);
        log.clear();
        std::vector<int> const res = fcppt::algorithm::map<std::vector<int>>(make(), [f, &log](e5 x) {
          log.push_back(to_int(x));
          return apply3(f, to_int(x));
        });
        seq want;
        for (int x : order)
          want.push_back(apply3(f, x));
        VRT_CHECK(log == order, n_map + ":visit_order", "called with %s want %s", show(log).c_str(), show(order).c_str());
        VRT_CHECK(res == want, n_map + ":wrong", "got %s want %s", show(res).c_str(), show(want).c_str());
      }
      if (vrt::begin_text(n_loop.c_str(), n_loop + " " + rs))
      {
        vrt::nontrivial(order.size() >= 2);
        log.clear();
        fcppt::algorithm::loop(make(), [&log](e5 x) { log.push_back(to_int(x)); });
        VRT_CHECK(log == order, n_loop + ":wrong", "visited %s want %s", show(log).c_str(), show(order).c_str());
      }
      for (std::size_t k = 1; k <= order.size() + 1; ++k)
      {
        if (!vrt::begin_text(n_break.c_str(), n_break + " " + rs + " break_at_call=" + std::to_string(k)))
          continue;
        vrt::nontrivial(k <= order.size());
        log.clear();
        fcppt::algorithm::loop_break(make(), [&log, k](e5 x) {
          log.push_back(to_int(x));
          return log.size() == k ? fcppt::loop::break_ : fcppt::loop::continue_;
        });
        seq const want(order.begin(), order.begin() + static_cast<std::ptrdiff_t>(std::min(k, order.size())));
        VRT_CHECK(log == want, n_break + ":wrong", "visited %s want %s", show(log).c_str(), show(want).c_str());
      }
    }
  // the whole enum
  if (vrt::begin_text(n_loop.c_str(), n_loop + " make_range<e5>()"))
  {
    vrt::nontrivial(true);
    log.clear();
    fcppt::algorithm::loop(fcppt::enum_::make_range<e5>(), [&log](e5 x) { log.push_back(to_int(x)); });
    VRT_CHECK((log == seq{0, 1, 2, 3, 4}), n_loop + ":wrong", "visited %s", show(log).c_str());
  }
}

void check_std_map_sources()
{
  static std::string const n_map = "map<vector>(std::map const&)";
  static std::string const n_mapm = "map<std::map>(vector const&)";
  static std::string const n_loop = "loop(std::map const&)";
  static std::string const n_break = "loop_break(std::map&)";
  seq &log = call_log();
  for (auto const &m : all_maps(map_keys()))
  {
    seq order;
    for (auto const &kv : m)
      order.push_back(to_int(kv));
    std::string const ms = show(m);
    for (int f = 0; f < 27; ++f)
    {
      if (!vrt::begin_text(n_map.c_str(), n_map + " " + ms + " " + show_fun3(f)))
        continue;
      vrt::nontrivial(m.size() >= 2);
      vrt::maybe_sample();
      log.clear();
      std::vector<int> const res = fcppt::algorithm::map<std::vector<int>>(m, [f, &log](std::pair<int const, int> const &kv) {
        log.push_back(to_int(kv));
        return kv.first * 3 + apply3(f, kv.second);
      });
      seq want;
      for (auto const &kv : m)
        want.push_back(kv.first * 3 + apply3(f, kv.second));
      VRT_CHECK(log == order, n_map + ":visit_order", "called with %s want %s", show(log).c_str(), show(order).c_str());
      VRT_CHECK(res == want, n_map + ":wrong", "got %s want %s", show(res).c_str(), show(want).c_str());
    }
    if (vrt::begin_text(n_loop.c_str(), n_loop + " " + ms))
    {
      vrt::nontrivial(m.size() >= 2);
      log.clear();
      fcppt::algorithm::loop(m, [&log](std::pair<int const, int> const &kv) { log.push_back(to_int(kv)); });
      VRT_CHECK(log == order, n_loop + ":wrong", "visited %s want %s", show(log).c_str(), show(order).c_str());
    }
    for (std::size_t k = 1; k <= order.size() + 1; ++k)
    {
      if (!vrt::begin_text(n_break.c_str(), n_break + " " + ms + " break_at_call=" + std::to_string(k)))
        continue;
      vrt::nontrivial(k <= order.size());
      log.clear();
      std::map<int, int> copy = m;
      // the body may modify the mapped values of an lvalue map
      fcppt::algorithm::loop_break(copy, [&log, k](std::pair<int const, int> &kv) {
        log.push_back(to_int(kv));
        kv.second += 100;
        return log.size() == k ? fcppt::loop::break_ : fcppt::loop::continue_;
      });
      std::size_t const n = std::min(k, order.size());
      seq const want(order.begin(), order.begin() + static_cast<std::ptrdiff_t>(n));
      VRT_CHECK(log == want, n_break + ":wrong", "visited %s want %s", show(log).c_str(), show(want).c_str());
      std::map<int, int> wantm;
      std::size_t i = 0;
      for (auto const &kv : m)
        wantm[kv.first] = kv.second + (i++ < n ? 100 : 0);
      VRT_CHECK(copy == wantm, n_break + ":mutation", "map is %s want %s", show(copy).c_str(), show(wantm).c_str());
    }
  }
  // vector -> std::map: result.insert(result.end(), pair): the first occurrence of a key wins
  for (seq const &s : seqs3())
    for (int f = 0; f < 27; ++f)
    {
      if (!vrt::begin_text(n_mapm.c_str(), n_mapm + " " + show(s) + " " + show_fun3(f)))
        continue;
      bool dup = sorted_unique(s).size() != s.size();
      vrt::nontrivial(dup);
      std::vector<int> const src(s.begin(), s.end());
      std::size_t pos = 0;
      std::map<int, int> const res = fcppt::algorithm::map<std::map<int, int>>(
          src, [f, &pos](int x) { return std::make_pair(x, static_cast<int>(10 * pos++) + apply3(f, x)); });
      std::map<int, int> want;
      for (std::size_t i = 0; i < s.size(); ++i)
        if (!want.count(s[i]))
          want[s[i]] = static_cast<int>(10 * i) + apply3(f, s[i]);
      VRT_CHECK(res == want, n_mapm + ":wrong", "got %s want %s", show(res).c_str(), show(want).c_str());
    }
}

// ------------------------------------------------------------------ map_optional
template <class SK, class TK, pass P> void check_map_optional()
{
  static std::string const name = std::string("map_optional<") + TK::name + ">(" + SK::name + show(P) + ")";
  for (seq const &s : seqs3())
  {
    std::string const head = name + " " + show(s) + " ";
    seq const order = SK::order(s);
    for (int g = 0; g < 64; ++g)
    {
      if (!vrt::begin_text(name.c_str(), head + show_opt3(g)))
        continue;
      seq mapped;
      for (int x : order)
        if (opt3(g, x) >= 0)
          mapped.push_back(opt3(g, x));
      vrt::nontrivial(!mapped.empty() && mapped.size() < order.size()); // something kept and something dropped
      vrt::maybe_sample();
      typename SK::type src = SK::make(s);
      seq &log = call_log();
      log.clear();
      auto const fn = [g, &log](int x) {
        log.push_back(x);
        using R = decltype(tk_from_int<TK>(0));
        return opt3(g, x) < 0 ? fcppt::optional::object<R>{} : fcppt::optional::object<R>{tk_from_int<TK>(opt3(g, x))};
      };
      typename TK::type const res = fcppt::algorithm::map_optional<typename TK::type>(give<P>(src), fn);
      consumed_once<SK>(src, name);
      seq const got = contents(res), want = TK::order(mapped);
      VRT_CHECK(log == order, name + ":visit_order", "function called with %s, source order is %s", show(log).c_str(),
                show(order).c_str());
      VRT_CHECK(got == want, name + ":wrong", "got %s want %s", show(got).c_str(), show(want).c_str());
    }
  }
}

// ------------------------------------------------------------------ map_concat
template <class SK, class TK, pass P> void check_map_concat(int pool_len, int src_len, unsigned part, unsigned nparts)
{
  static std::string const name = std::string("map_concat<") + TK::name + ">(" + SK::name + show(P) + ")";
  std::vector<seq> const pool = all_seqs(3, pool_len);
  int const np = static_cast<int>(pool.size());
  unsigned idx = 0;
  for (seq const &s : seqs3())
  {
    if (static_cast<int>(s.size()) > src_len)
      break;
    if (idx++ % nparts != part)
      continue;
    if (vrt::out_of_time())
      return;
    std::string const head = name + " " + show(s) + " ";
    seq const order = SK::order(s);
    for (int c0 = 0; c0 < np; ++c0)
      for (int c1 = 0; c1 < np; ++c1)
        for (int c2 = 0; c2 < np; ++c2)
        {
          seq const *img[3] = {&pool[static_cast<std::size_t>(c0)], &pool[static_cast<std::size_t>(c1)],
                               &pool[static_cast<std::size_t>(c2)]};
          if (!vrt::begin_text(name.c_str(), head + "0->" + show(*img[0]) + " 1->" + show(*img[1]) + " 2->" + show(*img[2])))
            continue;
          seq cat;
          for (int x : order)
            cat.insert(cat.end(), img[x]->begin(), img[x]->end());
          vrt::nontrivial(order.size() >= 2 && cat.size() >= 2);
          vrt::maybe_sample();
          typename SK::type src = SK::make(s);
          seq &log = call_log();
          log.clear();
          auto const fn = [&img, &log](int x) {
            log.push_back(x);
            return TK::make(*img[x]);
          };
          typename TK::type const res = fcppt::algorithm::map_concat<typename TK::type>(give<P>(src), fn);
          consumed_once<SK>(src, name);
          seq const got = contents(res), want = TK::order(cat);
          VRT_CHECK(log == order, name + ":visit_order", "function called with %s, source order is %s", show(log).c_str(),
                    show(order).c_str());
          VRT_CHECK(got == want, name + ":wrong", "got %s want %s", show(got).c_str(), show(want).c_str());
        }
  }
}

// ------------------------------------------------------------------ fold, fold_break
// The folding function is the free (term building) one: the result spells out which calls were made, with which
// element and which state, in which order; by parametricity that fixes the result for every other function.
template <class SK, pass P> void check_fold()
{
  static std::string const n_fold = std::string("fold(") + SK::name + show(P) + ")";
  static std::string const n_foldu = std::string("fold<u64>(") + SK::name + show(P) + ")";
  static std::string const n_break = std::string("fold_break(") + SK::name + show(P) + ")";
  for (seq const &s : seqs3())
  {
    seq const order = SK::order(s);
    std::string const ss = show(s);
    if (vrt::begin_text(n_fold.c_str(), n_fold + " " + ss + " state=term"))
    {
      vrt::nontrivial(order.size() >= 2);
      vrt::maybe_sample();
      typename SK::type src = SK::make(s);
      std::string const res = fcppt::algorithm::fold(
          give<P>(src), std::string("i"), [](int e, std::string st) { return "(" + st + "," + std::to_string(e) + ")"; });
      std::string want = "i";
      for (int e : order)
        want = "(" + want + "," + std::to_string(e) + ")";
      consumed_once<SK>(src, n_fold);
      VRT_CHECK(res == want, n_fold + ":wrong", "got %s want %s", res.c_str(), want.c_str());
    }
    if (vrt::begin_text(n_foldu.c_str(), n_foldu + " " + ss + " state=7 f(e,s)=5s+e+1"))
    {
      // element and state have the same type here: exchanged arguments would go unnoticed by the compiler
      vrt::nontrivial(order.size() >= 2);
      typename SK::type src = SK::make(s);
      std::uint64_t const res = fcppt::algorithm::fold(give<P>(src), std::uint64_t{7}, [](std::uint64_t e, std::uint64_t st) {
        return st * 5U + e + 1U;
      });
      std::uint64_t want = 7;
      for (int e : order)
        want = want * 5U + static_cast<std::uint64_t>(e) + 1U;
      consumed_once<SK>(src, n_foldu);
      VRT_CHECK(res == want, n_foldu + ":wrong", "got %llu want %llu", (unsigned long long)res, (unsigned long long)want);
    }
    // fold_break: break when the predicate holds for the element (8 predicates), or at the k-th call
    for (int rule = 0; rule < 8 + seq_max_len() + 1; ++rule)
    {
      bool const by_pred = rule < 8;
      std::size_t const k = by_pred ? 0 : static_cast<std::size_t>(rule - 8 + 1);
      if (!by_pred && k > order.size() + 1)
        break;
      std::string const rs = by_pred ? "break_if " + show_pred3(rule) : "break_at_call=" + std::to_string(k);
      if (!vrt::begin_text(n_break.c_str(), n_break + " " + ss + " " + rs))
        continue;
      // reference: s_0 = init; call i is made iff all earlier calls said continue; the state of the last call made is returned
      std::string want = "i";
      seq want_log;
      for (int e : order)
      {
        want_log.push_back(e);
        want = "(" + want + "," + std::to_string(e) + ")";
        if (by_pred ? pred3(rule, e) : want_log.size() == k)
          break;
      }
      vrt::nontrivial(want_log.size() < order.size()); // stops early
      vrt::maybe_sample();
      typename SK::type src = SK::make(s);
      seq &log = call_log();
      log.clear();
      std::string const res = fcppt::algorithm::fold_break(give<P>(src), std::string("i"), [&](int e, std::string st) {
        log.push_back(e);
        bool const brk = by_pred ? pred3(rule, e) : log.size() == k;
        return std::make_pair(brk ? fcppt::loop::break_ : fcppt::loop::continue_, "(" + st + "," + std::to_string(e) + ")");
      });
      consumed_once<SK>(src, n_break);
      VRT_CHECK(log == want_log, n_break + ":calls", "called with %s want %s", show(log).c_str(), show(want_log).c_str());
      VRT_CHECK(res == want, n_break + ":wrong", "got %s want %s", res.c_str(), want.c_str());
    }
  }
}

// ------------------------------------------------------------------ loop, loop_break
template <class SK, pass P> void check_loop()
{
  static std::string const n_loop = std::string("loop(") + SK::name + show(P) + ")";
  static std::string const n_break = std::string("loop_break(") + SK::name + show(P) + ")";
  seq &log = call_log();
  for (seq const &s : seqs3())
  {
    seq const order = SK::order(s);
    std::string const ss = show(s);
    if (vrt::begin_text(n_loop.c_str(), n_loop + " " + ss))
    {
      vrt::nontrivial(order.size() >= 2);
      typename SK::type src = SK::make(s);
      log.clear();
      fcppt::algorithm::loop(give<P>(src), [&log](int e) { log.push_back(e); });
      consumed_once<SK>(src, n_loop);
      VRT_CHECK(log == order, n_loop + ":wrong", "visited %s want %s", show(log).c_str(), show(order).c_str());
    }
    for (std::size_t k = 1; k <= order.size() + 1; ++k)
    {
      if (!vrt::begin_text(n_break.c_str(), n_break + " " + ss + " break_at_call=" + std::to_string(k)))
        continue;
      vrt::nontrivial(k <= order.size());
      vrt::maybe_sample();
      typename SK::type src = SK::make(s);
      log.clear();
      fcppt::algorithm::loop_break(give<P>(src), [&log, k](int e) {
        log.push_back(e);
        return log.size() == k ? fcppt::loop::break_ : fcppt::loop::continue_;
      });
      consumed_once<SK>(src, n_break);
      seq const want(order.begin(), order.begin() + static_cast<std::ptrdiff_t>(std::min(k, order.size())));
      VRT_CHECK(log == want, n_break + ":wrong", "visited %s want %s", show(log).c_str(), show(want).c_str());
    }
  }
}

// a non-const lvalue range hands out mutable references
void check_loop_mutation()
{
  static std::string const name = "loop(vector&):mutating";
  for (seq const &s : seqs3())
  {
    if (!vrt::begin_text(name.c_str(), name + " " + show(s)))
      continue;
    vrt::nontrivial(!s.empty());
    std::vector<int> v(s.begin(), s.end());
    int i = 0;
    fcppt::algorithm::loop(v, [&i](int &e) { e = e * 10 + i++; });
    seq want;
    for (std::size_t j = 0; j < s.size(); ++j)
      want.push_back(s[j] * 10 + static_cast<int>(j));
    VRT_CHECK(v == want, name + ":wrong", "got %s want %s", show(v).c_str(), show(want).c_str());
  }
}

// ------------------------------------------------------------------ all_of, contains_if, contains
template <class SK> void check_predicates()
{
  static std::string const n_all = std::string("all_of(") + SK::name + ")";
  static std::string const n_cif = std::string("contains_if(") + SK::name + ")";
  static std::string const n_con = std::string("contains(") + SK::name + ")";
  seq &log = call_log();
  for (seq const &s : seqs3())
  {
    seq const order = SK::order(s);
    std::string const ss = show(s);
    for (int p = 0; p < 8; ++p)
    {
      std::size_t first_false = order.size(), first_true = order.size();
      for (std::size_t i = order.size(); i-- > 0;)
      {
        if (pred3(p, order[i]))
          first_true = i;
        else
          first_false = i;
      }
      if (vrt::begin_text(n_all.c_str(), n_all + " " + ss + " " + show_pred3(p)))
      {
        vrt::nontrivial(first_false != order.size() && first_false > 0);
        vrt::maybe_sample();
        log.clear();
        typename SK::type const src = SK::make(s);
        bool const r = fcppt::algorithm::all_of(src, [p, &log](int e) {
          log.push_back(e);
          return pred3(p, e);
        });
        consumed_once<SK>(src, n_all);
        VRT_CHECK(r == (first_false == order.size()), n_all + ":wrong", "got %d", int(r));
        // elements are inspected in order, at least up to the deciding one
        VRT_CHECK(is_prefix(log, order) && log.size() >= std::min(first_false + 1, order.size()), n_all + ":calls",
                  "predicate called with %s on %s", show(log).c_str(), show(order).c_str());
        vrt::count("all_of:calls_after_decision", log.size() - std::min(first_false + 1, order.size()));
      }
      if (vrt::begin_text(n_cif.c_str(), n_cif + " " + ss + " " + show_pred3(p)))
      {
        vrt::nontrivial(first_true != order.size() && first_true > 0);
        log.clear();
        typename SK::type const src = SK::make(s);
        bool const r = fcppt::algorithm::contains_if(src, [p, &log](int e) {
          log.push_back(e);
          return pred3(p, e);
        });
        consumed_once<SK>(src, n_cif);
        VRT_CHECK(r == (first_true != order.size()), n_cif + ":wrong", "got %d", int(r));
        VRT_CHECK(is_prefix(log, order) && log.size() >= std::min(first_true + 1, order.size()), n_cif + ":calls",
                  "predicate called with %s on %s", show(log).c_str(), show(order).c_str());
        vrt::count("contains_if:calls_after_decision", log.size() - std::min(first_true + 1, order.size()));
      }
    }
    for (int v = -1; v <= 3; ++v)
    {
      if (!vrt::begin_text(n_con.c_str(), n_con + " " + ss + " value=" + std::to_string(v)))
        continue;
      bool want = false;
      for (int e : order)
        want = want || e == v;
      vrt::nontrivial(want && order.size() >= 2);
      typename SK::type const src = SK::make(s);
      VRT_CHECK(fcppt::algorithm::contains(src, v) == want, n_con + ":wrong", "want %d", int(want));
      consumed_once<SK>(src, n_con);
    }
  }
}

// ------------------------------------------------------------------ generate_n, repeat
template <class TK> void check_generate_n()
{
  static std::string const name = std::string("generate_n<") + TK::name + ">";
  for (seq const &s : seqs3())
  {
    if (!vrt::begin_text(name.c_str(), name + " n=" + std::to_string(s.size()) + " values=" + show(s)))
      continue;
    vrt::nontrivial(s.size() >= 2);
    vrt::maybe_sample();
    std::size_t calls = 0;
    typename TK::type const res = fcppt::algorithm::generate_n<typename TK::type>(s.size(), [&s, &calls] {
      std::size_t const i = calls++;
      return i < s.size() ? s[i] : -1;
    });
    VRT_CHECK(calls == s.size(), name + ":calls", "%zu calls for n=%zu", calls, s.size());
    seq const got = contents(res), want = TK::order(s);
    VRT_CHECK(got == want, name + ":wrong", "got %s want %s", show(got).c_str(), show(want).c_str());
  }
}

template <class Count> void check_repeat(char const *tn)
{
  static std::string const name = std::string("repeat<") + tn + ">";
  int const lo = std::is_signed_v<Count> ? -5 : 0;
  for (int n = lo; n <= 40; ++n)
  {
    if (!vrt::begin(name.c_str(), n))
      continue;
    vrt::nontrivial(n > 0);
    vrt::maybe_sample();
    long calls = 0;
    fcppt::algorithm::repeat(static_cast<Count>(n), [&calls] { ++calls; });
    VRT_CHECK(calls == (n > 0 ? n : 0), name + ":wrong", "%ld calls for count %d", calls, n);
  }
}
}

void register_algorithm_shards()
{
  c16::shard("map/to_vector", [] {
    check_map<k_vector, k_vector, pass::const_lvalue>();
    check_map<k_vector, k_vector, pass::lvalue>();
    check_map<k_vector, k_vector, pass::rvalue>();
    check_map<k_list, k_vector, pass::const_lvalue>();
    check_map<k_deque, k_vector, pass::const_lvalue>();
  });
  c16::shard("map/assoc_to_vector", [] {
    check_map<k_set, k_vector, pass::const_lvalue>();
    check_map<k_multiset, k_vector, pass::rvalue>();
  });
  c16::shard("map/unsized_to_vector", [] {
    check_map<k_ra_unsized, k_vector, pass::const_lvalue>();
    check_map<k_fwd_unsized, k_vector, pass::const_lvalue>();
    check_map<k_input_once, k_vector, pass::const_lvalue>();
    check_map<k_input_once, k_vector, pass::rvalue>();
  });
  c16::shard("map/vector_to_other", [] {
    check_map<k_vector, k_deque, pass::const_lvalue>();
    check_map<k_vector, k_list, pass::const_lvalue>();
    check_map<k_vector, k_set, pass::const_lvalue>();
    check_map<k_vector, k_multiset, pass::const_lvalue>();
    check_map<k_vector, k_string, pass::const_lvalue>();
  });
  c16::shard("map/unsized_to_other", [] {
    check_map<k_input_once, k_deque, pass::const_lvalue>();
    check_map<k_input_once, k_set, pass::const_lvalue>();
    check_map<k_input_once, k_string, pass::const_lvalue>();
    check_map<k_fwd_unsized, k_string, pass::const_lvalue>();
    check_map<k_ra_unsized, k_string, pass::const_lvalue>();
  });
  c16::shard("ranges/int_enum_map", [] {
    check_int_range_sources<int>();
    check_int_range_sources<unsigned>();
    check_enum_range_sources();
    check_std_map_sources();
  });
  c16::shard("map_optional/a", [] {
    check_map_optional<k_vector, k_vector, pass::const_lvalue>();
    check_map_optional<k_vector, k_vector, pass::rvalue>();
    check_map_optional<k_list, k_vector, pass::const_lvalue>();
  });
  c16::shard("map_optional/b", [] {
    check_map_optional<k_set, k_vector, pass::const_lvalue>();
    check_map_optional<k_input_once, k_vector, pass::const_lvalue>();
    check_map_optional<k_vector, k_set, pass::const_lvalue>();
    check_map_optional<k_vector, k_list, pass::const_lvalue>();
  });
  c16::shard("map_concat/small_images", [] {
    // images of length <= 1 (4^3 functions), every source sequence
    check_map_concat<k_vector, k_vector, pass::const_lvalue>(1, 99, 0, 1);
    check_map_concat<k_vector, k_vector, pass::rvalue>(1, 99, 0, 1);
    check_map_concat<k_list, k_vector, pass::const_lvalue>(1, 99, 0, 1);
    check_map_concat<k_set, k_vector, pass::const_lvalue>(1, 99, 0, 1);
  });
  c16::shard("map_concat/small_images_b", [] {
    check_map_concat<k_input_once, k_vector, pass::const_lvalue>(1, 99, 0, 1);
    check_map_concat<k_vector, k_set, pass::const_lvalue>(1, 99, 0, 1);
    check_map_concat<k_vector, k_list, pass::const_lvalue>(1, 99, 0, 1);
    check_map_concat<k_vector, k_string, pass::const_lvalue>(1, 99, 0, 1);
  });
  for (unsigned p = 0; p < 4; ++p)
    c16::shard("map_concat/images_le2/" + std::to_string(p), [p] {
      // images of length <= 2 (13^3 functions), sources up to length 5 (quick: 3)
      check_map_concat<k_vector, k_deque, pass::const_lvalue>(2, vrt::thorough() ? 5 : 3, p, 4);
    });
  c16::shard("fold/sequences", [] {
    check_fold<k_vector, pass::const_lvalue>();
    check_fold<k_vector, pass::rvalue>();
    check_fold<k_list, pass::const_lvalue>();
    check_fold<k_deque, pass::const_lvalue>();
  });
  c16::shard("fold/other", [] {
    check_fold<k_set, pass::const_lvalue>();
    check_fold<k_multiset, pass::const_lvalue>();
    check_fold<k_input_once, pass::const_lvalue>();
    check_fold<k_fwd_unsized, pass::const_lvalue>();
  });
  c16::shard("loop/sequences", [] {
    check_loop<k_vector, pass::const_lvalue>();
    check_loop<k_vector, pass::lvalue>();
    check_loop<k_vector, pass::rvalue>();
    check_loop<k_list, pass::const_lvalue>();
    check_loop<k_deque, pass::const_lvalue>();
    check_loop_mutation();
  });
  c16::shard("loop/other", [] {
    check_loop<k_set, pass::const_lvalue>();
    check_loop<k_multiset, pass::const_lvalue>();
    check_loop<k_ra_unsized, pass::const_lvalue>();
    check_loop<k_fwd_unsized, pass::const_lvalue>();
    check_loop<k_input_once, pass::const_lvalue>();
  });
  c16::shard("predicates/sequences", [] {
    check_predicates<k_vector>();
    check_predicates<k_list>();
    check_predicates<k_deque>();
  });
  c16::shard("predicates/other", [] {
    check_predicates<k_set>();
    check_predicates<k_multiset>();
    check_predicates<k_input_once>();
  });
  // iterator categories: really single-pass input ranges (shared cursor, traversal counted) and bidirectional ranges
  // without size(), next to the forward / random-access ones above, with every target container type
  c16::shard("categories/map_single_pass", [] {
    check_map<k_single_pass, k_vector, pass::const_lvalue>();
    check_map<k_single_pass, k_vector, pass::rvalue>();
    check_map<k_single_pass, k_string, pass::const_lvalue>();
    check_map<k_single_pass, k_deque, pass::const_lvalue>();
    check_map<k_single_pass, k_list, pass::const_lvalue>();
    check_map<k_single_pass, k_set, pass::const_lvalue>();
  });
  c16::shard("categories/map_bidi_forward", [] {
    check_map<k_bidi_unsized, k_vector, pass::const_lvalue>();
    check_map<k_bidi_unsized, k_string, pass::const_lvalue>();
    check_map<k_bidi_unsized, k_list, pass::const_lvalue>();
    check_map<k_bidi_unsized, k_set, pass::const_lvalue>();
    check_map<k_fwd_unsized, k_deque, pass::const_lvalue>();
    check_map<k_fwd_unsized, k_set, pass::const_lvalue>();
    check_map<k_fwd_unsized, k_list, pass::const_lvalue>();
  });
  c16::shard("categories/map_optional_concat", [] {
    check_map_optional<k_single_pass, k_vector, pass::const_lvalue>();
    check_map_optional<k_single_pass, k_string, pass::const_lvalue>();
    check_map_optional<k_single_pass, k_set, pass::const_lvalue>();
    check_map_optional<k_bidi_unsized, k_vector, pass::const_lvalue>();
    check_map_optional<k_fwd_unsized, k_vector, pass::const_lvalue>();
    check_map_optional<k_ra_unsized, k_vector, pass::const_lvalue>();
    check_map_concat<k_single_pass, k_vector, pass::const_lvalue>(1, 99, 0, 1);
    check_map_concat<k_single_pass, k_string, pass::const_lvalue>(1, 99, 0, 1);
    check_map_concat<k_bidi_unsized, k_vector, pass::const_lvalue>(1, 99, 0, 1);
    check_map_concat<k_fwd_unsized, k_vector, pass::const_lvalue>(1, 99, 0, 1);
  });
  c16::shard("categories/fold_loop_predicates", [] {
    check_fold<k_single_pass, pass::const_lvalue>();
    check_fold<k_single_pass, pass::rvalue>();
    check_fold<k_bidi_unsized, pass::const_lvalue>();
    check_fold<k_ra_unsized, pass::const_lvalue>();
    check_loop<k_single_pass, pass::const_lvalue>();
    check_loop<k_single_pass, pass::rvalue>();
    check_loop<k_bidi_unsized, pass::const_lvalue>();
    check_predicates<k_single_pass>();
    check_predicates<k_bidi_unsized>();
    check_predicates<k_fwd_unsized>();
    check_predicates<k_ra_unsized>();
  });
  c16::shard("generate_n_repeat", [] {
    check_generate_n<k_vector>();
    check_generate_n<k_list>();
    check_generate_n<k_deque>();
    check_generate_n<k_set>();
    check_generate_n<k_multiset>();
    check_repeat<int>("int");
    check_repeat<unsigned>("unsigned");
    check_repeat<signed char>("signed char");
    check_repeat<unsigned char>("unsigned char");
    check_repeat<long>("long");
    check_repeat<std::size_t>("size_t");
    check_repeat<short>("short");
  });
}
}

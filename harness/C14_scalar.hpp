// C14_scalar.hpp -- exact user-defined scalars for fcppt::math:
//   quat: integer quaternions (exact, multiplication NOT commutative);
//   term: a symbolic scalar whose value is the expression that produced it: a*b is the
//         string "(a*b)", a+b is "(a+b)", literal 0 is "0", compound a*=b is "(a*=b)".
//         Neither * nor + is commutative or associative on terms, every application is
//         counted, and moves are observable: a moved-from term is marked and any later read
//         of it (copy, operand of an operator, comparison) is counted in g_moved_reads.
//         One evaluation with symbolic operands therefore pins down, for each result
//         component, exactly which operator applications happened with which operands in
//         which order.
// Both come with the fcppt::make_literal customisation the math headers use for 0 and 1.
#pragma once
#include <fcppt/make_literal_fwd.hpp>

#include <string>
#include <utility>

namespace c14
{
struct quat
{
  long a = 0, b = 0, c = 0, d = 0; // a + b i + c j + d k
  constexpr quat() = default;
  constexpr quat(long a_, long b_, long c_, long d_) : a(a_), b(b_), c(c_), d(d_) {}
  friend constexpr bool operator==(quat const &x, quat const &y) { return x.a == y.a && x.b == y.b && x.c == y.c && x.d == y.d; }
  friend constexpr bool operator!=(quat const &x, quat const &y) { return !(x == y); }
  friend constexpr quat operator+(quat const &x, quat const &y) { return quat{x.a + y.a, x.b + y.b, x.c + y.c, x.d + y.d}; }
  friend constexpr quat operator-(quat const &x, quat const &y) { return quat{x.a - y.a, x.b - y.b, x.c - y.c, x.d - y.d}; }
  friend constexpr quat operator-(quat const &x) { return quat{-x.a, -x.b, -x.c, -x.d}; }
  friend constexpr quat operator*(quat const &x, quat const &y)
  {
    return quat{x.a * y.a - x.b * y.b - x.c * y.c - x.d * y.d, x.a * y.b + x.b * y.a + x.c * y.d - x.d * y.c,
                x.a * y.c - x.b * y.d + x.c * y.a + x.d * y.b, x.a * y.d + x.b * y.c - x.c * y.b + x.d * y.a};
  }
  quat &operator+=(quat const &y) { return *this = *this + y; }
  quat &operator-=(quat const &y) { return *this = *this - y; }
  quat &operator*=(quat const &y) { return *this = *this * y; } // right multiplication, as for built-in types
};
inline std::string show(quat const &q)
{
  return "<" + std::to_string(q.a) + "," + std::to_string(q.b) + "," + std::to_string(q.c) + "," + std::to_string(q.d) + ">";
}

struct term_counters
{
  unsigned long mul = 0, add = 0, sub = 0, neg = 0, mul_assign = 0, add_assign = 0, sub_assign = 0, moved_reads = 0;
  friend bool operator==(term_counters const &, term_counters const &) = default;
};
inline term_counters g_term;
inline std::string show(term_counters const &c)
{
  return "{*:" + std::to_string(c.mul) + " +:" + std::to_string(c.add) + " -:" + std::to_string(c.sub) + " neg:" + std::to_string(c.neg) +
         " *=:" + std::to_string(c.mul_assign) + " +=:" + std::to_string(c.add_assign) + " -=:" + std::to_string(c.sub_assign) +
         " moved-from reads:" + std::to_string(c.moved_reads) + "}";
}

struct term
{
  std::string s;
  bool moved = false;
  term() : s("?") {}
  explicit term(std::string x) : s(std::move(x)) {}
  term(term const &o) : s(o.read()), moved(false) {}
  term(term &&o) noexcept : s(o.read()), moved(false) { o.mark(); }
  term &operator=(term const &o)
  {
    s = o.read();
    moved = false;
    return *this;
  }
  term &operator=(term &&o) noexcept
  {
    if (this != &o)
    {
      s = o.read();
      moved = false;
      o.mark();
    }
    return *this;
  }
  ~term() = default;
  // every read of the value goes through here
  std::string const &read() const
  {
    if (moved)
      ++g_term.moved_reads;
    return s;
  }
  void mark()
  {
    moved = true;
    s = "<moved-from>";
  }
  friend bool operator==(term const &x, term const &y) { return x.read() == y.read(); }
  friend bool operator!=(term const &x, term const &y) { return !(x == y); }
  friend term operator*(term const &x, term const &y)
  {
    ++g_term.mul;
    return term("(" + x.read() + "*" + y.read() + ")");
  }
  friend term operator+(term const &x, term const &y)
  {
    ++g_term.add;
    return term("(" + x.read() + "+" + y.read() + ")");
  }
  friend term operator-(term const &x, term const &y)
  {
    ++g_term.sub;
    return term("(" + x.read() + "-" + y.read() + ")");
  }
  friend term operator-(term const &x)
  {
    ++g_term.neg;
    return term("(-" + x.read() + ")");
  }
  term &operator*=(term const &y)
  {
    ++g_term.mul_assign;
    s = "(" + read() + "*=" + y.read() + ")";
    return *this;
  }
  term &operator+=(term const &y)
  {
    ++g_term.add_assign;
    s = "(" + read() + "+=" + y.read() + ")";
    return *this;
  }
  term &operator-=(term const &y)
  {
    ++g_term.sub_assign;
    s = "(" + read() + "-=" + y.read() + ")";
    return *this;
  }
};
inline std::string show(term const &t) { return t.moved ? "<moved-from>" : t.s; }
}

namespace fcppt
{
template <> struct make_literal<c14::quat, void>
{
  using decorated_type = c14::quat;
  template <typename Arg> static constexpr decorated_type get(Arg const _value) noexcept { return c14::quat{static_cast<long>(_value), 0, 0, 0}; }
};
template <> struct make_literal<c14::term, void>
{
  using decorated_type = c14::term;
  template <typename Arg> static decorated_type get(Arg const _value) { return c14::term{std::to_string(static_cast<long>(_value))}; }
};
}

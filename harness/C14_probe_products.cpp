// C14 compile probes: the matrix product RxK * KxC has to be instantiable for every shape
// (documentation: "An M1 by N matrix multiplied by an N by M2 matrix results in an M1 by M2
// matrix").  One translation unit per shape class, R,K,C in 1..4:
//   C14_PROBE_KIND 1: rows(left) <  inner dimension (1x3*3x1, 2x3*3x2, 3x4*4x4, 2x4*4x3, ...)
//   C14_PROBE_KIND 2: rows(left) >  inner dimension (3x1*1x3, 3x2*2x3, 4x3*3x4, 4x2*2x1, ...)
//   C14_PROBE_KIND 3: rows(left) == inner dimension, non-square result or operand (2x2*2x3, 3x3*3x1, ...)
// and the products a matrix*vector user needs next to them (matrix * Cx1 matrix, identity * A, A * identity).
#include <fcppt/no_init.hpp>
#include <fcppt/math/size_type.hpp>
#include <fcppt/math/matrix/arithmetic.hpp>
#include <fcppt/math/matrix/identity.hpp>
#include <fcppt/math/matrix/object_impl.hpp>
#include <fcppt/math/matrix/static.hpp>
#include <type_traits>
#include <utility>

#ifndef C14_PROBE_KIND
#error "C14_PROBE_KIND not defined"
#endif

namespace fm = fcppt::math::matrix;
using sz = fcppt::math::size_type;

template <sz R, sz K, sz C> void one()
{
#if C14_PROBE_KIND == 1
  constexpr bool wanted = R < K;
#elif C14_PROBE_KIND == 2
  constexpr bool wanted = R > K;
#else
  constexpr bool wanted = R == K && (C != R);
#endif
  if constexpr (wanted)
  {
    fm::static_<int, R, K> const a{fcppt::no_init{}};
    fm::static_<int, K, C> const b{fcppt::no_init{}};
    auto const p = a * b;
    static_assert(std::is_same_v<std::remove_cv_t<decltype(p)>, fm::static_<int, R, C>>);
    (void)(a * fm::identity<fm::static_<int, K, K>>());
    (void)(fm::identity<fm::static_<int, R, R>>() * a);
  }
}

template <std::size_t... Is> void all(std::index_sequence<Is...>)
{
  (one<Is / 16 + 1, (Is / 4) % 4 + 1, Is % 4 + 1>(), ...);
}

void c14_probe_products() { all(std::make_index_sequence<64>{}); }

// C14b_narrow.cpp (binary C14b) -- narrow / mixed scalar types: column * row products (2x1 * 1x2,
// more rows than columns on the left) for every scalar pair of C14_narrow*.cpp, and
// matrix<Left> * vector<Right> with Left != Right (also compile probe matrix_vector_mixed_scalars);
// writes of the built-in scalar int through every accessor (C14_access.hpp; compile probes write_*_int).
#define C14_WITH_TALL 1
#include "C14_access.hpp"
#include "C14_narrow.hpp"

namespace c14
{
using namespace narrow;

namespace
{
template <class L, class R> void column_row()
{
  matrix_products<L, R, 2, 1, 2>(vals<L>(), vals<R>());
}
}

void register_b_narrow()
{
  vrt::shard("write_access/int", [] { access::all_write_access<int>(); });
  vrt::shard("tall/narrow/column_row", [] {
    column_row<i8, i8>();
    column_row<u8, u8>();
    column_row<i16, i16>();
    column_row<i8, i16>();
    column_row<u8, i8>();
    column_row<i16, int>();
    column_row<i8, long>();
    matrix_vector<i8, i8, 3, 1>(vals<i8>(), vals<i8>());
  });
  vrt::shard("narrow/mixed/matrix_vector", [] {
    matrix_vector<i16, int, 2, 2>(vals<i16>(true), vals<int>());
    matrix_vector<int, i8, 2, 2>(vals<int>(true), vals<i8>());
    matrix_vector<i8, i16, 2, 2>(vals<i8>(true), vals<i16>());
    matrix_vector<u8, i8, 2, 2>(vals<u8>(true), vals<i8>());
    matrix_vector<i8, long, 2, 2>(vals<i8>(true), vals<long>());
    matrix_vector<i16, i8, 1, 3>(vals<i16>(), vals<i8>());
  });
}
}

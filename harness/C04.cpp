// C04 -- optional / either / variant combinators satisfy their algebraic specification.
// Engine E: every value of the 3-element domain, every complete function table between the
// finite domains, every container up to length 4, compared with a hand-written tagged-union
// reference; every continuation carries a call probe.
//
// This TU: fcppt::optional (+ fcppt::monad on optional).  Either: C04_either.cpp, variant:
// C04_variant.cpp.
#include "C04_common.hpp"

#include <fcppt/const.hpp>
#include <fcppt/make_cref.hpp>
#include <fcppt/make_ref.hpp>
#include <fcppt/reference_impl.hpp>
#include <fcppt/unit.hpp>
#include <fcppt/monad/bind.hpp>
#include <fcppt/monad/chain.hpp>
#include <fcppt/monad/do.hpp>
#include <fcppt/monad/return.hpp>
#include <fcppt/optional/alternative.hpp>
#include <fcppt/optional/apply.hpp>
#include <fcppt/optional/assign.hpp>
#include <fcppt/optional/bind.hpp>
#include <fcppt/optional/cat.hpp>
#include <fcppt/optional/combine.hpp>
#include <fcppt/optional/comparison.hpp>
#include <fcppt/optional/copy_value.hpp>
#include <fcppt/optional/filter.hpp>
#include <fcppt/optional/from.hpp>
#include <fcppt/optional/from_pointer.hpp>
#include <fcppt/optional/join.hpp>
#include <fcppt/optional/make.hpp>
#include <fcppt/optional/make_if.hpp>
#include <fcppt/optional/map.hpp>
#include <fcppt/optional/maybe.hpp>
#include <fcppt/optional/maybe_multi.hpp>
#include <fcppt/optional/maybe_void.hpp>
#include <fcppt/optional/maybe_void_multi.hpp>
#include <fcppt/optional/monad.hpp>
#include <fcppt/optional/nothing.hpp>
#include <fcppt/optional/object_impl.hpp>
#include <fcppt/optional/reference.hpp>
#include <fcppt/optional/sequence.hpp>
#include <fcppt/optional/to_container.hpp>
#include <fcppt/optional/to_exception.hpp>
#include <fcppt/optional/to_pointer.hpp>

using namespace c04;

namespace
{
using OD = fcppt::optional::object<D>;
using OOD = fcppt::optional::object<OD>;
using OF = fcppt::optional::object<Fn>;

OD mk_od(int c) { return c == 0 ? OD{} : OD{D{c - 1}}; }
D mk_d(int c) { return D{c}; }
int code(OD const &o) { return o.has_value() ? 1 + o.get_unsafe().v : 0; }
OF mk_of(int c) { return c == 0 ? OF{} : OF{Fn{c - 1}}; }
int code(OF const &o) { return o.has_value() ? 1 + o.get_unsafe().v : 0; }
// optional<optional<D>>: 0 = nothing, 1 + c = just (optional c)
OOD mk_ood(int c) { return c == 0 ? OOD{} : OOD{mk_od(c - 1)}; }
int code(OOD const &o) { return o.has_value() ? 1 + code(o.get_unsafe()) : 0; }
std::string show_oo(int c) { return c == 0 ? "nothing" : "just (" + show_opt(c - 1) + ")"; }

std::vector<OD> mk_vec(std::vector<int> const &s)
{
  std::vector<OD> r;
  for (int c : s)
    r.push_back(mk_od(c));
  return r;
}
std::vector<int> codes(std::vector<OD> const &v)
{
  std::vector<int> r;
  for (auto const &o : v)
    r.push_back(code(o));
  return r;
}
std::vector<int> vals(std::vector<D> const &v)
{
  std::vector<int> r;
  for (auto const &d : v)
    r.push_back(d.v);
  return r;
}

// ------------------------------------------------------------------ object
void sh_object()
{
  for (int m = 0; m < 4; ++m)
  {
    if (!vrt::begin("optional::object<m>", m))
      continue;
    auto desc = [&] { return "optional::object construct/copy/move of " + show_opt(m); };
    vrt::nontrivial(m != 0);
    SAMPLE();
    OD const def{};
    CK(!def.has_value(), "optional::object:default_ctor", "default constructed optional has a value");
    OD a = mk_od(m);
    CK(a.has_value() == (m != 0), "optional::object:has_value", "has_value wrong");
    if (m != 0)
    {
      D const lv{m - 1};
      OD const from_l{lv};
      CK(lv.v == m - 1 && code(from_l) == m, "optional::object:copy_ctor_T", "construct from T const& wrong");
      D rv{m - 1};
      OD from_r{std::move(rv)};
      CK(code(from_r) == m, "optional::object:move_ctor_T", "construct from T&& wrong");
      from_r.get_unsafe() = D{(m) % 3};
      CK(from_r.get_unsafe().v == m % 3, "optional::object:get_unsafe_mut", "get_unsafe() is not a reference to the value");
    }
    OD const b{a};
    CK(code(b) == m && code(a) == m, "optional::object:copy", "copy changed the value");
    OD c{std::move(a)};
    CK(code(c) == m, "optional::object:move", "move lost the value");
    for (int n = 0; n < 4; ++n)
    {
      OD x = mk_od(n);
      OD const y = mk_od(m);
      x = y;
      CK(code(x) == m && code(y) == m, "optional::object:copy_assign", "copy assignment %d <- %d wrong", n, m);
      OD z = mk_od(n);
      OD w = mk_od(m);
      z = std::move(w);
      CK(code(z) == m, "optional::object:move_assign", "move assignment %d <- %d wrong", n, m);
      if (m != 0)
      {
        OD t = mk_od(n);
        D &ref = fcppt::optional::assign(t, D{m - 1});
        CK(code(t) == m && &ref == &t.get_unsafe(), "optional::assign", "assign wrong");
      }
    }
    fcppt::optional::object<int> const on{fcppt::optional::nothing{}};
    CK(!on.has_value(), "optional::nothing", "conversion from nothing has a value");
    if (m != 0)
    {
      OD const mk = fcppt::optional::make(D{m - 1});
      CK(code(mk) == m, "optional::make", "make wrong");
    }
  }
}

// ------------------------------------------------------------------ maybe / from / maybe_void / to_container / to_exception
struct my_exc
{
  int code;
};

void sh_maybe()
{
  for (int cat = 0; cat < 3; ++cat)
    for (int m = 0; m < 4; ++m)
      for (int d = 0; d < 3; ++d)
        for (int f = 0; f < 27; ++f)
        {
          if (!vrt::begin("optional::maybe<cat,m,default,f>", cat, m, d, f))
            continue;
          tab const t = decode(f, 3, 3);
          auto desc = [&]
          {
            return std::string("optional::maybe(") + show_opt(m) + " as " + cat_name(cat) + ", default=" + std::to_string(d) +
                   ", transform=" + show_tab(t, show_int) + ")";
          };
          vrt::nontrivial(m != 0);
          SAMPLE();
          probe pd, pt;
          OD o = mk_od(m);
          auto const def = fn0<D>(d, pd, mk_d);
          auto const tr = fn1<D, D>(t, pt, mk_d);
          D const r = call_cat(cat, o, [&](auto &&x) { return fcppt::optional::maybe(std::forward<decltype(x)>(x), def, tr); });
          int const want = m == 0 ? d : t[m - 1];
          CK(r.v == want, "optional::maybe:result", "got %d want %d", r.v, want);
          CK(pd.is(m == 0 ? 1 : 0, d), "optional::maybe:default_calls", "default %s", pd.show().c_str());
          CK(pt.is(m == 0 ? 0 : 1, m - 1), "optional::maybe:transform_calls", "transform %s", pt.show().c_str());
          if (cat < 2)
            CK(code(o) == m, "optional::maybe:source_modified", "lvalue source is now %s", show_opt(code(o)).c_str());
        }
  for (int cat = 0; cat < 3; ++cat)
    for (int m = 0; m < 4; ++m)
      for (int d = 0; d < 3; ++d)
      {
        if (!vrt::begin("optional::from<cat,m,default>", cat, m, d))
          continue;
        auto desc = [&] { return std::string("optional::from(") + show_opt(m) + " as " + cat_name(cat) + ", default=" + std::to_string(d) + ")"; };
        vrt::nontrivial(m != 0);
        SAMPLE();
        probe pd;
        OD o = mk_od(m);
        auto const def = fn0<D>(d, pd, mk_d);
        D const r = call_cat(cat, o, [&](auto &&x) { return fcppt::optional::from(std::forward<decltype(x)>(x), def); });
        CK(r.v == (m == 0 ? d : m - 1), "optional::from:result", "got %d", r.v);
        CK(pd.is(m == 0 ? 1 : 0, d), "optional::from:default_calls", "default %s", pd.show().c_str());
        if (cat < 2)
          CK(code(o) == m, "optional::from:source_modified", "lvalue source is now %s", show_opt(code(o)).c_str());
      }
  for (int cat = 0; cat < 3; ++cat)
    for (int m = 0; m < 4; ++m)
    {
      if (vrt::begin("optional::maybe_void<cat,m>", cat, m))
      {
        auto desc = [&] { return std::string("optional::maybe_void(") + show_opt(m) + " as " + cat_name(cat) + ", f)"; };
        vrt::nontrivial(m != 0);
        SAMPLE();
        probe p;
        OD o = mk_od(m);
        auto const tr = [&p](D a) { p.hit(a.v, a.ok()); };
        call_cat(cat, o,
                 [&](auto &&x)
                 {
                   fcppt::optional::maybe_void(std::forward<decltype(x)>(x), tr);
                   return 0;
                 });
        CK(p.is(m == 0 ? 0 : 1, m - 1), "optional::maybe_void:calls", "transform %s", p.show().c_str());
        if (cat < 2)
          CK(code(o) == m, "optional::maybe_void:source_modified", "lvalue source is now %s", show_opt(code(o)).c_str());
      }
      if (vrt::begin("optional::to_container<cat,m>", cat, m))
      {
        auto desc = [&] { return std::string("optional::to_container<std::vector<D>>(") + show_opt(m) + " as " + cat_name(cat) + ")"; };
        vrt::nontrivial(m != 0);
        SAMPLE();
        OD o = mk_od(m);
        std::vector<D> const r =
            call_cat(cat, o, [&](auto &&x) { return fcppt::optional::to_container<std::vector<D>>(std::forward<decltype(x)>(x)); });
        CK(vals(r) == (m == 0 ? std::vector<int>{} : std::vector<int>{m - 1}), "optional::to_container:result", "got %s",
           show_seq(vals(r), show_int).c_str());
        if (cat < 2)
          CK(code(o) == m, "optional::to_container:source_modified", "lvalue source is now %s", show_opt(code(o)).c_str());
      }
      if (vrt::begin("optional::to_exception<cat,m>", cat, m))
      {
        auto desc = [&] { return std::string("optional::to_exception(") + show_opt(m) + " as " + cat_name(cat) + ", ()->my_exc{42})"; };
        vrt::nontrivial(m == 0);
        probe p;
        OD o = mk_od(m);
        auto const mk = [&p]
        {
          p.hit(0);
          return my_exc{42};
        };
        int got = -1, thrown = 0;
        try
        {
          got = call_cat(cat, o,
                         [&](auto &&x)
                         {
                           D const r = fcppt::optional::to_exception(std::forward<decltype(x)>(x), mk);
                           return r.v;
                         });
        }
        catch (my_exc const &e)
        {
          thrown = e.code;
        }
        if (m == 0)
          CK(thrown == 42 && got == -1 && p.is(1, 0), "optional::to_exception:empty", "thrown=%d got=%d %s", thrown, got, p.show().c_str());
        else
          CK(thrown == 0 && got == m - 1 && p.is(0), "optional::to_exception:value", "thrown=%d got=%d %s", thrown, got, p.show().c_str());
      }
    }
  for (int b = 0; b < 2; ++b)
    for (int d = 0; d < 3; ++d)
    {
      if (!vrt::begin("optional::make_if<b,value>", b, d))
        continue;
      auto desc = [&] { return std::string("optional::make_if(") + (b ? "true" : "false") + ", ()->" + std::to_string(d) + ")"; };
      vrt::nontrivial(b != 0);
      SAMPLE();
      probe p;
      OD const r = fcppt::optional::make_if(b != 0, fn0<D>(d, p, mk_d));
      CK(code(r) == (b ? 1 + d : 0), "optional::make_if:result", "got %s", show_opt(code(r)).c_str());
      // selected branch: "_function() is returned as an optional" -- one evaluation; that the function is left alone when
      // _is_set is false is not promised by the documentation -> information only
      if (b)
        CK(p.is(1, d), "optional::make_if:calls", "%s", p.show().c_str());
      else
        INFO_ONLY(p.calls == 0, "optional::make_if:function_called_although_not_set");
    }
}

// ------------------------------------------------------------------ map / functor laws
void sh_map()
{
  for (int cat = 0; cat < 3; ++cat)
    for (int m = 0; m < 4; ++m)
      for (int f = 0; f < 27; ++f)
      {
        if (!vrt::begin("optional::map<cat,m,f>", cat, m, f))
          continue;
        tab const t = decode(f, 3, 3);
        auto desc = [&] { return std::string("optional::map(") + show_opt(m) + " as " + cat_name(cat) + ", " + show_tab(t, show_int) + ")"; };
        vrt::nontrivial(m != 0);
        SAMPLE();
        probe p;
        OD o = mk_od(m);
        auto const fn = fn1<D, D>(t, p, mk_d);
        OD const r = call_cat(cat, o, [&](auto &&x) { return fcppt::optional::map(std::forward<decltype(x)>(x), fn); });
        int const want = m == 0 ? 0 : 1 + t[m - 1];
        CK(code(r) == want, "optional::map:result", "got %s want %s", show_opt(code(r)).c_str(), show_opt(want).c_str());
        CK(p.is(m == 0 ? 0 : 1, m - 1), "optional::map:calls", "%s", p.show().c_str());
        if (cat < 2)
          CK(code(o) == m, "optional::map:source_modified", "lvalue source is now %s", show_opt(code(o)).c_str());
        // map f = bind (make . f)
        probe p2;
        auto const fn_b = fn1<D, D>(t, p2, mk_d);
        OD const rb = fcppt::optional::bind(mk_od(m), [&](D a) { return fcppt::optional::make(fn_b(std::move(a))); });
        CK(code(rb) == code(r), "optional::law:map_is_bind_make", "map %s, bind(make.f) %s", show_opt(code(r)).c_str(),
           show_opt(code(rb)).c_str());
        // type changing map D -> Fn
        probe p3;
        OF const rf = fcppt::optional::map(mk_od(m), [&](D a) { p3.hit(a.v, a.ok()); return Fn{f}; });
        CK(code(rf) == (m == 0 ? 0 : 1 + f) && p3.is(m == 0 ? 0 : 1, m - 1), "optional::map:type_changing", "got %d %s", code(rf),
           p3.show().c_str());
      }
  // identity law
  for (int m = 0; m < 4; ++m)
  {
    if (!vrt::begin("optional::law_functor_identity<m>", m))
      continue;
    auto desc = [&] { return "optional: map(id) on " + show_opt(m); };
    vrt::nontrivial(m != 0);
    OD const r = fcppt::optional::map(mk_od(m), [](D a) { return a; });
    CK(code(r) == m, "optional::law:functor_identity", "got %s", show_opt(code(r)).c_str());
  }
  // composition law: map(map(m,f),g) == map(m, g.f)
  for (int m = 0; m < 4; ++m)
    for (int f = 0; f < 27; ++f)
      for (int g = 0; g < 27; ++g)
      {
        if (!vrt::begin("optional::law_functor_composition<m,f,g>", m, f, g))
          continue;
        tab const tf = decode(f, 3, 3), tg = decode(g, 3, 3);
        auto desc = [&]
        { return "optional: map(map(" + show_opt(m) + ", f), g) vs map(m, g.f), f=" + show_tab(tf, show_int) + " g=" + show_tab(tg, show_int); };
        vrt::nontrivial(m != 0);
        SAMPLE();
        probe pf, pg, pc;
        auto const ff = fn1<D, D>(tf, pf, mk_d);
        auto const gg = fn1<D, D>(tg, pg, mk_d);
        OD const lhs = fcppt::optional::map(fcppt::optional::map(mk_od(m), ff), gg);
        OD const rhs = fcppt::optional::map(mk_od(m), [&](D a) { pc.hit(a.v, a.ok()); return D{tg[tf[a.v]]}; });
        int const want = m == 0 ? 0 : 1 + tg[tf[m - 1]];
        CK(code(lhs) == code(rhs) && code(lhs) == want, "optional::law:functor_composition", "lhs %s rhs %s want %s",
           show_opt(code(lhs)).c_str(), show_opt(code(rhs)).c_str(), show_opt(want).c_str());
        CK(pf.is(m == 0 ? 0 : 1, m - 1) && pg.is(m == 0 ? 0 : 1, m == 0 ? 0 : tf[m - 1]) && pc.is(m == 0 ? 0 : 1, m - 1),
           "optional::law:functor_composition_calls", "f %s g %s", pf.show().c_str(), pg.show().c_str());
      }
}

// ------------------------------------------------------------------ bind / join / monad laws
void sh_bind()
{
  for (int cat = 0; cat < 3; ++cat)
    for (int m = 0; m < 4; ++m)
      for (int f = 0; f < 64; ++f)
      {
        if (!vrt::begin("optional::bind<cat,m,f>", cat, m, f))
          continue;
        tab const t = decode(f, 4, 3);
        auto desc = [&] { return std::string("optional::bind(") + show_opt(m) + " as " + cat_name(cat) + ", " + show_tab(t, show_opt) + ")"; };
        vrt::nontrivial(m != 0);
        SAMPLE();
        int const want = m == 0 ? 0 : t[m - 1];
        {
          probe p;
          OD o = mk_od(m);
          auto const fn = fn1<D, OD>(t, p, mk_od);
          OD const r = call_cat(cat, o, [&](auto &&x) { return fcppt::optional::bind(std::forward<decltype(x)>(x), fn); });
          CK(code(r) == want, "optional::bind:result", "got %s want %s", show_opt(code(r)).c_str(), show_opt(want).c_str());
          CK(p.is(m == 0 ? 0 : 1, m - 1), "optional::bind:calls", "%s", p.show().c_str());
          if (cat < 2)
            CK(code(o) == m, "optional::bind:source_modified", "lvalue source is now %s", show_opt(code(o)).c_str());
        }
        {
          // the generic monad interface must be the same function
          probe p;
          OD o = mk_od(m);
          auto const fn = fn1<D, OD>(t, p, mk_od);
          OD const r = call_cat(cat, o, [&](auto &&x) { return fcppt::monad::bind(std::forward<decltype(x)>(x), fn); });
          CK(code(r) == want, "monad::bind<optional>:result", "got %s want %s", show_opt(code(r)).c_str(), show_opt(want).c_str());
          CK(p.is(m == 0 ? 0 : 1, m - 1), "monad::bind<optional>:calls", "%s", p.show().c_str());
          if (cat < 2)
            CK(code(o) == m, "monad::bind<optional>:source_modified", "lvalue source is now %s", show_opt(code(o)).c_str());
        }
      }
  // join = bind id, and join vs. the documentation
  for (int cat = 0; cat < 3; ++cat)
    for (int mm = 0; mm < 5; ++mm)
    {
      if (!vrt::begin("optional::join<cat,mm>", cat, mm))
        continue;
      auto desc = [&] { return std::string("optional::join(") + show_oo(mm) + " as " + cat_name(cat) + ")"; };
      vrt::nontrivial(mm >= 2);
      SAMPLE();
      OOD o = mk_ood(mm);
      OD const r = call_cat(cat, o, [&](auto &&x) { return fcppt::optional::join(std::forward<decltype(x)>(x)); });
      int const want = mm == 0 ? 0 : mm - 1;
      CK(code(r) == want, "optional::join:result", "got %s want %s", show_opt(code(r)).c_str(), show_opt(want).c_str());
      if (cat < 2)
        CK(code(o) == mm, "optional::join:source_modified", "lvalue source is now %s", show_oo(code(o)).c_str());
      OD const rb = fcppt::optional::bind(mk_ood(mm), [](OD a) { return a; });
      CK(code(rb) == code(r), "optional::law:join_is_bind_id", "join %s bind(id) %s", show_opt(code(r)).c_str(), show_opt(code(rb)).c_str());
    }
  // left identity: bind(make(x), f) == f(x);  return_ == make
  for (int x = 0; x < 3; ++x)
    for (int f = 0; f < 64; ++f)
    {
      if (!vrt::begin("optional::law_left_identity<x,f>", x, f))
        continue;
      tab const t = decode(f, 4, 3);
      auto desc = [&] { return "optional: bind(make(" + std::to_string(x) + "), f) vs f(x), f=" + show_tab(t, show_opt); };
      vrt::nontrivial(true);
      SAMPLE();
      probe p, q;
      auto const fn = fn1<D, OD>(t, p, mk_od);
      auto const fn2_ = fn1<D, OD>(t, q, mk_od);
      OD const lhs = fcppt::optional::bind(fcppt::optional::make(D{x}), fn);
      OD const rhs = fn2_(D{x});
      CK(code(lhs) == code(rhs) && code(lhs) == t[x], "optional::law:left_identity", "lhs %s rhs %s", show_opt(code(lhs)).c_str(),
         show_opt(code(rhs)).c_str());
      CK(p.is(1, x), "optional::law:left_identity_calls", "%s", p.show().c_str());
      OD const ret = fcppt::monad::return_<fcppt::optional::object<fcppt::unit>>(D{x});
      CK(code(ret) == 1 + x, "monad::return_<optional>", "got %s", show_opt(code(ret)).c_str());
      OD const lhs2 = fcppt::monad::bind(fcppt::monad::return_<OD>(D{x}), fn);
      CK(code(lhs2) == t[x], "monad::law<optional>:left_identity", "got %s", show_opt(code(lhs2)).c_str());
    }
  // right identity: bind(m, make) == m
  for (int m = 0; m < 4; ++m)
  {
    if (!vrt::begin("optional::law_right_identity<m>", m))
      continue;
    auto desc = [&] { return "optional: bind(" + show_opt(m) + ", make)"; };
    vrt::nontrivial(m != 0);
    OD const r = fcppt::optional::bind(mk_od(m), [](D a) { return fcppt::optional::make(std::move(a)); });
    CK(code(r) == m, "optional::law:right_identity", "got %s", show_opt(code(r)).c_str());
    OD const r2 = fcppt::monad::bind(mk_od(m), [](D a) { return fcppt::monad::return_<OD>(std::move(a)); });
    CK(code(r2) == m, "monad::law<optional>:right_identity", "got %s", show_opt(code(r2)).c_str());
  }
}

// associativity over all (m,f,g): bind(bind(m,f),g) == bind(m, x -> bind(f(x),g)); chain is the left nesting
void sh_assoc(int part, int nparts)
{
  for (int m = 0; m < 4; ++m)
    for (int f = 0; f < 64; ++f)
    {
      if (f % nparts != part)
        continue;
      for (int g = 0; g < 64; ++g)
      {
        if (!vrt::begin("optional::law_associativity<m,f,g>", m, f, g))
          continue;
        tab const tf = decode(f, 4, 3), tg = decode(g, 4, 3);
        auto desc = [&]
        {
          return "optional: bind(bind(" + show_opt(m) + ", f), g) vs bind(m, x->bind(f(x), g)) vs monad::chain(m,f,g), f=" + show_tab(tf, show_opt) +
                 " g=" + show_tab(tg, show_opt);
        };
        int const mid = m == 0 ? 0 : tf[m - 1];
        int const want = mid == 0 ? 0 : tg[mid - 1];
        vrt::nontrivial(mid != 0);
        SAMPLE();
        probe pf1, pg1, pf2, pg2, pf3, pg3;
        auto const f1 = fn1<D, OD>(tf, pf1, mk_od);
        auto const g1 = fn1<D, OD>(tg, pg1, mk_od);
        auto const f2 = fn1<D, OD>(tf, pf2, mk_od);
        auto const g2 = fn1<D, OD>(tg, pg2, mk_od);
        auto const f3 = fn1<D, OD>(tf, pf3, mk_od);
        auto const g3 = fn1<D, OD>(tg, pg3, mk_od);
        OD const lhs = fcppt::optional::bind(fcppt::optional::bind(mk_od(m), f1), g1);
        OD const rhs = fcppt::optional::bind(mk_od(m), [&](D a) { return fcppt::optional::bind(f2(std::move(a)), g2); });
        OD const ch = fcppt::monad::chain(mk_od(m), f3, g3);
        CK(code(lhs) == code(rhs) && code(lhs) == want, "optional::law:associativity", "lhs %s rhs %s want %s", show_opt(code(lhs)).c_str(),
           show_opt(code(rhs)).c_str(), show_opt(want).c_str());
        CK(code(ch) == want, "monad::chain<optional>:result", "got %s want %s", show_opt(code(ch)).c_str(), show_opt(want).c_str());
        bool const calls_ok = pf1.is(m != 0, m - 1) && pf2.is(m != 0, m - 1) && pf3.is(m != 0, m - 1) && pg1.is(mid != 0, mid - 1) &&
                              pg2.is(mid != 0, mid - 1) && pg3.is(mid != 0, mid - 1);
        CK(calls_ok, "optional::law:associativity_calls", "f: %s / %s / %s; g: %s / %s / %s", pf1.show().c_str(), pf2.show().c_str(),
           pf3.show().c_str(), pg1.show().c_str(), pg2.show().c_str(), pg3.show().c_str());
      }
    }
}

// monad::do_(m, f, h): h sees both bound values; h = table D x D -> optional<D> restricted to
// "present with x*3+y recorded / absent" patterns: all 2^9 presence patterns over an injective payload
void sh_do()
{
  using OI = fcppt::optional::object<int>;
  for (int m = 0; m < 4; ++m)
    for (int f = 0; f < 64; ++f)
      for (int h = 0; h < 512; ++h)
      {
        if (!vrt::begin("monad::do_<optional><m,f,presence>", m, f, h))
          continue;
        tab const tf = decode(f, 4, 3), th = decode(h, 2, 9);
        auto desc = [&]
        {
          return "monad::do_(" + show_opt(m) + ", f, (x,y)->present? just(3x+y)), f=" + show_tab(tf, show_opt) + " present=" + show_tab(th, show_int);
        };
        int const mid = m == 0 ? 0 : tf[m - 1];
        int const pair = mid == 0 ? -1 : (m - 1) * 3 + (mid - 1);
        vrt::nontrivial(mid != 0);
        SAMPLE();
        probe pf, ph;
        auto const ff = fn1<D, OD>(tf, pf, mk_od);
        OI const r = fcppt::monad::do_(mk_od(m), ff,
                                       [&](D const &x, D const &y)
                                       {
                                         bool const ok = x.ok() && y.ok();
                                         int const i = ok ? x.v * 3 + y.v : -1;
                                         ph.hit(i, ok);
                                         return th[i] ? OI{i} : OI{};
                                       });
        int const want = pair >= 0 && th[pair] ? pair : -1;
        int const got = r.has_value() ? r.get_unsafe() : -1;
        CK(got == want, "monad::do_<optional>:result", "got %d want %d", got, want);
        CK(pf.is(m != 0, m - 1) && ph.is(pair >= 0, pair), "monad::do_<optional>:calls", "f %s h %s", pf.show().c_str(), ph.show().c_str());
      }
}

// ------------------------------------------------------------------ apply / maybe_multi / combine (binary tables)
void sh_binary(int part, int nparts)
{
  int const base = bin_base();
  int const ntab = ipow(base, 9);
  for (int f = 0; f < ntab; ++f)
  {
    if (f % nparts != part)
      continue;
    if (vrt::out_of_time())
      return;
    tab const t = decode(f, base, 9);
    for (int a = 0; a < 4; ++a)
      for (int b = 0; b < 4; ++b)
      {
        bool const both = a != 0 && b != 0;
        int const idx = both ? (a - 1) * 3 + (b - 1) : -1;
        for (int cats = 0; cats < 9; ++cats)
        {
        int const ca = cats % 3, cb = cats / 3;
        auto descf = [&](char const *fn)
        {
          return std::string(fn) + "(f=" + show_tab(t, show_int) + " [index 3x+y], " + show_opt(a) + " as " + cat_name(ca) + ", " + show_opt(b) +
                 " as " + cat_name(cb) + ")";
        };
        if (vrt::begin("optional::apply<f,a,b,cat_a,cat_b>", f, a, b, ca, cb))
        {
          auto desc = [&] { return descf("optional::apply"); };
          vrt::nontrivial(both);
          SAMPLE();
          probe p;
          auto const fn = fn2<D, D, D>(t, p, mk_d);
          OD oa = mk_od(a), ob = mk_od(b);
          OD const r = call_cat(ca, oa,
                                [&](auto &&x)
                                {
                                  return call_cat(cb, ob,
                                                  [&](auto &&y)
                                                  { return fcppt::optional::apply(fn, std::forward<decltype(x)>(x), std::forward<decltype(y)>(y)); });
                                });
          int const want = both ? 1 + t[idx] : 0;
          CK(code(r) == want, "optional::apply:result", "got %s want %s", show_opt(code(r)).c_str(), show_opt(want).c_str());
          CK(p.is(both, idx), "optional::apply:calls", "%s", p.show().c_str());
          CK((ca == 2 || code(oa) == a) && (cb == 2 || code(ob) == b), "optional::apply:source_modified", "lvalue sources now %s, %s",
             show_opt(code(oa)).c_str(), show_opt(code(ob)).c_str());
          // applicative/monad coherence: apply(f,a,b) == bind(a, x -> map(b, y -> f(x,y)))
          probe q;
          auto const fq = fn2<D, D, D>(t, q, mk_d);
          OD const viam = fcppt::optional::bind(mk_od(a), [&](D x) { return fcppt::optional::map(mk_od(b), [&](D y) { return fq(x, std::move(y)); }); });
          CK(code(viam) == code(r), "optional::law:apply_is_bind_map", "apply %s, bind/map %s", show_opt(code(r)).c_str(),
             show_opt(code(viam)).c_str());
        }
        if (vrt::begin("optional::maybe_multi<f,a,b,cat_a,cat_b>", f, a, b, ca, cb))
        {
          auto desc = [&] { return descf("optional::maybe_multi(default=f mod 3, ...)"); };
          vrt::nontrivial(both);
          probe p, pd;
          int const d = f % 3;
          auto const fn = fn2<D, D, D>(t, p, mk_d);
          auto const def = fn0<D>(d, pd, mk_d);
          OD oa = mk_od(a), ob = mk_od(b);
          D const r = call_cat(
              ca, oa,
              [&](auto &&x)
              {
                return call_cat(cb, ob,
                                [&](auto &&y)
                                { return fcppt::optional::maybe_multi(def, fn, std::forward<decltype(x)>(x), std::forward<decltype(y)>(y)); });
              });
          int const want = both ? t[idx] : d;
          CK(r.v == want, "optional::maybe_multi:result", "got %d want %d", r.v, want);
          CK(p.is(both, idx) && pd.is(!both, d), "optional::maybe_multi:calls", "transform %s default %s", p.show().c_str(), pd.show().c_str());
          CK((ca == 2 || code(oa) == a) && (cb == 2 || code(ob) == b), "optional::maybe_multi:source_modified", "lvalue sources now %s, %s",
             show_opt(code(oa)).c_str(), show_opt(code(ob)).c_str());
        }
        if (vrt::begin("optional::combine<f,a,b,cat_a,cat_b>", f, a, b, ca, cb))
        {
          auto desc = [&] { return descf("optional::combine"); };
          vrt::nontrivial(both);
          SAMPLE();
          probe p;
          auto const fn = fn2<D, D, D>(t, p, mk_d);
          OD oa = mk_od(a), ob = mk_od(b);
          OD const r = call_cat(ca, oa,
                                [&](auto &&x)
                                {
                                  return call_cat(cb, ob,
                                                  [&](auto &&y)
                                                  { return fcppt::optional::combine(std::forward<decltype(x)>(x), std::forward<decltype(y)>(y), fn); });
                                });
          // documentation: both set -> f(x1,x2); exactly one set -> that one; (none set -> nothing is the only value available)
          int const want = both ? 1 + t[idx] : (a != 0 ? a : b);
          CK(code(r) == want, "optional::combine:result", "got %s want %s", show_opt(code(r)).c_str(), show_opt(want).c_str());
          CK(p.is(both, idx), "optional::combine:calls", "%s", p.show().c_str());
          CK((ca == 2 || code(oa) == a) && (cb == 2 || code(ob) == b), "optional::combine:source_modified", "lvalue sources now %s, %s",
             show_opt(code(oa)).c_str(), show_opt(code(ob)).c_str());
        }
        } // cats
      }
  }
}

// unary and ternary apply, maybe_void_multi, applicative laws with function-valued optionals
void sh_applicative()
{
  for (int cat = 0; cat < 3; ++cat)
    for (int m = 0; m < 4; ++m)
      for (int f = 0; f < 27; ++f)
      {
        if (!vrt::begin("optional::apply1<cat,m,f>", cat, m, f))
          continue;
        tab const t = decode(f, 3, 3);
        auto desc = [&] { return std::string("optional::apply(") + show_tab(t, show_int) + ", " + show_opt(m) + " as " + cat_name(cat) + ")"; };
        vrt::nontrivial(m != 0);
        SAMPLE();
        probe p;
        auto const fn = fn1<D, D>(t, p, mk_d);
        OD o = mk_od(m);
        OD const r = call_cat(cat, o, [&](auto &&x) { return fcppt::optional::apply(fn, std::forward<decltype(x)>(x)); });
        int const want = m == 0 ? 0 : 1 + t[m - 1];
        CK(code(r) == want, "optional::apply1:result", "got %s want %s", show_opt(code(r)).c_str(), show_opt(want).c_str());
        CK(p.is(m != 0, m - 1), "optional::apply1:calls", "%s", p.show().c_str());
        if (cat < 2)
          CK(code(o) == m, "optional::apply1:source_modified", "lvalue source is now %s", show_opt(code(o)).c_str());
        // homomorphism: apply(f, make(x)) == make(f(x))
        if (m != 0)
        {
          probe q;
          OD const h = fcppt::optional::apply(fn1<D, D>(t, q, mk_d), fcppt::optional::make(D{m - 1}));
          CK(code(h) == 1 + t[m - 1] && q.is(1, m - 1), "optional::law:applicative_homomorphism", "got %s", show_opt(code(h)).c_str());
        }
      }
  // ternary: an injective function records the arguments and their order (any other ternary
  // function is this one followed by a table lookup)
  using OI = fcppt::optional::object<int>;
  for (int cats = 0; cats < 27; ++cats)
    for (int a = 0; a < 4; ++a)
      for (int b = 0; b < 4; ++b)
        for (int c = 0; c < 4; ++c)
        {
          if (!vrt::begin("optional::apply3<cats,a,b,c>", cats, a, b, c))
            continue;
          int const ca = cats % 3, cb = (cats / 3) % 3, cc = cats / 9;
          auto desc = [&]
          {
            return std::string("optional::apply / maybe_multi / maybe_void_multi ((x,y,z)->9x+3y+z, ") + show_opt(a) + " as " + cat_name(ca) + ", " + show_opt(b) +
                   " as " + cat_name(cb) + ", " + show_opt(c) + " as " + cat_name(cc) + ")";
          };
          bool const all = a && b && c;
          int const idx = all ? (a - 1) * 9 + (b - 1) * 3 + (c - 1) : -1;
          vrt::nontrivial(all);
          SAMPLE();
          auto run3 = [&](auto const &body)
          {
            OD oa = mk_od(a), ob = mk_od(b), oc = mk_od(c);
            auto r = call_cat(ca, oa,
                              [&](auto &&x)
                              {
                                return call_cat(cb, ob,
                                                [&](auto &&y)
                                                {
                                                  return call_cat(cc, oc,
                                                                  [&](auto &&z) {
                                                                    return body(std::forward<decltype(x)>(x), std::forward<decltype(y)>(y),
                                                                                std::forward<decltype(z)>(z));
                                                                  });
                                                });
                              });
            CK((ca == 2 || code(oa) == a) && (cb == 2 || code(ob) == b) && (cc == 2 || code(oc) == c), "optional::apply3:source_modified",
               "lvalue sources now %s, %s, %s", show_opt(code(oa)).c_str(), show_opt(code(ob)).c_str(), show_opt(code(oc)).c_str());
            return r;
          };
          {
            probe p;
            auto const fn = [&p](D x, D y, D z) -> int
            {
              bool const ok = x.ok() && y.ok() && z.ok();
              int const i = ok ? x.v * 9 + y.v * 3 + z.v : -1;
              p.hit(i, ok);
              return i;
            };
            OI const r = run3([&](auto &&x, auto &&y, auto &&z)
                              { return fcppt::optional::apply(fn, std::forward<decltype(x)>(x), std::forward<decltype(y)>(y), std::forward<decltype(z)>(z)); });
            int const got = r.has_value() ? r.get_unsafe() : -1;
            CK(got == idx, "optional::apply3:result", "got %d want %d", got, idx);
            CK(p.is(all, idx), "optional::apply3:calls", "%s", p.show().c_str());
          }
          {
            probe p, pd;
            auto const fn = [&p](D x, D y, D z) -> int
            {
              bool const ok = x.ok() && y.ok() && z.ok();
              int const i = ok ? x.v * 9 + y.v * 3 + z.v : -1;
              p.hit(i, ok);
              return i;
            };
            auto const def = [&pd]() -> int
            {
              pd.hit(0);
              return -5;
            };
            int const r = run3(
                [&](auto &&x, auto &&y, auto &&z)
                { return fcppt::optional::maybe_multi(def, fn, std::forward<decltype(x)>(x), std::forward<decltype(y)>(y), std::forward<decltype(z)>(z)); });
            CK(r == (all ? idx : -5), "optional::maybe_multi3:result", "got %d", r);
            CK(p.is(all, idx) && pd.is(!all, 0), "optional::maybe_multi3:calls", "transform %s default %s", p.show().c_str(), pd.show().c_str());
          }
          {
            probe p;
            auto const fn = [&p](D x, D y, D z)
            {
              bool const ok = x.ok() && y.ok() && z.ok();
              p.hit(ok ? x.v * 9 + y.v * 3 + z.v : -1, ok);
            };
            run3(
                [&](auto &&x, auto &&y, auto &&z)
                {
                  fcppt::optional::maybe_void_multi(fn, std::forward<decltype(x)>(x), std::forward<decltype(y)>(y), std::forward<decltype(z)>(z));
                  return 0;
                });
            CK(p.is(all, idx), "optional::maybe_void_multi:calls", "%s", p.show().c_str());
          }
        }
  // function-valued optionals: u <*> v := apply((f,x)->f(x), u, v)
  auto const ap = [](Fn f, D x) -> D { return D{(f.ok() && x.ok()) ? decode(f.v, 3, 3)[x.v] : POISON}; };
  auto const compose_idx = [](int f, int g) // table index of f . g
  {
    tab const tf = decode(f, 3, 3), tg = decode(g, 3, 3);
    return tf[tg[0]] + 3 * tf[tg[1]] + 9 * tf[tg[2]];
  };
  for (int u = 0; u < 28; ++u)
    for (int v = 0; v < 4; ++v)
    {
      if (!vrt::begin("optional::ap<u,v>", u, v))
        continue;
      auto desc = [&] { return "optional: (optional function " + show_opt(u) + ") <*> " + show_opt(v) + " via apply; interchange law"; };
      vrt::nontrivial(u != 0 && v != 0);
      SAMPLE();
      OD const r = fcppt::optional::apply(ap, mk_of(u), mk_od(v));
      int const want = (u && v) ? 1 + decode(u - 1, 3, 3)[v - 1] : 0;
      CK(code(r) == want, "optional::ap:result", "got %s want %s", show_opt(code(r)).c_str(), show_opt(want).c_str());
      if (v != 0)
      {
        // interchange: u <*> pure y == pure ($ y) <*> u
        int const y = v - 1;
        OD const lhs = fcppt::optional::apply(ap, mk_of(u), fcppt::optional::make(D{y}));
        OD const rhs = fcppt::optional::apply([&](Fn f) { return ap(std::move(f), D{y}); }, mk_of(u));
        CK(code(lhs) == code(rhs), "optional::law:applicative_interchange", "lhs %s rhs %s", show_opt(code(lhs)).c_str(), show_opt(code(rhs)).c_str());
      }
      if (u == 0)
      {
        OD const idr = fcppt::optional::apply([](D a) { return a; }, mk_od(v));
        CK(code(idr) == v, "optional::law:applicative_identity", "got %s", show_opt(code(idr)).c_str());
      }
    }
  for (int u = 0; u < 28; ++u)
    for (int v = 0; v < 28; ++v)
      for (int w = 0; w < 4; ++w)
      {
        if (!vrt::begin("optional::law_applicative_composition<u,v,w>", u, v, w))
          continue;
        auto desc = [&] { return "optional: pure(.) <*> " + show_opt(u) + " <*> " + show_opt(v) + " <*> " + show_opt(w) + " vs u <*> (v <*> w)"; };
        vrt::nontrivial(u && v && w);
        SAMPLE();
        OF const uv = fcppt::optional::apply([&](Fn f, Fn g) { return Fn{compose_idx(f.v, g.v)}; }, mk_of(u), mk_of(v));
        OD const lhs = fcppt::optional::apply(ap, uv, mk_od(w));
        OD const rhs = fcppt::optional::apply(ap, mk_of(u), fcppt::optional::apply(ap, mk_of(v), mk_od(w)));
        int const want = (u && v && w) ? 1 + decode(u - 1, 3, 3)[decode(v - 1, 3, 3)[w - 1]] : 0;
        CK(code(lhs) == code(rhs) && code(lhs) == want, "optional::law:applicative_composition", "lhs %s rhs %s want %s",
           show_opt(code(lhs)).c_str(), show_opt(code(rhs)).c_str(), show_opt(want).c_str());
      }
}

// ------------------------------------------------------------------ filter / alternative / comparison / pointers
void sh_misc()
{
  for (int cat = 0; cat < 3; ++cat)
    for (int m = 0; m < 4; ++m)
      for (int pr = 0; pr < 8; ++pr)
      {
        if (!vrt::begin("optional::filter<cat,m,pred>", cat, m, pr))
          continue;
        tab const t = decode(pr, 2, 3);
        auto desc = [&] { return std::string("optional::filter(") + show_opt(m) + " as " + cat_name(cat) + ", pred=" + show_tab(t, show_int) + ")"; };
        vrt::nontrivial(m != 0);
        SAMPLE();
        probe p;
        // the concept asks for invocability with the value type; by-value parameter as everywhere
        auto const pred = [&t, &p](D a) -> bool
        {
          p.hit(a.v, a.ok());
          return t[a.v] != 0;
        };
        OD o = mk_od(m);
        OD const r = call_cat(cat, o, [&](auto &&x) { return fcppt::optional::filter(std::forward<decltype(x)>(x), pred); });
        int const want = (m != 0 && t[m - 1]) ? m : 0;
        CK(code(r) == want, "optional::filter:result", "got %s want %s", show_opt(code(r)).c_str(), show_opt(want).c_str());
        CK(p.is(m != 0, m - 1), "optional::filter:calls", "%s", p.show().c_str());
        if (cat < 2)
          CK(code(o) == m, "optional::filter:source_modified", "lvalue source is now %s", show_opt(code(o)).c_str());
      }
  for (int cat = 0; cat < 3; ++cat)
    for (int a = 0; a < 4; ++a)
      for (int b = 0; b < 4; ++b)
      {
        if (!vrt::begin("optional::alternative<cat,a,b>", cat, a, b))
          continue;
        auto desc = [&] { return std::string("optional::alternative(") + show_opt(a) + " as " + cat_name(cat) + ", ()->" + show_opt(b) + ")"; };
        vrt::nontrivial(a != 0);
        SAMPLE();
        probe p;
        auto const second = fn0<OD>(b, p, mk_od);
        OD o = mk_od(a);
        OD const r = call_cat(cat, o, [&](auto &&x) { return fcppt::optional::alternative(std::forward<decltype(x)>(x), second); });
        int const want = a != 0 ? a : b;
        CK(code(r) == want, "optional::alternative:result", "got %s want %s", show_opt(code(r)).c_str(), show_opt(want).c_str());
        // "otherwise the result of _optional2 is returned": one evaluation when the first is nothing; laziness when the first
        // is set is not promised by the documentation -> information only
        if (a == 0)
          CK(p.is(1, b), "optional::alternative:calls", "%s", p.show().c_str());
        else
          INFO_ONLY(p.calls == 0, "optional::alternative:second_called_although_first_set");
        if (cat < 2)
          CK(code(o) == a, "optional::alternative:source_modified", "lvalue source is now %s", show_opt(code(o)).c_str());
      }
  for (int a = 0; a < 4; ++a)
    for (int b = 0; b < 4; ++b)
    {
      if (!vrt::begin("optional::comparison<a,b>", a, b))
        continue;
      auto desc = [&] { return "optional comparison of " + show_opt(a) + " and " + show_opt(b); };
      vrt::nontrivial(a != 0 && b != 0);
      SAMPLE();
      OD const x = mk_od(a), y = mk_od(b);
      bool const eq = a == b;
      // documented: empty < non-empty, otherwise by value
      bool const lt = (a != 0 && b != 0) ? (a < b) : ((a != 0) < (b != 0));
      CK((x == y) == eq, "optional::comparison:eq", "== gave %d", int(x == y));
      CK((x != y) == !eq, "optional::comparison:ne", "!= gave %d", int(x != y));
      CK((x < y) == lt, "optional::comparison:lt", "< gave %d", int(x < y));
    }
  for (int m = 0; m < 4; ++m)
  {
    if (!vrt::begin("optional::pointers<m>", m))
      continue;
    auto desc = [&] { return "optional::from_pointer / to_pointer / copy_value with " + show_opt(m); };
    vrt::nontrivial(m != 0);
    D store{m == 0 ? 0 : m - 1};
    D *const ptr = m == 0 ? nullptr : &store;
    fcppt::optional::reference<D> const r = fcppt::optional::from_pointer(ptr);
    CK(r.has_value() == (m != 0), "optional::from_pointer:has_value", "wrong");
    if (m != 0 && r.has_value())
      CK(&r.get_unsafe().get() == &store, "optional::from_pointer:address", "refers to another object");
    CK(fcppt::optional::to_pointer(r) == ptr, "optional::to_pointer", "round trip changed the pointer");
    OD const cp = fcppt::optional::copy_value(r);
    CK(code(cp) == m && (m == 0 || store.v == m - 1), "optional::copy_value", "got %s", show_opt(code(cp)).c_str());
  }
}

// ------------------------------------------------------------------ cat / sequence over all containers up to length L
void sh_containers()
{
  auto const seqs = all_seqs(4, max_len());
  for (int cat = 0; cat < 3; ++cat)
    for (std::size_t si = 0; si < seqs.size(); ++si)
    {
      std::vector<int> const &s = seqs[si];
      std::vector<int> present;
      bool all = true;
      for (int c : s)
      {
        if (c)
          present.push_back(c - 1);
        else
          all = false;
      }
      if (vrt::begin("optional::cat<cat,seq>", cat, si))
      {
        auto desc = [&] { return std::string("optional::cat(") + show_seq(s, show_opt) + " as " + cat_name(cat) + ")"; };
        vrt::nontrivial(!present.empty() && !all);
        SAMPLE();
        std::vector<OD> src = mk_vec(s);
        std::vector<D> const r = call_cat(cat, src, [&](auto &&x) { return fcppt::optional::cat<std::vector<D>>(std::forward<decltype(x)>(x)); });
        CK(vals(r) == present, "optional::cat:result", "got %s want %s", show_seq(vals(r), show_int).c_str(), show_seq(present, show_int).c_str());
        if (cat < 2)
          CK(codes(src) == s, "optional::cat:source_modified", "lvalue source is now %s", show_seq(codes(src), show_opt).c_str());
      }
      if (vrt::begin("optional::sequence<cat,seq>", cat, si))
      {
        auto desc = [&] { return std::string("optional::sequence(") + show_seq(s, show_opt) + " as " + cat_name(cat) + ")"; };
        vrt::nontrivial(!s.empty());
        SAMPLE();
        std::vector<OD> src = mk_vec(s);
        fcppt::optional::object<std::vector<D>> const r =
            call_cat(cat, src, [&](auto &&x) { return fcppt::optional::sequence<std::vector<D>>(std::forward<decltype(x)>(x)); });
        CK(r.has_value() == all, "optional::sequence:has_value", "has_value=%d want %d", int(r.has_value()), int(all));
        if (all && r.has_value())
          CK(vals(r.get_unsafe()) == present, "optional::sequence:values", "got %s want %s", show_seq(vals(r.get_unsafe()), show_int).c_str(),
             show_seq(present, show_int).c_str());
        if (cat < 2)
          CK(codes(src) == s, "optional::sequence:source_modified", "lvalue source is now %s", show_seq(codes(src), show_opt).c_str());
      }
    }
}

} // namespace

void c04_optional_shards()
{
  vrt::shard("optional/object", [] { sh_object(); });
  vrt::shard("optional/maybe_from", [] { sh_maybe(); });
  vrt::shard("optional/map", [] { sh_map(); });
  vrt::shard("optional/bind_join", [] { sh_bind(); });
  for (int p = 0; p < 2; ++p)
    vrt::shard("optional/associativity/" + std::to_string(p), [p] { sh_assoc(p, 2); });
  vrt::shard("optional/monad_do", [] { sh_do(); });
  for (int p = 0; p < 6; ++p)
    vrt::shard("optional/binary_tables/" + std::to_string(p), [p] { sh_binary(p, 6); });
  vrt::shard("optional/applicative", [] { sh_applicative(); });
  vrt::shard("optional/misc", [] { sh_misc(); });
  vrt::shard("optional/containers", [] { sh_containers(); });
}

int main(int argc, char **argv)
{
  c04_optional_shards();
  c04_either_shards();
  c04_variant_shards();
  c04_poly_shards();
  c04_refs_shards();
  c04_rich_val_shards();
  c04_rich_heap_shards();
  c04_rich_move_only_shards();
  return vrt::run(argc, argv);
}

// C14_scalar.cpp -- exact user-defined scalars (C14_scalar.hpp): every operator that
// multiplies or adds scalars inside a vector, dim or matrix, against plain arrays on which the
// same scalar operators are applied in the documented operand order:
//   s * v  -> s * v[i]      (left-scalar overload)        v * s  -> v[i] * s   (right-scalar overload)
//   v *= s -> v[i] *= s     v * w -> v[i] * w[i]          dot    -> 0 + l[0]*r[0] + l[1]*r[1] ... (left fold)
//   A * B  -> c[i][j] = 0 + a[i][0]*b[0][j] + a[i][1]*b[1][j] ...      A * x -> 0 + a[i][0]*x[0] + ...
//   cross  -> (ly*rz - lz*ry, lz*rx - lx*rz, lx*ry - ly*rx)
// quat (integer quaternions): exhaustive over small domains, exact values.
// term (symbolic): one evaluation per operator and shape with symbolic operands; the result
// strings encode every application, so operand order, accumulation order, the number of
// scalar operator invocations and reads of moved-from scalars are all observable.  The
// Only the elementary products (which two scalars, on which side) are judged for term; the
// accumulation order, the number of operator invocations, reads of moved-from scalars that do
// not reach the result and other value-preserving differences of the expression shape are
// recorded as info:* counters.
#include "C14_common.hpp"
#include "C14_scalar.hpp"

#include <fcppt/math/dim/arithmetic.hpp>
#include <fcppt/math/dim/comparison.hpp>
#include <fcppt/math/matrix/arithmetic.hpp>
#include <fcppt/math/matrix/comparison.hpp>
#include <fcppt/math/matrix/identity.hpp>
#include <fcppt/math/matrix/row.hpp>
#include <fcppt/math/matrix/static.hpp>
#include <fcppt/math/dim/static.hpp>
#include <fcppt/math/vector/fill.hpp>
#include <fcppt/math/vector/push_back.hpp>
#include <fcppt/math/vector/static.hpp>
#include <fcppt/math/matrix/transpose.hpp>
#include <fcppt/math/matrix/vector.hpp>
#include <fcppt/math/vector/arithmetic.hpp>
#include <fcppt/math/vector/comparison.hpp>
#include <fcppt/math/vector/cross.hpp>
#include <fcppt/math/vector/dim.hpp>
#include <fcppt/math/vector/dot.hpp>
#include <fcppt/math/vector/length_square.hpp>
#include <fcppt/literal.hpp>

#include <algorithm>
#include <array>
#include <functional>

namespace c14
{
namespace
{
namespace fm = fcppt::math::matrix;
namespace fv = fcppt::math::vector;
namespace fd = fcppt::math::dim;

template <class T> struct sc;
template <> struct sc<quat>
{
  static constexpr char const *name = "quat";
  static constexpr bool symbolic = false;
};
template <> struct sc<term>
{
  static constexpr char const *name = "term";
  static constexpr bool symbolic = true;
};

template <class T, sz N> using arr = std::array<T, N>;
template <class T> std::string show_vec(std::vector<T> const &v)
{
  std::string s = "{";
  for (std::size_t i = 0; i < v.size(); ++i)
    s += (i ? ", " : "") + show(v[i]);
  return s + "}";
}
template <class T, std::size_t N> std::string show_arr(std::array<T, N> const &a) { return show_vec(std::vector<T>(a.begin(), a.end())); }

template <class V, class T, std::size_t N> V mk(std::array<T, N> const &a)
{
  V v{fcppt::no_init{}};
  for (sz i = 0; i < N; ++i)
    v.storage()[i] = a[i];
  return v;
}
template <class T, sz N> struct heap
{
  std::unique_ptr<T[]> p;
  explicit heap(arr<T, N> const &a) : p(new T[N])
  {
    for (sz i = 0; i < N; ++i)
      p[i] = a[i];
  }
  fv::object<T, N, view_storage<T, N>> vec() const { return fv::object<T, N, view_storage<T, N>>{view_storage<T, N>(p.get())}; }
  fd::object<T, N, view_storage<T, N>> dim() const { return fd::object<T, N, view_storage<T, N>>{view_storage<T, N>(p.get())}; }
  template <sz R, sz C> fm::object<T, R, C, view_storage<T, N>> mat() const { return fm::object<T, R, C, view_storage<T, N>>{view_storage<T, N>(p.get())}; }
  std::vector<T> read() const { return std::vector<T>(p.get(), p.get() + N); }
};
template <class O> auto elems(O const &o)
{
  using T = typename O::value_type;
  constexpr sz n = fcppt::math::detail::storage_size<typename O::storage_type>::value;
  std::vector<T> r;
  for (sz i = 0; i < n; ++i)
    r.push_back(o.storage()[i]);
  return r;
}

// the leaf products "(x*y)" of a term, sorted: equal multisets with different strings = only the sum order differs
std::vector<std::string> leaf_products(std::string const &s)
{
  std::vector<std::string> out;
  for (std::size_t i = 0; i < s.size(); ++i)
    if (s[i] == '(')
    {
      std::size_t j = i + 1;
      while (j < s.size() && s[j] != '(' && s[j] != ')')
        ++j;
      if (j < s.size() && s[j] == ')' && s.find('*', i) < j)
        out.push_back(s.substr(i, j - i + 1));
    }
  std::sort(out.begin(), out.end());
  return out;
}

// compound operators normalised: "(a*=b)" -> "(a*b)", "+=" -> "+", "-=" -> "-"
std::string canon(std::string const &s)
{
  std::string r;
  for (std::size_t i = 0; i < s.size(); ++i)
    if (!(s[i] == '=' && i > 0 && (s[i - 1] == '*' || s[i - 1] == '+' || s[i - 1] == '-')))
      r += s[i];
  return r;
}

// run the fcppt expression and the plain-array oracle, compare values (and, for term, the
// operator invocation counts and the moved-from reads)
template <class T> void run_case(std::string const &sig, char const *what, std::function<std::vector<T>()> const &fc, std::function<std::vector<T>()> const &oracle)
{
  g_term = term_counters{};
  std::vector<T> const got = fc();
  term_counters const cf = g_term;
  g_term = term_counters{};
  std::vector<T> const want = oracle();
  term_counters const co = g_term;
  g_term = term_counters{};
  if (!(got == want))
  {
    if constexpr (!sc<T>::symbolic)
      failv(sig + ":wrong", std::string(what) + ": got " + show_vec(got) + " want " + show_vec(want));
    else
    {
      // A symbolic result may legitimately differ from the plain-array loop in everything that does not change the
      // value over an exact ring: the order in which the products of a component are summed, whether the sum starts
      // from a literal 0, a - b written as a + (-b), a compound a *= b written as a = a * b.  What the documentation
      // does fix is which two scalars are multiplied and on which side ("Multiplies a vector by a scalar on the left":
      // s * v[i]; "on the right": v[i] * s; row times column: a[i][k] * b[k][j]).  So only the multiset of elementary
      // products (compound forms normalised) is judged, and only for operations whose plain-array form contains a product.
      bool oracle_has_product = false, same_products = got.size() == want.size();
      for (std::size_t i = 0; i < want.size(); ++i)
        oracle_has_product = oracle_has_product || !leaf_products(canon(want[i].s)).empty();
      for (std::size_t i = 0; same_products && i < got.size(); ++i)
        same_products = leaf_products(canon(got[i].s)) == leaf_products(canon(want[i].s));
      if (oracle_has_product && !same_products)
        failv(sig + ":operand_order", std::string(what) + ": got " + show_vec(got) + " want " + show_vec(want));
      else
        vrt::count("info:" + sig + ":expression_shape"); // recorded, never a verdict
    }
  }
  if constexpr (sc<T>::symbolic)
  {
    // reads of a moved-from scalar that do not reach the result (they would show up in the strings above) and the
    // number of scalar operations an implementation spends are implementation details: recorded, not judged
    if (cf.moved_reads != 0)
      vrt::count("info:" + sig + ":moved_from_read");
    term_counters a = cf, b = co;
    a.moved_reads = b.moved_reads = 0;
    if (!(a == b))
      vrt::count("info:" + sig + ":invocations");
  }
}

template <class T> T zero() { return fcppt::literal<T>(0); }

// ------------------------------------------------------------------ vectors and dims
// K = true: vector, false: dim
template <bool IsVector, class T, sz N> void vd_ops(std::string const &text, T const &s, arr<T, N> const &u, arr<T, N> const &w)
{
  using S = std::conditional_t<IsVector, fv::static_<T, N>, fd::static_<T, N>>;
  static std::string const kind = IsVector ? "vector" : "dim";
  static std::string const fn = std::string("scalar<") + sc<T>::name + ">:" + kind + "<" + std::to_string(N) + ">";
  static std::string const sg = std::string("scalar<") + sc<T>::name + ">:" + kind;
  if (!vrt::begin_text(fn.c_str(), fn + " " + text))
    return;
  vrt::nontrivial(true);
  vrt::maybe_sample();
  S const su = mk<S>(u), sw = mk<S>(w);
  heap<T, N> const hu(u), hw(w);
  auto const vu = [&] { if constexpr (IsVector) return hu.vec(); else return hu.dim(); }();
  auto const vw = [&] { if constexpr (IsVector) return hw.vec(); else return hw.dim(); }();
  auto each = [&](auto f) {
    std::vector<T> r;
    for (sz i = 0; i < N; ++i)
      r.push_back(f(i));
    return r;
  };
  run_case<T>(sg + ":scalar_left", "s*v", [&] { return elems(s * su); }, [&] { return each([&](sz i) { return s * u[i]; }); });
  run_case<T>(sg + ":scalar_left:view", "s*v (view storage)", [&] { return elems(s * vu); }, [&] { return each([&](sz i) { return s * u[i]; }); });
  run_case<T>(sg + ":scalar_right", "v*s", [&] { return elems(su * s); }, [&] { return each([&](sz i) { return u[i] * s; }); });
  run_case<T>(sg + ":scalar_right:view", "v*s (view storage)", [&] { return elems(vu * s); }, [&] { return each([&](sz i) { return u[i] * s; }); });
  run_case<T>(
      sg + ":scalar_assign", "v*=s",
      [&] {
        S m = su;
        m *= s;
        return elems(m);
      },
      [&] {
        arr<T, N> m = u;
        for (sz i = 0; i < N; ++i)
          m[i] *= s;
        return std::vector<T>(m.begin(), m.end());
      });
  run_case<T>(
      sg + ":scalar_assign:view", "v*=s (view storage)",
      [&] {
        heap<T, N> h(u);
        auto m = [&] { if constexpr (IsVector) return h.vec(); else return h.dim(); }();
        m *= s;
        return h.read();
      },
      [&] {
        arr<T, N> m = u;
        for (sz i = 0; i < N; ++i)
          m[i] *= s;
        return std::vector<T>(m.begin(), m.end());
      });
  run_case<T>(sg + ":mul", "v*w", [&] { return elems(su * sw); }, [&] { return each([&](sz i) { return u[i] * w[i]; }); });
  run_case<T>(sg + ":mul:view", "v*w (view storages)", [&] { return elems(vu * vw); }, [&] { return each([&](sz i) { return u[i] * w[i]; }); });
  run_case<T>(sg + ":add", "v+w", [&] { return elems(su + vw); }, [&] { return each([&](sz i) { return u[i] + w[i]; }); });
  run_case<T>(sg + ":sub", "v-w", [&] { return elems(vu - sw); }, [&] { return each([&](sz i) { return u[i] - w[i]; }); });
  run_case<T>(sg + ":negate", "-v", [&] { return elems(-su); }, [&] { return each([&](sz i) { return -u[i]; }); });
  run_case<T>(
      sg + ":compound", "v*=w; v+=w; v-=w",
      [&] {
        S m = su;
        m *= sw;
        m += vw;
        m -= sw;
        return elems(m);
      },
      [&] {
        arr<T, N> m = u;
        for (sz i = 0; i < N; ++i)
          m[i] *= w[i];
        for (sz i = 0; i < N; ++i)
          m[i] += w[i];
        for (sz i = 0; i < N; ++i)
          m[i] -= w[i];
        return std::vector<T>(m.begin(), m.end());
      });
  if constexpr (IsVector)
  {
    auto dot_ref = [&](arr<T, N> const &l, arr<T, N> const &r) {
      T sum = zero<T>();
      for (sz i = 0; i < N; ++i)
        sum = sum + l[i] * r[i];
      return std::vector<T>{sum};
    };
    run_case<T>(sg + ":dot", "dot(v,w)", [&] { return std::vector<T>{fv::dot(su, sw)}; }, [&] { return dot_ref(u, w); });
    run_case<T>(sg + ":dot:view", "dot(v,w) (view storages)", [&] { return std::vector<T>{fv::dot(vu, vw)}; }, [&] { return dot_ref(u, w); });
    run_case<T>(sg + ":length_square", "length_square(v)", [&] { return std::vector<T>{fv::length_square(su)}; }, [&] { return dot_ref(u, u); });
    if constexpr (N == 3)
      run_case<T>(sg + ":cross", "cross(v,w)", [&] { return elems(fv::cross(su, vw)); },
                  [&] { return std::vector<T>{u[1] * w[2] - u[2] * w[1], u[2] * w[0] - u[0] * w[2], u[0] * w[1] - u[1] * w[0]}; });
    // vector (op) dim
    fd::static_<T, N> const dw = mk<fd::static_<T, N>>(w);
    run_case<T>(sg + ":vector_dim:mul", "v*d", [&] { return elems(su * dw); }, [&] { return each([&](sz i) { return u[i] * w[i]; }); });
    run_case<T>(sg + ":vector_dim:add_sub", "(v+d)-d", [&] { return elems((vu + dw) - dw); }, [&] { return each([&](sz i) { return (u[i] + w[i]) - w[i]; }); });
  }
  if constexpr (!sc<T>::symbolic)
  {
    // module laws of the exact (associative, non-commutative) ring: (s*t)*v = s*(t*v), (v*s)*t = v*(s*t)
    T const t = w[0];
    C14_TRUE((s * t) * su == s * (t * su), sg + ":law:left_module", "(s*t)*v != s*(t*v) for s=" + show(s) + " t=" + show(t) + " v=" + show_arr(u));
    C14_TRUE((su * s) * t == su * (s * t), sg + ":law:right_module", "(v*s)*t != v*(s*t) for s=" + show(s) + " t=" + show(t) + " v=" + show_arr(u));
    C14_TRUE(s * (su + sw) == s * su + s * sw, sg + ":law:distributive", "s*(v+w) != s*v+s*w");
  }
}

// ------------------------------------------------------------------ matrices
template <class T, sz R, sz K, sz C>
void matrix_ops(std::string const &text, T const &s, arr<T, R * K> const &a, arr<T, R * K> const &a2, arr<T, K * C> const &b, arr<T, C> const &x)
{
  using MA = fm::static_<T, R, K>;
  using MB = fm::static_<T, K, C>;
  static std::string const fn = std::string("scalar<") + sc<T>::name + ">:matrix<" + shape(R, K) + "." + shape(K, C) + ">";
  static std::string const sg = std::string("scalar<") + sc<T>::name + ">:matrix";
  static_assert(tall_left_ok(R, K), "tall-left products belong to the binary C14b");
  if (!vrt::begin_text(fn.c_str(), fn + " " + text))
    return;
  vrt::nontrivial(true);
  vrt::maybe_sample();
  MA const sa = mk<MA>(a), sa2 = mk<MA>(a2);
  MB const sb = mk<MB>(b);
  heap<T, R * K> const ha(a);
  heap<T, K * C> const hb(b);
  auto const va = ha.template mat<R, K>();
  auto const vb = hb.template mat<K, C>();
  fv::static_<T, C> const sx = mk<fv::static_<T, C>>(x);
  heap<T, C> const hx(x);
  auto each_a = [&](auto f) {
    std::vector<T> r;
    for (sz i = 0; i < R * K; ++i)
      r.push_back(f(i));
    return r;
  };
  auto product_ref = [&] {
    std::vector<T> r;
    for (sz i = 0; i < R; ++i)
      for (sz j = 0; j < C; ++j)
      {
        T sum = zero<T>();
        for (sz k = 0; k < K; ++k)
          sum = sum + a[i * K + k] * b[k * C + j];
        r.push_back(sum);
      }
    return r;
  };
  run_case<T>(sg + ":scalar_left", "s*A", [&] { return elems(s * sa); }, [&] { return each_a([&](sz i) { return s * a[i]; }); });
  run_case<T>(sg + ":scalar_left:view", "s*A (view storage)", [&] { return elems(s * va); }, [&] { return each_a([&](sz i) { return s * a[i]; }); });
  run_case<T>(sg + ":scalar_right", "A*s", [&] { return elems(sa * s); }, [&] { return each_a([&](sz i) { return a[i] * s; }); });
  run_case<T>(sg + ":scalar_right:view", "A*s (view storage)", [&] { return elems(va * s); }, [&] { return each_a([&](sz i) { return a[i] * s; }); });
  run_case<T>(
      sg + ":scalar_assign", "A*=s",
      [&] {
        MA m = sa;
        m *= s;
        return elems(m);
      },
      [&] {
        arr<T, R * K> m = a;
        for (sz i = 0; i < R * K; ++i)
          m[i] *= s;
        return std::vector<T>(m.begin(), m.end());
      });
  run_case<T>(sg + ":add", "A+A2", [&] { return elems(sa + sa2); }, [&] { return each_a([&](sz i) { return a[i] + a2[i]; }); });
  run_case<T>(sg + ":sub", "A-A2", [&] { return elems(va - sa2); }, [&] { return each_a([&](sz i) { return a[i] - a2[i]; }); });
  run_case<T>(
      sg + ":compound", "A+=A2; A-=A2",
      [&] {
        MA m = sa;
        m += sa2;
        m -= sa2;
        return elems(m);
      },
      [&] {
        arr<T, R * K> m = a;
        for (sz i = 0; i < R * K; ++i)
          m[i] += a2[i];
        for (sz i = 0; i < R * K; ++i)
          m[i] -= a2[i];
        return std::vector<T>(m.begin(), m.end());
      });
  run_case<T>(sg + ":product", "A*B", [&] { return elems(sa * sb); }, product_ref);
  run_case<T>(sg + ":product:view", "A*B (view storages)", [&] { return elems(va * vb); }, product_ref);
  auto matvec_ref = [&] {
    std::vector<T> r;
    for (sz i = 0; i < K; ++i)
    {
      T sum = zero<T>();
      for (sz k = 0; k < C; ++k)
        sum = sum + b[i * C + k] * x[k];
      r.push_back(sum);
    }
    return r;
  };
  run_case<T>(sg + ":matrix_vector", "B*x", [&] { return elems(sb * sx); }, matvec_ref);
  run_case<T>(sg + ":matrix_vector:view", "B*x (view storages)", [&] { return elems(vb * hx.vec()); }, matvec_ref);
  run_case<T>(sg + ":transpose", "transpose(A)", [&] { return elems(fm::transpose(sa)); },
              [&] {
                std::vector<T> r;
                for (sz j = 0; j < K; ++j)
                  for (sz i = 0; i < R; ++i)
                    r.push_back(a[i * K + j]);
                return r;
              });
  if constexpr (!sc<T>::symbolic)
  {
    // exact associative ring: (A*B)*x = A*(B*x), (s*A)*B = s*(A*B), A*(B*s) = (A*B)*s
    C14_TRUE((sa * sb) * sx == sa * (sb * sx), sg + ":law:product_then_vector", "(A*B)*x != A*(B*x)");
    C14_TRUE((s * sa) * sb == s * (sa * sb), sg + ":law:left_module", "(s*A)*B != s*(A*B)");
    C14_TRUE(sa * (sb * s) == (sa * sb) * s, sg + ":law:right_module", "A*(B*s) != (A*B)*s");
    if constexpr (R == K)
    {
      C14_TRUE(fm::identity<MA>() * sa == sa && sa * fm::identity<MA>() == sa, sg + ":law:identity", "I*A or A*I != A");
    }
  }
  else if constexpr (R == K)
  {
    // identity consists of literal 1 and literal 0
    std::vector<T> want;
    for (sz i = 0; i < R; ++i)
      for (sz j = 0; j < R; ++j)
        want.push_back(fcppt::literal<T>(i == j ? 1 : 0));
    run_case<T>(sg + ":identity", "identity", [&] { return elems(fm::identity<MA>()); }, [&] { return want; });
  }
}

// ------------------------------------------------------------------ symbolic operands
template <sz N> arr<term, N> sym(std::string const &p)
{
  arr<term, N> a;
  for (sz i = 0; i < N; ++i)
    a[i] = term(p + std::to_string(i));
  return a;
}
template <sz R, sz K, sz C> void symbolic_matrix()
{
  matrix_ops<term, R, K, C>("symbolic", term("s"), sym<R * K>("a"), sym<R * K>("c"), sym<K * C>("b"), sym<C>("x"));
}

quat const q0{0, 0, 0, 0}, q1{1, 0, 0, 0}, qi{0, 1, 0, 0}, qj{0, 0, 1, 0}, qk{0, 0, 0, 1}, q1k{1, 0, 0, 1}, qmix{2, 1, -1, 0};

template <sz N> std::vector<arr<quat, N>> quat_tuples(std::vector<quat> const &vals)
{
  std::vector<arr<quat, N>> out;
  std::array<std::size_t, N> idx{};
  for (;;)
  {
    arr<quat, N> a;
    for (sz i = 0; i < N; ++i)
      a[i] = vals[idx[i]];
    out.push_back(a);
    sz k = 0;
    while (k < N && ++idx[k] == vals.size())
      idx[k++] = 0;
    if (k == N)
      break;
  }
  return out;
}
template <bool IsVector, sz N> void quat_vd(std::vector<quat> const &vals, std::vector<quat> const &scalars)
{
  auto const fam = quat_tuples<N>(vals);
  for (auto const &s : scalars)
    for (auto const &u : fam)
    {
      if (vrt::out_of_time())
        return;
      for (auto const &w : fam)
        vd_ops<IsVector, quat, N>("s=" + show(s) + " u=" + show_arr(u) + " w=" + show_arr(w), s, u, w);
    }
}
template <sz R, sz K, sz C> void quat_matrix(std::vector<quat> const &avals, std::vector<quat> const &bvals, std::vector<quat> const &scalars)
{
  auto const fa = quat_tuples<R * K>(avals);
  auto const fb = quat_tuples<K * C>(bvals);
  std::size_t n = 0;
  for (auto const &a : fa)
  {
    if (vrt::out_of_time())
      return;
    for (auto const &b : fb)
    {
      quat const &s = scalars[n % scalars.size()];
      auto const &a2 = fa[(n * 7 + 3) % fa.size()];
      arr<quat, C> x;
      for (sz i = 0; i < C; ++i)
        x[i] = a[(i + n) % (R * K)] + scalars[(n + i) % scalars.size()];
      ++n;
      matrix_ops<quat, R, K, C>("s=" + show(s) + " A=" + show_arr(a) + " A2=" + show_arr(a2) + " B=" + show_arr(b) + " x=" + show_arr(x), s, a, a2, b, x);
    }
  }
}
}

// ------------------------------------------------------------------ builders called with lvalue scalars
// row(a, b), matrix(row(a, b), row(b, a)), vector(a, b), dim(a, b), fill(a), push_back(v, a) with NAMED scalars of a
// type with real move semantics: the results hold the same values as the plain arrays {a, b, ...}, and the named
// scalars still hold their values afterwards (a builder that moves out of an lvalue argument leaves "<moved-from>"
// behind, and the second use of the same scalar then reads it)
void builders_with_lvalues()
{
  namespace fm = fcppt::math::matrix;
  namespace fv = fcppt::math::vector;
  namespace fd = fcppt::math::dim;
  auto unchanged = [](std::string const &sig, term const &a, term const &b) {
    VRT_CHECK(!a.moved && !b.moved && a.s == "a" && b.s == "b", sig + ":lvalue_scalar_changed", "after the call: a=%s b=%s", show(a).c_str(), show(b).c_str());
  };
  if (vrt::begin_text("builders_lvalue<term>", "matrix::row / matrix(row, row) with lvalue scalars"))
  {
    vrt::nontrivial(true);
    g_term = term_counters{};
    term a("a"), b("b");
    fm::row_type<term, 2> const r0 = fm::row(a, b);
    unchanged("matrix::row", a, b);
    VRT_CHECK(r0.get_unsafe(0).s == "a" && r0.get_unsafe(1).s == "b", "matrix::row:lvalues:wrong", "row(a,b) = (%s,%s)", show(r0.get_unsafe(0)).c_str(), show(r0.get_unsafe(1)).c_str());
    fm::static_<term, 2, 2> const m(fm::row(a, b), fm::row(b, a));
    unchanged("matrix(row,row)", a, b);
    VRT_CHECK(m.m00().s == "a" && m.m01().s == "b" && m.m10().s == "b" && m.m11().s == "a", "matrix(row,row):lvalues:wrong", "[[%s,%s],[%s,%s]]",
              show(m.m00()).c_str(), show(m.m01()).c_str(), show(m.m10()).c_str(), show(m.m11()).c_str());
    fm::row_type<term, 3> const r3 = fm::row(a, a, a);
    unchanged("matrix::row/same_scalar", a, b);
    VRT_CHECK(r3.get_unsafe(0).s == "a" && r3.get_unsafe(1).s == "a" && r3.get_unsafe(2).s == "a", "matrix::row:same_scalar:wrong", "row(a,a,a) = (%s,%s,%s)",
              show(r3.get_unsafe(0)).c_str(), show(r3.get_unsafe(1)).c_str(), show(r3.get_unsafe(2)).c_str());
    VRT_CHECK(g_term.moved_reads == 0, "matrix::row:lvalues:moved_from_read", "%lu reads of moved-from scalars", g_term.moved_reads);
  }
  if (vrt::begin_text("builders_lvalue<term>", "vector / dim constructors, fill, push_back with lvalue scalars"))
  {
    vrt::nontrivial(true);
    g_term = term_counters{};
    term a("a"), b("b");
    fv::static_<term, 2> const v(a, b);
    unchanged("vector(a,b)", a, b);
    VRT_CHECK(v.x().s == "a" && v.y().s == "b", "vector(a,b):lvalues:wrong", "(%s,%s)", show(v.x()).c_str(), show(v.y()).c_str());
    fv::static_<term, 3> const v3(a, b, a);
    unchanged("vector(a,b,a)", a, b);
    VRT_CHECK(v3.x().s == "a" && v3.y().s == "b" && v3.z().s == "a", "vector(a,b,a):lvalues:wrong", "(%s,%s,%s)", show(v3.x()).c_str(), show(v3.y()).c_str(), show(v3.z()).c_str());
    fd::static_<term, 2> const d(a, b);
    unchanged("dim(a,b)", a, b);
    VRT_CHECK(d.w().s == "a" && d.h().s == "b", "dim(a,b):lvalues:wrong", "(%s,%s)", show(d.w()).c_str(), show(d.h()).c_str());
    auto const f = fv::fill<fv::static_<term, 3>>(a);
    unchanged("vector::fill", a, b);
    VRT_CHECK(f.x().s == "a" && f.y().s == "a" && f.z().s == "a", "vector::fill:lvalues:wrong", "(%s,%s,%s)", show(f.x()).c_str(), show(f.y()).c_str(), show(f.z()).c_str());
    auto const pb = fv::push_back(v, b);
    unchanged("vector::push_back", a, b);
    VRT_CHECK(pb.x().s == "a" && pb.y().s == "b" && pb.z().s == "b" && v.x().s == "a" && v.y().s == "b", "vector::push_back:lvalues:wrong", "(%s,%s,%s)",
              show(pb.x()).c_str(), show(pb.y()).c_str(), show(pb.z()).c_str());
    VRT_CHECK(g_term.moved_reads == 0, "vector_builders:lvalues:moved_from_read", "%lu reads of moved-from scalars", g_term.moved_reads);
  }
}

void register_scalar()
{
  vrt::shard("scalar/term", [] {
    vd_ops<true, term, 2>("symbolic", term("s"), sym<2>("u"), sym<2>("w"));
    vd_ops<true, term, 3>("symbolic", term("s"), sym<3>("u"), sym<3>("w"));
    vd_ops<true, term, 4>("symbolic", term("s"), sym<4>("u"), sym<4>("w"));
    vd_ops<false, term, 2>("symbolic", term("s"), sym<2>("u"), sym<2>("w"));
    symbolic_matrix<2, 2, 2>();
    symbolic_matrix<2, 3, 4>();
    symbolic_matrix<3, 3, 3>();
  });
  vrt::shard("scalar/term_builders_lvalues", [] { builders_with_lvalues(); });
  vrt::shard("scalar/quat/vector", [] {
    std::vector<quat> const scal{qi, qj, q1k, qmix, q0};
    quat_vd<true, 2>({q0, qi, qj, q1k}, scal);
    quat_vd<true, 3>(vrt::thorough() ? std::vector<quat>{qi, qj, q1k} : std::vector<quat>{qi, qj}, scal);
  });
  vrt::shard("scalar/quat/dim", [] { quat_vd<false, 2>({q0, qi, qj, q1k}, {qi, qj, q1k, qmix, q0}); });
  vrt::shard("scalar/quat/matrix", [] {
    std::vector<quat> const scal{qi, qj, q1k, qmix};
    quat_matrix<2, 2, 2>(vrt::thorough() ? std::vector<quat>{q0, qi, qj, q1k} : std::vector<quat>{qi, qj, q1k}, {qi, qj, qk}, scal);
    quat_matrix<2, 3, 2>({qi, qj}, {qj, qk}, scal);
  });
}
}

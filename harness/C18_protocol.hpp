// C18 -- the *iterator protocol* around the enumerated sequences (equality laws, multi-pass, reference
// stability, random access arithmetic, assignment), checked for one small range [b, e) whose element
// sequence `model` is already known from an independent reference.
//
// Only what the declared iterator category promises is asserted, plus -- for iterators whose header
// declares operator* to return a *value* (int_iterator: Int, enum_::iterator: Enum, spiral_iterator: Pos) --
// that an element obtained with *it is an independent value (opts::value_reference).
#pragma once
#include <vrt.hpp>

#include <algorithm>
#include <cstddef>
#include <iterator>
#include <memory>
#include <string>
#include <type_traits>
#include <utility>
#include <vector>

namespace c18p
{
struct opts
{
  // the header declares the iterator's reference type to be a value type: `auto &&x = *it` is an element of its own
  bool value_reference = false;
  // random access only: it_j - it_i == j - i and <,<=,>,>= follow the positions (false for a cyclic walk that wraps:
  // cyclic_iterator documents its distance as the distance of the underlying iterators)
  bool strict_distance = true;
};

template <class Cat, class Want> inline constexpr bool at_least = std::is_base_of_v<Want, Cat>;

// Key: totally ordered, equality comparable value that identifies an element (integer or pair of integers).
//
// The range is given by two factories that return a *fresh* begin / end iterator on every call (r.begin(), r.end()).
// For iterators of the input category no iterator is used after a copy of it has been incremented (copies of an
// advanced input iterator need not stay valid): every position is reached by its own walk from a fresh begin().
// Multi-pass use of saved copies is confined to the blocks guarded by `fwd`.
template <class MakeBegin, class MakeEnd, class Key, class KeyOf>
void check_fresh(std::string const &name, MakeBegin mkb, MakeEnd mke, std::vector<Key> const &model, KeyOf keyof, opts const o)
{
  using It = std::remove_cv_t<std::remove_reference_t<decltype(mkb())>>;
  It const b(mkb()), e(mke()); // never incremented, only compared (and handed to std algorithms in the fwd blocks)
  using traits = std::iterator_traits<It>;
  using cat = typename traits::iterator_category;
  using diff = typename traits::difference_type;
  constexpr bool fwd = at_least<cat, std::forward_iterator_tag>;
  constexpr bool bidi = at_least<cat, std::bidirectional_iterator_tag>;
  constexpr bool ra = at_least<cat, std::random_access_iterator_tag>;
  std::size_t const n = model.size();
  std::size_t const fuel = n + 8;
  std::string const P = name + ":proto:";
  auto const sz = [](std::size_t v) { return static_cast<unsigned long>(v); };

  // ---------------------------------------------------------------- (1) equality laws
  // a fresh iterator standing on position i (its own walk from a fresh begin)
  auto at = [&](std::size_t i) {
    It it(mkb());
    for (std::size_t k = 0; k < i; ++k)
      ++it;
    return it;
  };
  {
    It it(mkb());
    for (std::size_t i = 0; i < n; ++i)
    {
      if (it == e)
      {
        vrt::fail(P + "short", vrt::fmt("end reached at position %lu of %lu", sz(i), sz(n)));
        return;
      }
      ++it;
    }
  }
  std::vector<It> pos; // an iterator for every position 0..n (n = end)
  pos.reserve(n + 1);
  for (std::size_t i = 0; i <= n; ++i)
    pos.push_back(at(i));
  auto index_of = [&](It const &x) -> std::size_t { // position of an iterator, n+1 if none
    for (std::size_t i = 0; i <= n; ++i)
      if (pos[i] == x)
        return i;
    return n + 1;
  };
  bool equality_ok = true;
  for (std::size_t i = 0; i <= n; ++i)
  {
    It const &a = pos[i];
    if (!(a == a) || (a != a))
    {
      vrt::fail(P + "reflexive", vrt::fmt("iterator at position %lu of %lu is not equal to itself", sz(i), sz(n)));
      equality_ok = false;
    }
    It const c(a);
    if (!(c == a) || !(a == c) || (c != a) || (a != c))
    {
      vrt::fail(P + "copy_equal", vrt::fmt("a copy of the iterator at position %lu of %lu is not equal to it", sz(i), sz(n)));
      equality_ok = false;
    }
    for (std::size_t j = 0; j <= n; ++j)
    {
      bool const eq = pos[i] == pos[j], ne = pos[i] != pos[j];
      if (eq != (i == j) || ne != (i != j))
      {
        vrt::fail(P + "equal", vrt::fmt("positions %lu and %lu of %lu: == is %d, != is %d", sz(i), sz(j), sz(n), int(eq), int(ne)));
        equality_ok = false;
      }
    }
    // against the range's own begin and end, both operand orders
    bool const is_end = i == n, is_begin = i == 0;
    if ((a == e) != is_end || (e == a) != is_end || (a != e) == is_end || (e != a) == is_end)
    {
      vrt::fail(P + "equal_end", vrt::fmt("position %lu of %lu: it==end %d, end==it %d, it!=end %d, end!=it %d", sz(i), sz(n), int(a == e),
                                          int(e == a), int(a != e), int(e != a)));
      equality_ok = false;
    }
    if ((a == b) != is_begin || (b == a) != is_begin || (a != b) == is_begin || (b != a) == is_begin)
    {
      vrt::fail(P + "equal_begin", vrt::fmt("position %lu of %lu: it==begin %d, begin==it %d, it!=begin %d, begin!=it %d", sz(i), sz(n),
                                            int(a == b), int(b == a), int(a != b), int(b != a)));
      equality_ok = false;
    }
  }
  // loops written with the end on the left terminate after n steps and see the elements
  {
    It it(mkb());
    std::size_t steps = 0;
    bool elems = true;
    while (e != it && steps < fuel)
    {
      if (steps < n && !(keyof(*it) == model[steps]))
        elems = false;
      ++it;
      ++steps;
    }
    VRT_CHECK(steps == n, P + "loop_end_ne_it", "`end != it` loop made %lu steps, want %lu", sz(steps), sz(n));
    VRT_CHECK(elems, P + "loop_end_ne_it:element", "`end != it` loop saw a wrong element");
    It it2(mkb());
    steps = 0;
    while (!(e == it2) && steps < fuel)
    {
      ++it2;
      ++steps;
    }
    VRT_CHECK(steps == n, P + "loop_not_end_eq_it", "`!(end == it)` loop made %lu steps, want %lu", sz(steps), sz(n));
    It it3(mkb());
    steps = 0;
    while (!(it3 == e) && steps < fuel)
    {
      it3++;
      ++steps;
    }
    VRT_CHECK(steps == n, P + "loop_not_it_eq_end", "`!(it == end)` loop with it++ made %lu steps, want %lu", sz(steps), sz(n));
  }
  if (!equality_ok)
    return; // the remaining laws are phrased with == and would only repeat the finding

  // walking from a copy of `from` (position k) yields model[k..] and stops at end
  auto walk_rest = [&](It w, std::size_t k, char const *what) { // walks the iterator it is given (by value)
    std::size_t i = k;
    while (i < n)
    {
      if (w == e)
      {
        vrt::fail(P + what, vrt::fmt("walk from position %lu ends at %lu of %lu", sz(k), sz(i), sz(n)));
        return;
      }
      if (!(keyof(*w) == model[i]))
      {
        vrt::fail(P + what, vrt::fmt("walk from position %lu: wrong element at %lu of %lu", sz(k), sz(i), sz(n)));
        return;
      }
      ++w;
      ++i;
    }
    if (!(w == e))
      vrt::fail(P + what, vrt::fmt("walk from position %lu does not end after %lu elements", sz(k), sz(n)));
  };

  // ---------------------------------------------------------------- (2) multi-pass
  if constexpr (fwd)
  {
    for (std::size_t k = 0; k <= n; ++k)
      walk_rest(pos[k], k, "multipass");
    for (std::size_t k = 0; k < n; ++k) // the saved iterators still stand on their elements
      VRT_CHECK(keyof(*pos[k]) == model[k], P + "multipass:saved", "saved iterator %lu of %lu changed its element", sz(k), sz(n));
    It x(b), y(b);
    for (std::size_t i = 0; i < n; ++i)
    {
      VRT_CHECK(keyof(*x) == model[i] && keyof(*y) == model[i], P + "lockstep", "two copies in lockstep differ at %lu of %lu", sz(i), sz(n));
      ++x;
      VRT_CHECK((x == y) == false || n == 0, P + "lockstep", "copy advanced alone still equals the other at %lu", sz(i));
      ++y;
      VRT_CHECK(x == y, P + "lockstep", "two copies advanced equally differ after %lu steps", sz(i + 1));
    }
    VRT_CHECK(x == e && y == e, P + "lockstep", "lockstep copies do not end at end()");
  }

  // ---------------------------------------------------------------- (3) reference stability
  if constexpr (fwd)
  {
    // (Cpp17ForwardIterator asks for a real reference type; this is a typedef matter -- recorded, not judged)
    if (!std::is_reference_v<typename traits::reference>)
      vrt::count("info:" + name + ":proto:forward_category_without_reference_type");
  }
  if (fwd || o.value_reference)
  {
    bool stable = true;
    {
      It it(mkb());
      for (std::size_t i = 0; i < n; ++i)
      {
        auto &&x = *it; // a value (lifetime extended) or a reference to an element that outlives the step
        Key const copy = keyof(x);
        ++it;
        if (!(keyof(x) == copy) || !(copy == model[i]))
        {
          vrt::fail(P + "ref_after_increment",
                    vrt::fmt("element %lu of %lu obtained with *it changed when the iterator was incremented", sz(i), sz(n)));
          stable = false;
          break;
        }
      }
    }
    if (stable) // (a reference into the iterator itself would now be read after free: only when the above held)
      for (std::size_t i = 0; i < n; ++i)
      {
        std::unique_ptr<It> p(new It(mkb()));
        for (std::size_t k = 0; k < i; ++k)
          ++*p;
        auto &&x = **p;
        Key const copy = keyof(x);
        p.reset(); // the iterator is gone; the element must not be
        if (!(keyof(x) == copy) || !(copy == model[i]))
        {
          vrt::fail(P + "ref_after_destruction", vrt::fmt("element %lu of %lu changed when the iterator was destroyed", sz(i), sz(n)));
          break;
        }
      }
    if (stable)
      for (std::size_t i = 0; i < n; ++i)
      {
        auto &&x = *It(pos[i]); // element obtained from a temporary iterator
        VRT_CHECK(keyof(x) == model[i], P + "ref_from_temporary", "element %lu of %lu read through a temporary iterator is wrong", sz(i), sz(n));
      }
  }
  if constexpr (bidi)
  {
    for (std::size_t k = 1; k <= n; ++k)
    {
      auto &&x = *std::prev(pos[k]);
      VRT_CHECK(keyof(x) == model[k - 1], P + "prev", "*std::prev(it_%lu) of %lu is wrong", sz(k), sz(n));
      It d(pos[k]);
      It &r = --d;
      VRT_CHECK(&r == &d && d == pos[k - 1], P + "predecrement", "--it_%lu of %lu is not it_%lu", sz(k), sz(n), sz(k - 1));
      It d2(pos[k]);
      It const old = d2--;
      VRT_CHECK(old == pos[k] && d2 == pos[k - 1], P + "postdecrement", "it_%lu-- of %lu wrong", sz(k), sz(n));
    }
    std::reverse_iterator<It> r(e), rend(b);
    std::vector<Key> got;
    std::size_t steps = 0;
    while (r != rend && steps < fuel)
    {
      got.push_back(keyof(*r));
      ++r;
      ++steps;
    }
    std::vector<Key> want(model.rbegin(), model.rend());
    VRT_CHECK(got == want, P + "reverse", "reverse_iterator traversal saw %lu elements, want the %lu reversed ones", sz(got.size()), sz(n));
  }
  if constexpr (ra)
  {
    for (std::size_t i = 0; i <= n; ++i)
      for (std::size_t j = 0; j < n; ++j)
      {
        diff const k = static_cast<diff>(static_cast<std::ptrdiff_t>(j) - static_cast<std::ptrdiff_t>(i));
        auto &&x = *(pos[i] + k);
        auto &&y = pos[i][k];
        VRT_CHECK(keyof(x) == model[j], P + "plus_deref", "*(it_%lu + %ld) of %lu is wrong", sz(i), static_cast<long>(k), sz(n));
        VRT_CHECK(keyof(y) == model[j], P + "subscript", "it_%lu[%ld] of %lu is wrong", sz(i), static_cast<long>(k), sz(n));
      }
  }
  if constexpr (fwd)
  {
    auto const lt = [&](auto const &l, auto const &r) { return keyof(l) < keyof(r); };
    auto const eq = [&](auto const &l, auto const &r) { return keyof(l) == keyof(r); };
    std::size_t const want_adj = static_cast<std::size_t>(std::adjacent_find(model.begin(), model.end()) - model.begin());
    VRT_CHECK(index_of(std::adjacent_find(b, e, eq)) == want_adj, P + "adjacent_find", "std::adjacent_find gives position %lu, want %lu",
              sz(index_of(std::adjacent_find(b, e, eq))), sz(want_adj));
    VRT_CHECK(std::is_sorted(b, e, lt) == std::is_sorted(model.begin(), model.end()), P + "is_sorted", "std::is_sorted disagrees with the model");
    auto const mm = std::minmax_element(b, e, lt);
    auto const wm = std::minmax_element(model.begin(), model.end());
    VRT_CHECK(index_of(mm.first) == static_cast<std::size_t>(wm.first - model.begin()) &&
                  index_of(mm.second) == static_cast<std::size_t>(wm.second - model.begin()),
              P + "minmax_element", "std::minmax_element gives positions %lu,%lu", sz(index_of(mm.first)), sz(index_of(mm.second)));
    // (for a cyclic walk that wraps, last - first is negative by cyclic_iterator's documented distance; algorithms
    //  that use it for random access iterators are not meaningful there -- counted, not asserted)
    if (ra && !o.strict_distance)
    {
      if (static_cast<std::size_t>(std::distance(b, e)) != n)
        vrt::count("info:wrapped_cyclic_range_distance_differs_from_step_count");
    }
    else
    {
    std::size_t const h = n / 2;
    bool const want_eq = std::equal(model.begin(), model.begin() + static_cast<std::ptrdiff_t>(h), model.begin() + static_cast<std::ptrdiff_t>(h),
                                    model.begin() + static_cast<std::ptrdiff_t>(2 * h));
    VRT_CHECK(std::equal(pos[0], pos[h], pos[h], pos[2 * h], eq) == want_eq, P + "equal_halves", "std::equal(first half, second half) disagrees");
    VRT_CHECK(static_cast<std::size_t>(std::distance(b, e)) == n, P + "distance", "std::distance is %ld, want %lu",
              static_cast<long>(std::distance(b, e)), sz(n));
    }
    for (std::size_t k = 0; k <= n; ++k)
      VRT_CHECK(std::next(b, static_cast<diff>(k)) == pos[k], P + "next", "std::next(begin, %lu) is not it_%lu", sz(k), sz(k));
  }

  // ---------------------------------------------------------------- (4) random access arithmetic, all pairs
  if constexpr (ra)
  {
    for (std::size_t i = 0; i <= n; ++i)
      for (std::size_t j = 0; j <= n; ++j)
      {
        diff const d = static_cast<diff>(static_cast<std::ptrdiff_t>(j) - static_cast<std::ptrdiff_t>(i));
        VRT_CHECK(pos[i] + d == pos[j] && d + pos[i] == pos[j], P + "plus", "it_%lu + %ld != it_%lu (of %lu)", sz(i), static_cast<long>(d), sz(j), sz(n));
        VRT_CHECK(pos[j] - d == pos[i], P + "minus", "it_%lu - %ld != it_%lu (of %lu)", sz(j), static_cast<long>(d), sz(i), sz(n));
        It c(pos[i]);
        It &r1 = (c += d);
        VRT_CHECK(&r1 == &c && c == pos[j], P + "plus_assign", "it_%lu += %ld wrong", sz(i), static_cast<long>(d));
        It &r2 = (c -= d);
        VRT_CHECK(&r2 == &c && c == pos[i], P + "minus_assign", "it_%lu -= %ld wrong", sz(j), static_cast<long>(d));
        diff const dist = pos[j] - pos[i];
        VRT_CHECK(pos[i] + dist == pos[j], P + "difference_roundtrip", "it_%lu + (it_%lu - it_%lu) != it_%lu (difference %ld)", sz(i), sz(j),
                  sz(i), sz(j), static_cast<long>(dist));
        bool const lt = pos[i] < pos[j], gt = pos[i] > pos[j], le = pos[i] <= pos[j], ge = pos[i] >= pos[j];
        // a strict total order consistent with == whatever it is based on
        VRT_CHECK(lt + gt + (i == j) == 1 && le == !gt && ge == !lt, P + "order_consistent", "it_%lu vs it_%lu: < %d > %d <= %d >= %d", sz(i),
                  sz(j), int(lt), int(gt), int(le), int(ge));
        VRT_CHECK(lt == (dist > 0), P + "order_vs_difference", "it_%lu < it_%lu is %d but the difference is %ld", sz(i), sz(j), int(lt),
                  static_cast<long>(dist));
        if (o.strict_distance)
        {
          VRT_CHECK(dist == d, P + "difference", "it_%lu - it_%lu is %ld, want %ld", sz(j), sz(i), static_cast<long>(dist), static_cast<long>(d));
          VRT_CHECK(lt == (i < j) && gt == (i > j) && le == (i <= j) && ge == (i >= j), P + "order", "it_%lu vs it_%lu: < %d > %d <= %d >= %d",
                    sz(i), sz(j), int(lt), int(gt), int(le), int(ge));
        }
      }
  }

  // ---------------------------------------------------------------- (5) construction and assignment
  if constexpr (fwd && std::is_default_constructible_v<It>)
  {
    It d1{}, d2{};
    VRT_CHECK(d1 == d2 && !(d1 != d2), P + "value_initialized", "two value-initialised iterators differ");
  }
  // every source is a fresh iterator (at(i)) that is compared *before* the assigned/moved-to object is walked:
  // what is asserted is CopyAssignable / MoveAssignable / MoveConstructible / Swappable ("the target is equivalent to
  // the value of the source before the operation"); the state of a moved-from iterator is never looked at
  for (std::size_t i = 0; i <= (fwd ? n : 0); ++i) // input iterators: only begin
  {
    {
      It const src(at(i));
      It a(mkb());
      It &r = (a = src);
      VRT_CHECK(&r == &a && a == src && src == a, P + "copy_assign", "copy-assigned iterator differs from its source (%lu of %lu)", sz(i), sz(n));
      walk_rest(std::move(a), i, "copy_assign:walk");
    }
    if constexpr (std::is_default_constructible_v<It>)
    {
      It const src(at(i));
      It z{};
      z = src;
      VRT_CHECK(z == src, P + "default_then_assign", "default-constructed then assigned iterator differs (%lu of %lu)", sz(i), sz(n));
      walk_rest(std::move(z), i, "default_then_assign:walk");
    }
    {
      It const same(at(i));
      It tmp(at(i));
      It m(mkb());
      m = std::move(tmp);
      VRT_CHECK(m == same, P + "move_assign", "move-assigned iterator differs from its source (%lu of %lu)", sz(i), sz(n));
      walk_rest(std::move(m), i, "move_assign:walk");
    }
    {
      It const same(at(i));
      It tmp2(at(i));
      It mc(std::move(tmp2));
      VRT_CHECK(mc == same, P + "move_construct", "move-constructed iterator differs from its source (%lu of %lu)", sz(i), sz(n));
      walk_rest(std::move(mc), i, "move_construct:walk");
    }
    {
      It const same(at(i));
      It s1(at(i)), s2(mkb());
      using std::swap;
      swap(s1, s2);
      VRT_CHECK(s1 == b && s2 == same, P + "swap", "swap of two iterators wrong (%lu of %lu)", sz(i), sz(n));
    }
  }
}

// ranges given by two iterators: copies of them serve as fresh begin/end (the callers use this form for forward or
// stronger iterators only, where copies are independent by the multi-pass guarantee)
template <class It, class Key, class KeyOf>
void check(std::string const &name, It const &b, It const &e, std::vector<Key> const &model, KeyOf keyof, opts const o)
{
  check_fresh(name, [&b] { return b; }, [&e] { return e; }, model, keyof, o);
}
}

// C02 compile probes: every combinator must accept a type-erased parser (fcppt::parse::base<Result, Ch, Skipper>, made with
// make_base for ONE skipper type) as its operand and be parsable with that skipper: a combinator may only hand its operand
// the skipper it was given.  Must compile; never run.
#include <fcppt/make_cref.hpp>
#include <fcppt/parse/base_unique_ptr.hpp>
#include <fcppt/parse/char.hpp>
#include <fcppt/parse/literal.hpp>
#include <fcppt/parse/make_base.hpp>
#include <fcppt/parse/make_fatal.hpp>
#include <fcppt/parse/make_ignore.hpp>
#include <fcppt/parse/make_lexeme.hpp>
#include <fcppt/parse/operators/alternative.hpp>
#include <fcppt/parse/operators/not.hpp>
#include <fcppt/parse/operators/optional.hpp>
#include <fcppt/parse/operators/repetition.hpp>
#include <fcppt/parse/operators/repetition_plus.hpp>
#include <fcppt/parse/operators/sequence.hpp>
#include <fcppt/parse/phrase_parse_string.hpp>
#include <fcppt/parse/skipper/literal.hpp>

#include <fcppt/unit.hpp>

#include <string>

namespace p = fcppt::parse;
using skipper = p::skipper::literal;

bool c02_probe_erased(std::string const &_in)
{
  p::base_unique_ptr<char, char, skipper> const erased{p::make_base<char, skipper>(p::char_{})};
  auto const e = [&erased] { return fcppt::make_cref(*erased); };
  skipper const sk{' '};
#if C02_PROBE_KIND == 1
  // not_ takes a parser without a result
  p::base_unique_ptr<fcppt::unit, char, skipper> const erased_unit{p::make_base<char, skipper>(p::literal{'a'})};
  return p::phrase_parse_string(!fcppt::make_cref(*erased_unit) >> p::char_{}, std::string(_in), sk).has_success();
#elif C02_PROBE_KIND == 2
  return p::phrase_parse_string(*e(), std::string(_in), sk).has_success() && p::phrase_parse_string(+e(), std::string(_in), sk).has_success() &&
         p::phrase_parse_string(-e(), std::string(_in), sk).has_success();
#elif C02_PROBE_KIND == 3
  return p::phrase_parse_string(e() >> e(), std::string(_in), sk).has_success() && p::phrase_parse_string(e() | e(), std::string(_in), sk).has_success();
#elif C02_PROBE_KIND == 4
  return p::phrase_parse_string(p::make_fatal(e()), std::string(_in), sk).has_success() &&
         p::phrase_parse_string(p::make_ignore(e()), std::string(_in), sk).has_success();
#endif
}

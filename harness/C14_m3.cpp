// C14_m3.cpp -- 3x3 matrices.
//  unary laws: every matrix over {-1,0,1} (3^9 = 19683), thorough: over {-1,0,1,2} (4^9 = 262144);
//  pairs: the structured family S3 = all matrices with <= 3 non-zero entries from {-1,1}
//         + permutation matrices + elementary matrices (transvections I+-E_ij, row scalings);
//  triples: the sub-family with <= 2 (quick: <= 1) non-zero entries + permutations + elementary.
// The matrix product is bilinear, the triple product trilinear, the determinant a
// multilinear form of degree 3 in the entries: a polynomial implementation that agrees
// with the reference on all operands with that many non-zero entries over {-1,0,1}
// agrees everywhere, so these families separate every index and sign.
#include "C14_matrix.hpp"

namespace c14
{
namespace
{
std::vector<rmat<3, 3>> fam3_all() { return all_over<3, 3>({-1, 0, 1}); }
std::vector<rmat<3, 3>> fam3_unary() { return vrt::thorough() ? all_over<3, 3>({-1, 0, 1, 2}) : fam3_all(); }
std::vector<rmat<3, 3>> fam3_struct(int maxnz)
{
  return concat_unique<rmat<3, 3>>({sparse_over<3, 3>(maxnz, {1, -1}), permutation_matrices<3>(), elementary_matrices<3>(),
                                    {distinct_matrix<3, 3>(1, 1)}});
}
}

void register_m3()
{
  for (unsigned p = 0; p < 16; ++p)
    vrt::shard("m3/unary/" + std::to_string(p), [p] {
      auto const all = fam3_unary();
      std::vector<rmat<3, 3>> part;
      for (std::size_t i = p; i < all.size(); i += 16)
        part.push_back(all[i]);
      auto const ops = make_ops(part);
      shape_unary_all<3, 3>(ops, {-2, -1, 0, 1, 3});
      square_unary_all<3>(ops);
    });
  for (unsigned p = 0; p < 16; ++p)
    vrt::shard("m3/pairs/" + std::to_string(p), [p] {
      auto const ops = make_ops(fam3_struct(vrt::thorough() ? 3 : 2));
      sum_pairs_all<3, 3>(ops, p, 16);
      product_pairs_all<3, 3, 3>(ops, ops, p, 16);
      square_pairs_all<3>(ops, p, 16);
    });
  for (unsigned p = 0; p < 32; ++p)
    vrt::shard("m3/triples/" + std::to_string(p), [p] {
      auto const ops = make_ops(fam3_struct(vrt::thorough() ? 2 : 1));
      ring_triples<3>(ops, p, 32);
    });
  for (unsigned p = 0; p < 2; ++p)
    vrt::shard("m3/matvec/" + std::to_string(p), [p] {
      auto const all = vrt::thorough() ? fam3_all() : fam3_struct(3);
      std::vector<rmat<3, 3>> part;
      for (std::size_t i = p; i < all.size(); i += 2)
        part.push_back(all[i]);
      matvec_all<3, 3>(make_ops(part), all_vectors<3>(-1, 1));
    });
  for (unsigned p = 0; p < 4; ++p)
    vrt::shard("m3/matvec_laws/" + std::to_string(p), [p] {
      auto const ops = make_ops(fam3_struct(vrt::thorough() ? 2 : 1));
      matvec_laws<3, 3, 3>(ops, ops, all_vectors<3>(-1, 1), p, 4);
    });
}
}

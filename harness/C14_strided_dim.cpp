// C14_strided_dim.cpp -- dims of dimension 2 and 3 over non-contiguous storages
#include "C14_strided_vecdim.hpp"

namespace c14
{
using namespace noncontig;

void register_strided_dim()
{
  vrt::shard("noncontiguous/dim2_3", [] {
    all_pairs<dim_k, 2>({-1, 0, 1, 2});
    all_pairs<dim_k, 3>({-1, 0, 2});
  });
}
}

// C12 (b) -- engine E straight-line pass over all texts up to a length bound:
// read everything while saving the position before every character, read past the end,
// rewind to every saved position (from the end-of-input state, descending; and from a
// healthy state, ascending) and re-read; every character and every position is compared
// with the model and every re-observed position with the one saved at the same index.
#include "C12_common.hpp"

namespace
{
using namespace c12;

template <class Ch> struct runner
{
  std::basic_string<Ch> const &text;
  string_world<Ch> w;
  std::vector<position<Ch>> saved;
  std::string const t = std::string("<") + cname<Ch>::v + ">";

  explicit runner(std::basic_string<Ch> const &tx) : text(tx), w(tx) {}

  void expect_pos(std::size_t i, char const *phase)
  {
    position<Ch> const p = fcppt::parse::get_position(w.ref());
    std::string const d = position_diff(p, text, i);
    VRT_CHECK(d.empty(), "get_position" + t + ":wrong:" + phase, "at index %zu of %s: %s", i, show_text(text).c_str(), d.c_str());
    if (i < saved.size())
      VRT_CHECK(p == saved[i], "get_position" + t + ":differs_from_saved:" + phase,
                "position re-observed at index %zu of %s differs from the one saved there", i, show_text(text).c_str());
    else if (i == saved.size())
      saved.push_back(p);
  }
  void expect_char(std::size_t i, char const *phase)
  {
    fcppt::optional::object<Ch> const got = fcppt::parse::get_char(w.ref());
    if (i < text.size())
      VRT_CHECK(got.has_value() && got.get_unsafe() == text[i], "get_char" + t + ":wrong_char:" + phase,
                "at index %zu of %s: got %s, expected '%s'", i, show_text(text).c_str(), show_opt(got).c_str(), show_char(text[i]).c_str());
    else
      VRT_CHECK(!got.has_value(), "get_char" + t + ":char_at_end:" + phase, "at end of %s: got %s", show_text(text).c_str(),
                show_opt(got).c_str());
  }

  void run()
  {
    std::size_t const n = text.size();
    // first pass
    for (std::size_t i = 0; i <= n; ++i)
    {
      expect_pos(i, "first_pass");
      if (i < n)
        expect_char(i, "first_pass");
    }
    expect_char(n, "first_pass"); // nothing
    expect_pos(n, "after_end");   // position after a failed read
    expect_char(n, "after_end");  // still nothing
    expect_char(n, "after_end");  // and again, without a position operation in between
    // rewind from the end-of-input state to every saved position, descending, re-read to the end
    for (std::size_t j = n + 1; j-- > 0;)
    {
      fcppt::parse::set_position(w.ref(), saved[j]);
      for (std::size_t i = j; i <= n; ++i)
      {
        expect_pos(i, "rewind_from_end");
        expect_char(i, "rewind_from_end"); // i == n: nothing
      }
    }
    // rewind between healthy states, ascending, one character each
    for (std::size_t j = 0; j <= n; ++j)
    {
      fcppt::parse::set_position(w.ref(), saved[j]);
      expect_pos(j, "rewind_ascending");
      if (j < n)
      {
        expect_char(j, "rewind_ascending");
        expect_pos(j + 1, "rewind_ascending");
      }
    }
    // jump back to the start and forward to the end without reading
    fcppt::parse::set_position(w.ref(), saved[0]);
    fcppt::parse::set_position(w.ref(), saved[n]);
    expect_pos(n, "jump");
    expect_char(n, "jump");
    fcppt::parse::set_position(w.ref(), saved[n / 2]);
    expect_pos(n / 2, "jump");
    expect_char(n / 2, "jump");
  }
};

template <class Ch> void one_text(char const *fn, int alphabet, int len, std::uint32_t code)
{
  std::basic_string<Ch> const text = make_text<Ch>(alphabet, len, code);
  if (!vrt::begin_text(fn, std::string("read all / rewind all on ") + show_text(text)))
    return;
  bool nl = false;
  for (Ch c : text)
    nl = nl || c == Ch('\n');
  vrt::nontrivial(nl);
  vrt::maybe_sample();
  try
  {
    runner<Ch> r(text);
    r.run();
  }
  catch (fcppt::parse::detail::exception<Ch> const &e)
  {
    vrt::fail(std::string("stream<") + cname<Ch>::v + ">:exception", "'" + narrow_msg(e.what()) + "' on a healthy string stream");
  }
}

// shard `part` of 16: texts whose first two letters are `part` (texts shorter than 2 go to part 0)
template <class Ch> void straight_part(char const *fn, int alphabet, int maxlen, unsigned part)
{
  for (int len = 0; len <= maxlen; ++len)
  {
    if (len < 2)
    {
      if (part == 0)
        for (std::uint32_t code = 0; code < texts_of_len(len); ++code)
          one_text<Ch>(fn, alphabet, len, code);
      continue;
    }
    std::uint32_t const per = texts_of_len(len - 2);
    for (std::uint32_t rest = 0; rest < per; ++rest)
    {
      if ((rest & 0xfffU) == 0 && vrt::out_of_time())
        return;
      one_text<Ch>(fn, alphabet, len, part * per + rest);
    }
  }
}
}

void c12::register_straight()
{
  for (unsigned part = 0; part < 16; ++part)
  {
    vrt::shard("straight<char>/" + std::to_string(part),
               [part] { straight_part<char>("straight<char>", 0, vrt::thorough() ? 12 : 10, part); });
    vrt::shard("straight<wchar_t>/" + std::to_string(part),
               [part] { straight_part<wchar_t>("straight<wchar_t>", 0, vrt::thorough() ? 12 : 10, part); });
  }
  for (unsigned part = 0; part < 16; part += 4)
    vrt::shard("straight<wchar_t,wide>/" + std::to_string(part), [part] {
      for (unsigned p = part; p < part + 4; ++p)
        straight_part<wchar_t>("straight<wchar_t,wide>", 1, vrt::thorough() ? 9 : 7, p);
    });
}

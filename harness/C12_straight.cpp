// C12 (b) -- engine E straight-line pass over all texts up to a length bound
// (variants: wide-only wchar_t alphabet; char alphabet with the bytes 0xFF/0x80; parse stream built on a std
// stream from which 1 or 2 characters were already read; every one- and two-byte text; fcppt::io::get/peek on
// all byte values):
// read everything while saving the position before every character, read past the end,
// rewind to every saved position (from the end-of-input state, descending; and from a
// healthy state, ascending) and re-read; every character and every position is compared
// with the model and every re-observed position with the one saved at the same index.
#include "C12_common.hpp"

#include <fcppt/io/get.hpp>
#include <fcppt/io/peek.hpp>

namespace
{
using namespace c12;

template <class Ch> struct runner
{
  std::basic_string<Ch> const text; // what the parse stream reads (the content after the characters read in advance)
  string_world<Ch> w;
  long long const base; // see position_diff: offsets are compared only for streams built on a fresh std stream
  std::vector<position<Ch>> saved;
  std::string const t = std::string("<") + cname<Ch>::v + ">";

  explicit runner(std::basic_string<Ch> const &full, std::size_t skip = 0) : text(full.substr(skip)), w(full, skip), base(skip == 0 ? 0 : -1) {}

  void expect_pos(std::size_t i, char const *phase)
  {
    position<Ch> const p = fcppt::parse::get_position(w.ref());
    std::string const d = position_diff(p, text, i, base);
    VRT_CHECK(d.empty(), "get_position" + t + ":wrong:" + phase, "at index %zu of %s: %s", i, show_text(text).c_str(), d.c_str());
    if (i < saved.size())
      VRT_CHECK(p == saved[i], "get_position" + t + ":differs_from_saved:" + phase,
                "position re-observed at index %zu of %s differs from the one saved there", i, show_text(text).c_str());
    else if (i == saved.size())
      saved.push_back(p);
  }
  void expect_char(std::size_t i, char const *phase)
  {
    fcppt::optional::object<Ch> const got = fcppt::parse::get_char(w.ref());
    if (i < text.size())
      VRT_CHECK(got.has_value() && got.get_unsafe() == text[i], "get_char" + t + ":wrong_char:" + phase,
                "at index %zu of %s: got %s, expected '%s'", i, show_text(text).c_str(), show_opt(got).c_str(), show_char(text[i]).c_str());
    else
      VRT_CHECK(!got.has_value(), "get_char" + t + ":char_at_end:" + phase, "at end of %s: got %s", show_text(text).c_str(),
                show_opt(got).c_str());
  }

  void run()
  {
    std::size_t const n = text.size();
    // first pass
    for (std::size_t i = 0; i <= n; ++i)
    {
      expect_pos(i, "first_pass");
      if (i < n)
        expect_char(i, "first_pass");
    }
    expect_char(n, "first_pass"); // nothing
    expect_pos(n, "after_end");   // position after a failed read
    expect_char(n, "after_end");  // still nothing
    expect_char(n, "after_end");  // and again, without a position operation in between
    // rewind from the end-of-input state to every saved position, descending, re-read to the end
    for (std::size_t j = n + 1; j-- > 0;)
    {
      fcppt::parse::set_position(w.ref(), saved[j]);
      for (std::size_t i = j; i <= n; ++i)
      {
        expect_pos(i, "rewind_from_end");
        expect_char(i, "rewind_from_end"); // i == n: nothing
      }
    }
    // rewind between healthy states, ascending, one character each
    for (std::size_t j = 0; j <= n; ++j)
    {
      fcppt::parse::set_position(w.ref(), saved[j]);
      expect_pos(j, "rewind_ascending");
      if (j < n)
      {
        expect_char(j, "rewind_ascending");
        expect_pos(j + 1, "rewind_ascending");
      }
    }
    // jump back to the start and forward to the end without reading
    fcppt::parse::set_position(w.ref(), saved[0]);
    fcppt::parse::set_position(w.ref(), saved[n]);
    expect_pos(n, "jump");
    expect_char(n, "jump");
    fcppt::parse::set_position(w.ref(), saved[n / 2]);
    expect_pos(n / 2, "jump");
    expect_char(n / 2, "jump");
  }
};

template <class Ch> void run_text(char const *fn, std::basic_string<Ch> const &text, std::size_t skip)
{
  if (!vrt::begin_text(fn, std::string("read all / rewind all on ") + show_text(text) +
                               (skip ? vrt::fmt(", parse stream built after %zu istream::get()", skip) : std::string())))
    return;
  bool nl = false;
  for (Ch c : text)
    nl = nl || c == Ch('\n');
  vrt::nontrivial(nl);
  vrt::maybe_sample();
  try
  {
    runner<Ch> r(text, skip);
    r.run();
  }
  catch (fcppt::parse::detail::exception<Ch> const &e)
  {
    vrt::fail(std::string("stream<") + cname<Ch>::v + ">:exception", "'" + narrow_msg(e.what()) + "' on a healthy string stream");
  }
}

// skip_max > 0: the parse stream is built after 1..skip_max characters were read from the std stream
int SKIP_MAX = 0;

template <class Ch> void one_text(char const *fn, int alphabet, int len, std::uint32_t code)
{
  std::basic_string<Ch> const text = make_text<Ch>(alphabet, len, code);
  if (SKIP_MAX == 0)
    run_text<Ch>(fn, text, 0);
  else
    for (std::size_t k = 1; k <= static_cast<std::size_t>(SKIP_MAX) && k <= text.size(); ++k)
      run_text<Ch>(fn, text, k);
}

// shard `part` of 16: texts whose first two letters are `part` (texts shorter than 2 go to part 0)
template <class Ch> void straight_part(char const *fn, int alphabet, int maxlen, unsigned part)
{
  for (int len = 0; len <= maxlen; ++len)
  {
    if (len < 2)
    {
      if (part == 0)
        for (std::uint32_t code = 0; code < texts_of_len(len); ++code)
          one_text<Ch>(fn, alphabet, len, code);
      continue;
    }
    std::uint32_t const per = texts_of_len(len - 2);
    for (std::uint32_t rest = 0; rest < per; ++rest)
    {
      if ((rest & 0xfffU) == 0 && vrt::out_of_time())
        return;
      one_text<Ch>(fn, alphabet, len, part * per + rest);
    }
  }
}
}

void c12::register_straight()
{
  for (unsigned part = 0; part < 16; ++part)
  {
    vrt::shard("straight<char>/" + std::to_string(part),
               [part] { straight_part<char>("straight<char>", 0, vrt::thorough() ? 12 : 10, part); });
    vrt::shard("straight<wchar_t>/" + std::to_string(part),
               [part] { straight_part<wchar_t>("straight<wchar_t>", 0, vrt::thorough() ? 12 : 10, part); });
  }
  for (unsigned part = 0; part < 16; part += 4)
  {
    vrt::shard("straight<wchar_t,wide>/" + std::to_string(part), [part] {
      for (unsigned p = part; p < part + 4; ++p)
        straight_part<wchar_t>("straight<wchar_t,wide>", 1, vrt::thorough() ? 9 : 7, p);
    });
    // bytes 0xFF / 0x80 (negative as char; 0xFF collides with eof after narrowing)
    vrt::shard("straight<char,bytes>/" + std::to_string(part), [part] {
      for (unsigned p = part; p < part + 4; ++p)
        straight_part<char>("straight<char,bytes>", 2, vrt::thorough() ? 10 : 8, p);
    });
    // parse stream built on a std stream from which 1 or 2 characters were already read
    vrt::shard("straight<char,prefix>/" + std::to_string(part), [part] {
      SKIP_MAX = 2;
      for (unsigned p = part; p < part + 4; ++p)
        straight_part<char>("straight<char,prefix>", 0, vrt::thorough() ? 10 : 8, p);
    });
    vrt::shard("straight<wchar_t,prefix>/" + std::to_string(part), [part] {
      SKIP_MAX = 2;
      for (unsigned p = part; p < part + 4; ++p)
        straight_part<wchar_t>("straight<wchar_t,prefix>", 0, vrt::thorough() ? 10 : 8, p);
    });
    vrt::shard("straight<char,bytes,prefix>/" + std::to_string(part), [part] {
      SKIP_MAX = 2;
      for (unsigned p = part; p < part + 4; ++p)
        straight_part<char>("straight<char,bytes,prefix>", 2, vrt::thorough() ? 8 : 6, p);
    });
  }
}

// ---------------------------------------------------------------- all 256 byte values
namespace
{
// fcppt::io::get / fcppt::io::peek: "Returns an empty optional for end-of-file" -- and therefore the character
// for every character, whatever its value.  Stream content: `len` characters c0 [c1].
template <class Ch> void io_case(char const *fn, int len, std::uint32_t v0, std::uint32_t v1)
{
  if (!vrt::begin(fn, len, v0, v1))
    return;
  Ch const c[2] = {static_cast<Ch>(static_cast<std::make_unsigned_t<Ch>>(v0)), static_cast<Ch>(static_cast<std::make_unsigned_t<Ch>>(v1))};
  // non-trivial: a value that is negative as Ch or does not fit 7 bits
  vrt::nontrivial(v0 > 127 || (len == 2 && v1 > 127));
  vrt::maybe_sample();
  std::string const t = std::string("<") + cname<Ch>::v + ">";
  std::basic_istringstream<Ch> is(std::basic_string<Ch>(c, static_cast<std::size_t>(len)));
  for (int i = 0; i <= len + 1; ++i)
  {
    if (i == len + 1)
      is.clear(); // second round at the end: on a stream whose eof/fail flags were reset
    fcppt::optional::object<Ch> const pk = fcppt::io::peek(is);
    fcppt::optional::object<Ch> const gt = fcppt::io::get(is);
    if (i < len)
    {
      VRT_CHECK(pk.has_value() && pk.get_unsafe() == c[i], "io::peek" + t + ":wrong", "character %d of %d is %s, peek returned %s", i, len,
                show_char(c[i]).c_str(), show_opt(pk).c_str());
      VRT_CHECK(gt.has_value() && gt.get_unsafe() == c[i], "io::get" + t + ":wrong", "character %d of %d is %s, get returned %s", i, len,
                show_char(c[i]).c_str(), show_opt(gt).c_str());
    }
    else
    {
      VRT_CHECK(!pk.has_value(), "io::peek" + t + ":char_at_end", "at the end: peek returned %s", show_opt(pk).c_str());
      VRT_CHECK(!gt.has_value(), "io::get" + t + ":char_at_end", "at the end: get returned %s", show_opt(gt).c_str());
    }
  }
}
}

void c12::register_bytes()
{
  // fcppt::io::get / peek on every one-byte stream and every two-byte stream
  vrt::shard("io<char>", [] {
    for (std::uint32_t a = 0; a < 256; ++a)
      io_case<char>("io::get/peek<char>", 1, a, 0);
    for (std::uint32_t a = 0; a < 256; ++a)
      for (std::uint32_t b = 0; b < 256; ++b)
        io_case<char>("io::get/peek<char>", 2, a, b);
  });
  // wchar_t: every value below 0x20000, alone and followed by / following a newline (wchar_t(-1) is WEOF itself: excluded)
  vrt::shard("io<wchar_t>", [] {
    for (std::uint32_t a = 0; a < 0x20000U; ++a)
    {
      io_case<wchar_t>("io::get/peek<wchar_t>", 1, a, 0);
      io_case<wchar_t>("io::get/peek<wchar_t>", 2, a, 0x0AU);
      io_case<wchar_t>("io::get/peek<wchar_t>", 2, 0x0AU, a);
    }
  });
  // the parse stream over every one-byte text and every two-byte text: full read-all / rewind-all schedule
  for (unsigned part = 0; part < 4; ++part)
    vrt::shard("bytes<char>/" + std::to_string(part), [part] {
      for (std::uint32_t a = part * 64; a < (part + 1) * 64; ++a)
      {
        run_text<char>("stream_bytes<char>", std::string(1, static_cast<char>(static_cast<unsigned char>(a))), 0);
        for (std::uint32_t b = 0; b < 256; ++b)
        {
          std::string tx;
          tx += static_cast<char>(static_cast<unsigned char>(a));
          tx += static_cast<char>(static_cast<unsigned char>(b));
          run_text<char>("stream_bytes<char>", tx, 0);
          run_text<char>("stream_bytes<char>", tx, 1);
        }
      }
    });
}

// ---------------------------------------------------------------- long texts: counters across 2^8 / 2^16 and digit boundaries
// Text (a^k '\n')^(l-1) a^(c-1) for l, c over the lattice (k = 0, and k = 1 for the lines).  Linear schedule: read
// everything with get_position before every character (offset, line, column against an incrementally stepped
// model: newline => line+1, column 1; else column+1 -- the documented definition applied step by step), save the
// positions at which line or column is a lattice value or 255..257 / 65535..65537, read past the end, rewind to
// every saved position (descending) and read three characters, then rewind to the start and read everything again.
namespace
{
template <class Ch> struct long_runner
{
  std::basic_string<Ch> const &text;
  string_world<Ch> w;
  std::string const t = std::string("<") + cname<Ch>::v + ">";
  struct saved
  {
    std::size_t index;
    std::uint64_t line, column;
    position<Ch> pos;
  };
  std::vector<saved> marks;

  explicit long_runner(std::basic_string<Ch> const &tx) : text(tx), w(tx) {}

  static bool interesting(std::uint64_t v)
  {
    for (std::uint64_t x : lattice())
      if (x == v)
        return true;
    return (v >= 255 && v <= 257) || (v >= 65535 && v <= 65537);
  }

  bool expect(position<Ch> const &p, std::size_t i, std::uint64_t line, std::uint64_t column, char const *phase)
  {
    long long const off = static_cast<long long>(std::streamoff(p.pos()));
    bool const ok = off == static_cast<long long>(i) && p.location().has_value() && p.location().get_unsafe().line().get() == line &&
                    p.location().get_unsafe().column().get() == column;
    if (!ok)
      vrt::fail("get_position" + t + ":wrong:long:" + phase,
                vrt::fmt("at index %zu of %s: offset %lld, location %llu:%llu; expected offset %zu, location %llu:%llu", i, show_text(text).c_str(), off,
                         p.location().has_value() ? static_cast<unsigned long long>(p.location().get_unsafe().line().get()) : 0ULL,
                         p.location().has_value() ? static_cast<unsigned long long>(p.location().get_unsafe().column().get()) : 0ULL, i,
                         static_cast<unsigned long long>(line), static_cast<unsigned long long>(column)));
    return ok;
  }
  bool read(std::size_t i, char const *phase)
  {
    fcppt::optional::object<Ch> const g = fcppt::parse::get_char(w.ref());
    bool const ok = i < text.size() ? (g.has_value() && g.get_unsafe() == text[i]) : !g.has_value();
    if (!ok)
      vrt::fail("get_char" + t + ":wrong_char:long:" + phase, vrt::fmt("at index %zu of %s: got %s", i, show_text(text).c_str(), show_opt(g).c_str()));
    return ok;
  }
  static void step(Ch c, std::uint64_t &line, std::uint64_t &column)
  {
    if (c == Ch('\n'))
    {
      ++line;
      column = 1;
    }
    else
      ++column;
  }

  // read from index `from` (model location line:column) up to `count` characters or the end; returns false on the first mismatch
  bool sweep(std::size_t from, std::uint64_t line, std::uint64_t column, std::size_t count, bool mark, char const *phase)
  {
    std::size_t const n = text.size();
    std::size_t i = from;
    for (std::size_t done = 0;; ++done)
    {
      position<Ch> const p = fcppt::parse::get_position(w.ref());
      if (!expect(p, i, line, column, phase))
        return false;
      if (mark && (i == 0 || i == n || (column > 2 ? interesting(column) : interesting(line))))
        marks.push_back(saved{i, line, column, p});
      if (i == n || done == count)
        return true;
      if (!read(i, phase))
        return false;
      step(text[i], line, column);
      ++i;
    }
  }

  void run()
  {
    std::size_t const n = text.size();
    if (!sweep(0, 1, 1, n, true, "first_pass"))
      return;
    read(n, "first_pass"); // nothing
    for (std::size_t k = marks.size(); k-- > 0;)
    {
      saved const &s = marks[k];
      fcppt::parse::set_position(w.ref(), s.pos);
      position<Ch> const p = fcppt::parse::get_position(w.ref());
      VRT_CHECK(p == s.pos, "get_position" + t + ":differs_from_saved:long", "after set_position to index %zu of %s", s.index, show_text(text).c_str());
      if (!sweep(s.index, s.line, s.column, 3, false, "rewind"))
        return;
    }
    fcppt::parse::set_position(w.ref(), marks.front().pos);
    if (!sweep(0, 1, 1, n, false, "second_pass"))
      return;
    read(n, "second_pass");
    vrt::count("positions_saved_at_boundaries", marks.size());
  }
};

template <class Ch> void long_case(std::uint64_t l, std::uint64_t c, std::size_t k)
{
  std::string const fn = std::string("straight_long<") + cname<Ch>::v + ">";
  if (!vrt::begin(fn.c_str(), l, c, k))
    return;
  vrt::nontrivial(l > 255 || c > 255);
  vrt::maybe_sample();
  std::basic_string<Ch> text;
  text.reserve(static_cast<std::size_t>((l - 1) * (k + 1) + c));
  for (std::uint64_t i = 1; i < l; ++i)
  {
    text.append(k, Ch('a'));
    text += Ch('\n');
  }
  text.append(static_cast<std::size_t>(c - 1), Ch('a'));
  vrt::describe(vrt::fmt("%s: %llu lines of %zu 'a', last line %llu 'a' (ends at %llu:%llu)", fn.c_str(), static_cast<unsigned long long>(l - 1), k,
                         static_cast<unsigned long long>(c - 1), static_cast<unsigned long long>(l), static_cast<unsigned long long>(c)));
  try
  {
    long_runner<Ch> r(text);
    r.run();
  }
  catch (fcppt::parse::detail::exception<Ch> const &e)
  {
    vrt::fail(std::string("stream<") + cname<Ch>::v + ">:exception", "'" + narrow_msg(e.what()) + "' on a healthy string stream");
  }
}

template <class Ch> void long_part(unsigned part, unsigned nparts)
{
  std::vector<std::uint64_t> const &v = lattice();
  for (std::size_t li = 0; li < v.size(); ++li)
  {
    if (li % nparts != part)
      continue;
    for (std::uint64_t c : v)
    {
      if (vrt::out_of_time())
        return;
      long_case<Ch>(v[li], c, 0);
      if (c <= 11 || c == v[li]) // lines "a\n": against small last lines and on the diagonal
        long_case<Ch>(v[li], c, 1);
    }
  }
}
}

void c12::register_long()
{
  constexpr unsigned nparts = 4;
  for (unsigned part = 0; part < nparts; ++part)
  {
    vrt::shard("straight_long<char>/" + std::to_string(part), [part] { long_part<char>(part, nparts); });
    vrt::shard("straight_long<wchar_t>/" + std::to_string(part), [part] { long_part<wchar_t>(part, nparts); });
  }
}

// C16, part 2: find_opt, find_if_opt, find_by_opt, index_of, equal_range, binary_search, remove, remove_if, unique,
// unique_if, reverse, split_string, join_strings, map_iteration, map_iteration_second, sequence_iteration.
#include "C16_common.hpp"

#include <fcppt/algorithm/binary_search.hpp>
#include <fcppt/algorithm/equal_range.hpp>
#include <fcppt/algorithm/find_by_opt.hpp>
#include <fcppt/algorithm/find_if_opt.hpp>
#include <fcppt/algorithm/find_opt.hpp>
#include <fcppt/algorithm/index_of.hpp>
#include <fcppt/algorithm/join_strings.hpp>
#include <fcppt/algorithm/map_iteration.hpp>
#include <fcppt/algorithm/map_iteration_second.hpp>
#include <fcppt/algorithm/remove.hpp>
#include <fcppt/algorithm/remove_if.hpp>
#include <fcppt/algorithm/reverse.hpp>
#include <fcppt/algorithm/sequence_iteration.hpp>
#include <fcppt/algorithm/split_string.hpp>
#include <fcppt/algorithm/unique.hpp>
#include <fcppt/algorithm/unique_if.hpp>
#include <fcppt/algorithm/update_action.hpp>
#include <fcppt/optional/object_impl.hpp>

#include <type_traits>
#include <unordered_map>

namespace c16
{
namespace
{
template <class SK, class V> int e2i(V v)
{
  if constexpr (std::is_same_v<SK, k_string>)
    return v - 'a';
  else
    return static_cast<int>(v);
}
template <class SK> auto i2e(int v)
{
  if constexpr (std::is_same_v<SK, k_string>)
    return static_cast<char>('a' + v);
  else
    return v;
}

bool is_prefix(seq const &p, seq const &s)
{
  return p.size() <= s.size() && std::equal(p.begin(), p.end(), s.begin());
}

template <bool Const, class C> decltype(auto) constness(C &c)
{
  if constexpr (Const)
    return std::as_const(c);
  else
    return (c);
}

// ------------------------------------------------------------------ find_opt, find_if_opt, find_by_opt, index_of
template <class SK, bool Const> void check_find()
{
  static std::string const cs = Const ? " const" : "";
  static std::string const n_find = std::string("find_opt(") + SK::name + cs + ")";
  static std::string const n_if = std::string("find_if_opt(") + SK::name + cs + ")";
  static std::string const n_by = std::string("find_by_opt(") + SK::name + cs + ")";
  using C = typename SK::type;
  using want_iterator = std::conditional_t<Const, typename C::const_iterator, typename C::iterator>;
  seq &log = call_log();
  for (seq const &s : seqs3())
  {
    seq const order = SK::order(s);
    std::string const ss = show(s);
    C src = SK::make(s);
    auto const first_index = [&order](auto pred) {
      std::size_t i = 0;
      while (i < order.size() && !pred(order[i]))
        ++i;
      return i;
    };
    for (int v = -1; v <= 3; ++v)
    {
      if (!vrt::begin_text(n_find.c_str(), n_find + " " + ss + " value=" + std::to_string(v)))
        continue;
      std::size_t const idx = first_index([v](int e) { return e == v; });
      vrt::nontrivial(idx > 0 && idx < order.size());
      vrt::maybe_sample();
      auto const r = fcppt::algorithm::find_opt(constness<Const>(src), i2e<SK>(v));
      static_assert(std::is_same_v<std::remove_cvref_t<decltype(r.get_unsafe())>, want_iterator>);
      VRT_CHECK(r.has_value() == (idx < order.size()), n_find + ":presence", "has_value=%d, first index %zu of %zu",
                int(r.has_value()), idx, order.size());
      if (r.has_value() && idx < order.size())
        VRT_CHECK(static_cast<std::size_t>(std::distance(constness<Const>(src).begin(), r.get_unsafe())) == idx,
                  n_find + ":position", "iterator at offset %td want %zu",
                  std::distance(constness<Const>(src).begin(), r.get_unsafe()), idx);
    }
    for (int p = 0; p < 8; ++p)
    {
      if (!vrt::begin_text(n_if.c_str(), n_if + " " + ss + " " + show_pred3(p)))
        continue;
      std::size_t const idx = first_index([p](int e) { return pred3(p, e); });
      vrt::nontrivial(idx > 0 && idx < order.size());
      log.clear();
      auto const r = fcppt::algorithm::find_if_opt(constness<Const>(src), [p, &log](auto e) {
        log.push_back(e2i<SK>(e));
        return pred3(p, e2i<SK>(e));
      });
      static_assert(std::is_same_v<std::remove_cvref_t<decltype(r.get_unsafe())>, want_iterator>);
      VRT_CHECK(r.has_value() == (idx < order.size()), n_if + ":presence", "has_value=%d, first index %zu of %zu",
                int(r.has_value()), idx, order.size());
      if (r.has_value() && idx < order.size())
        VRT_CHECK(static_cast<std::size_t>(std::distance(constness<Const>(src).begin(), r.get_unsafe())) == idx,
                  n_if + ":position", "iterator at offset %td want %zu",
                  std::distance(constness<Const>(src).begin(), r.get_unsafe()), idx);
      VRT_CHECK(is_prefix(log, order) && log.size() >= std::min(idx + 1, order.size()), n_if + ":calls",
                "predicate called with %s on %s", show(log).c_str(), show(order).c_str());
    }
    for (int g = 0; g < 64; ++g)
    {
      if (!vrt::begin_text(n_by.c_str(), n_by + " " + ss + " " + show_opt3(g)))
        continue;
      std::size_t const idx = first_index([g](int e) { return opt3(g, e) >= 0; });
      vrt::nontrivial(idx > 0 && idx < order.size());
      vrt::maybe_sample();
      log.clear();
      fcppt::optional::object<int> const r = fcppt::algorithm::find_by_opt(constness<Const>(src), [g, &log](auto e) {
        int const x = e2i<SK>(e);
        log.push_back(x);
        return opt3(g, x) < 0 ? fcppt::optional::object<int>{} : fcppt::optional::object<int>{10 * x + opt3(g, x)};
      });
      VRT_CHECK(r.has_value() == (idx < order.size()), n_by + ":presence", "has_value=%d, first index %zu of %zu",
                int(r.has_value()), idx, order.size());
      if (r.has_value() && idx < order.size())
        VRT_CHECK(r.get_unsafe() == 10 * order[idx] + opt3(g, order[idx]), n_by + ":value", "got %d want %d",
                  r.get_unsafe(), 10 * order[idx] + opt3(g, order[idx]));
      // "returns the first element ...": elements are tried in order, at least up to the hit
      VRT_CHECK(is_prefix(log, order) && log.size() >= std::min(idx + 1, order.size()), n_by + ":calls",
                "function called with %s on %s", show(log).c_str(), show(order).c_str());
      vrt::count("find_by_opt:calls_after_hit", log.size() - std::min(idx + 1, order.size()));
    }
  }
}

// find_* on ranges without size(), one per iterator category; the single-pass one can only be looked at through the
// returned iterator (dereference), the others also by position
template <class SK> void check_find_unsized()
{
  static std::string const n_find = std::string("find_opt(") + SK::name + ")";
  static std::string const n_if = std::string("find_if_opt(") + SK::name + ")";
  static std::string const n_by = std::string("find_by_opt(") + SK::name + ")";
  constexpr bool sp = std::is_same_v<SK, k_single_pass>;
  seq &log = call_log();
  for (seq const &s : seqs3())
  {
    std::string const ss = show(s);
    auto const first_index = [&s](auto pred) {
      std::size_t i = 0;
      while (i < s.size() && !pred(s[i]))
        ++i;
      return i;
    };
    for (int v = -1; v <= 3; ++v)
    {
      if (!vrt::begin_text(n_find.c_str(), n_find + " " + ss + " value=" + std::to_string(v)))
        continue;
      std::size_t const idx = first_index([v](int e) { return e == v; });
      vrt::nontrivial(idx > 0 && idx < s.size());
      typename SK::type const src = SK::make(s);
      auto const r = fcppt::algorithm::find_opt(src, v);
      consumed_once<SK>(src, n_find);
      VRT_CHECK(r.has_value() == (idx < s.size()), n_find + ":presence", "has_value=%d, first index %zu of %zu",
                int(r.has_value()), idx, s.size());
      if (r.has_value() && idx < s.size())
      {
        VRT_CHECK(*r.get_unsafe() == v, n_find + ":element", "iterator refers to %d", *r.get_unsafe());
        if constexpr (!sp)
          VRT_CHECK(static_cast<std::size_t>(std::distance(src.begin(), r.get_unsafe())) == idx, n_find + ":position",
                    "offset %td want %zu", std::distance(src.begin(), r.get_unsafe()), idx);
      }
    }
    for (int p = 0; p < 8; ++p)
    {
      if (!vrt::begin_text(n_if.c_str(), n_if + " " + ss + " " + show_pred3(p)))
        continue;
      std::size_t const idx = first_index([p](int e) { return pred3(p, e); });
      vrt::nontrivial(idx > 0 && idx < s.size());
      vrt::maybe_sample();
      typename SK::type const src = SK::make(s);
      log.clear();
      auto const r = fcppt::algorithm::find_if_opt(src, [p, &log](int e) {
        log.push_back(e);
        return pred3(p, e);
      });
      consumed_once<SK>(src, n_if);
      VRT_CHECK(r.has_value() == (idx < s.size()), n_if + ":presence", "has_value=%d, first index %zu of %zu",
                int(r.has_value()), idx, s.size());
      if (r.has_value() && idx < s.size())
        VRT_CHECK(*r.get_unsafe() == s[idx], n_if + ":element", "iterator refers to %d", *r.get_unsafe());
      VRT_CHECK(is_prefix(log, s) && log.size() >= std::min(idx + 1, s.size()), n_if + ":calls",
                "predicate called with %s on %s", show(log).c_str(), ss.c_str());
    }
    for (int g = 0; g < 64; ++g)
    {
      if (!vrt::begin_text(n_by.c_str(), n_by + " " + ss + " " + show_opt3(g)))
        continue;
      std::size_t const idx = first_index([g](int e) { return opt3(g, e) >= 0; });
      vrt::nontrivial(idx > 0 && idx < s.size());
      typename SK::type const src = SK::make(s);
      log.clear();
      fcppt::optional::object<int> const r = fcppt::algorithm::find_by_opt(src, [g, &log](int x) {
        log.push_back(x);
        return opt3(g, x) < 0 ? fcppt::optional::object<int>{} : fcppt::optional::object<int>{10 * x + opt3(g, x)};
      });
      consumed_once<SK>(src, n_by);
      int const want = idx < s.size() ? 10 * s[idx] + opt3(g, s[idx]) : -1;
      VRT_CHECK((r.has_value() ? r.get_unsafe() : -1) == want, n_by + ":wrong", "got %d want %d (-1 = nothing)",
                r.has_value() ? r.get_unsafe() : -1, want);
      VRT_CHECK(is_prefix(log, s) && log.size() >= std::min(idx + 1, s.size()), n_by + ":calls",
                "function called with %s on %s", show(log).c_str(), ss.c_str());
    }
  }
}

template <class SK> void check_index_of()
{
  static std::string const name = std::string("index_of(") + SK::name + ")";
  for (seq const &s : seqs3())
  {
    typename SK::type const src = SK::make(s);
    for (int v = -1; v <= 3; ++v)
    {
      if (!vrt::begin_text(name.c_str(), name + " " + show(s) + " value=" + std::to_string(v)))
        continue;
      std::size_t idx = 0;
      while (idx < s.size() && s[idx] != v)
        ++idx;
      vrt::nontrivial(idx > 0 && idx < s.size());
      vrt::maybe_sample();
      fcppt::optional::object<typename SK::type::size_type> const r = fcppt::algorithm::index_of(src, i2e<SK>(v));
      if (idx == s.size())
        VRT_CHECK(!r.has_value(), name + ":spurious", "absent value found at %zu",
                  static_cast<std::size_t>(r.has_value() ? r.get_unsafe() : 0));
      else
        VRT_CHECK(r.has_value() && r.get_unsafe() == idx, name + ":wrong", "got %ld want %zu",
                  r.has_value() ? static_cast<long>(r.get_unsafe()) : -1L, idx);
    }
  }
}

// ------------------------------------------------------------------ equal_range, binary_search
// elements are 2x (0,2,4) so that searched values -1..5 also fall between and outside the elements. The std
// precondition (the range is partitioned with respect to e<v and !(v<e)) holds for every sorted sequence and for
// some unsorted ones; both kinds are enumerated, cases violating it are skipped.
template <class SK, bool Const> void check_search()
{
  static std::string const cs = Const ? " const" : "";
  static std::string const n_eq = std::string("equal_range(") + SK::name + cs + ")";
  static std::string const n_bs = std::string("binary_search(") + SK::name + cs + ")";
  using C = typename SK::type;
  using want_iterator = std::conditional_t<Const, typename C::const_iterator, typename C::iterator>;
  for (seq const &s : seqs3())
  {
    seq elems;
    for (int x : s)
      elems.push_back(2 * x);
    seq const order = SK::order(elems);
    bool const is_sorted = std::is_sorted(order.begin(), order.end());
    C src = SK::make(elems);
    for (int v = -1; v <= 5; ++v)
    {
      std::size_t lower = 0, upper = 0;
      bool part = true, seen_ge = false, seen_gt = false;
      for (int e : order)
      {
        if (e < v)
        {
          ++lower;
          part = part && !seen_ge;
        }
        else
          seen_ge = true;
        if (!(v < e))
        {
          ++upper;
          part = part && !seen_gt;
        }
        else
          seen_gt = true;
      }
      if (!part)
      {
        vrt::count("search:precondition_skipped");
        continue;
      }
      std::string const descr = " " + show(order) + " value=" + std::to_string(v);
      if (vrt::begin_text(n_eq.c_str(), n_eq + descr))
      {
        vrt::nontrivial(upper - lower >= 2 || !is_sorted);
        vrt::maybe_sample();
        auto const r = fcppt::algorithm::equal_range(constness<Const>(src), v);
        static_assert(std::is_same_v<std::remove_cvref_t<decltype(r.begin())>, want_iterator>);
        auto const b = constness<Const>(src).begin();
        VRT_CHECK(static_cast<std::size_t>(std::distance(b, r.begin())) == lower &&
                      static_cast<std::size_t>(std::distance(b, r.end())) == upper,
                  n_eq + ":wrong", "got [%td,%td) want [%zu,%zu)", std::distance(b, r.begin()), std::distance(b, r.end()),
                  lower, upper);
      }
      if (vrt::begin_text(n_bs.c_str(), n_bs + descr))
      {
        vrt::nontrivial(upper - lower >= 2 || !is_sorted);
        auto const r = fcppt::algorithm::binary_search(constness<Const>(src), v);
        static_assert(std::is_same_v<std::remove_cvref_t<decltype(r.get_unsafe())>, want_iterator>);
        // documented: an iterator iff exactly one element is equivalent to the value
        if (upper - lower == 1)
        {
          VRT_CHECK(r.has_value(), n_bs + ":missing", "single occurrence at %zu not found", lower);
          if (r.has_value())
            VRT_CHECK(static_cast<std::size_t>(std::distance(constness<Const>(src).begin(), r.get_unsafe())) == lower,
                      n_bs + ":position", "offset %td want %zu",
                      std::distance(constness<Const>(src).begin(), r.get_unsafe()), lower);
        }
        else
          VRT_CHECK(!r.has_value(), n_bs + ":spurious", "%zu occurrences, yet an iterator was returned", upper - lower);
      }
    }
  }
}

// ------------------------------------------------------------------ remove, remove_if, unique, unique_if, reverse
template <class SK> void check_remove()
{
  static std::string const n_rif = std::string("remove_if(") + SK::name + ")";
  static std::string const n_rem = std::string("remove(") + SK::name + ")";
  for (seq const &s : seqs3())
  {
    std::string const ss = show(s);
    for (int p = 0; p < 8; ++p)
    {
      if (!vrt::begin_text(n_rif.c_str(), n_rif + " " + ss + " " + show_pred3(p)))
        continue;
      seq want;
      for (int e : s)
        if (!pred3(p, e))
          want.push_back(e);
      vrt::nontrivial(!want.empty() && want.size() < s.size());
      vrt::maybe_sample();
      typename SK::type c = SK::make(s);
      bool const r = fcppt::algorithm::remove_if(c, [p](auto e) { return pred3(p, e2i<SK>(e)); });
      seq const got = contents(c);
      VRT_CHECK(got == want, n_rif + ":wrong", "container is %s want %s", show(got).c_str(), show(want).c_str());
      VRT_CHECK(r == (want.size() != s.size()), n_rif + ":result", "returned %d, %zu of %zu elements removed", int(r),
                s.size() - want.size(), s.size());
    }
    for (int v = -1; v <= 3; ++v)
    {
      if (!vrt::begin_text(n_rem.c_str(), n_rem + " " + ss + " value=" + std::to_string(v)))
        continue;
      seq want;
      for (int e : s)
        if (e != v)
          want.push_back(e);
      vrt::nontrivial(!want.empty() && want.size() < s.size());
      typename SK::type c = SK::make(s);
      bool const r = fcppt::algorithm::remove(c, i2e<SK>(v));
      seq const got = contents(c);
      VRT_CHECK(got == want, n_rem + ":wrong", "container is %s want %s", show(got).c_str(), show(want).c_str());
      VRT_CHECK(r == (want.size() != s.size()), n_rem + ":result", "returned %d, %zu of %zu elements removed", int(r),
                s.size() - want.size(), s.size());
    }
  }
}

// remove(c, element of c): the value to remove is passed as a reference into the container itself
template <class SK> void check_remove_alias()
{
  static std::string const name = std::string("remove(") + SK::name + ", alias)";
  for (seq const &s : seqs3())
    for (std::size_t i = 0; i < s.size(); ++i)
    {
      if (!vrt::begin_text(name.c_str(), name + " " + show(s) + " value=element[" + std::to_string(i) + "]"))
        continue;
      seq want;
      for (int e : s)
        if (e != s[i])
          want.push_back(e);
      vrt::nontrivial(!want.empty() && s.size() - want.size() >= 2);
      typename SK::type c = SK::make(s);
      bool const r = fcppt::algorithm::remove(c, *std::next(c.begin(), static_cast<std::ptrdiff_t>(i)));
      seq const got = contents(c);
      VRT_CHECK(got == want, name + ":wrong", "container is %s want %s", show(got).c_str(), show(want).c_str());
      VRT_CHECK(r, name + ":result", "returned false although element %zu was in the container", i);
    }
}

// the five equivalence relations on {0,1,2} (std::unique requires an equivalence relation)
int const eq_class[5][3] = {{0, 1, 2}, {0, 0, 1}, {0, 1, 0}, {0, 1, 1}, {0, 0, 0}};
char const *const eq_name[5] = {"{0}{1}{2}", "{01}{2}", "{02}{1}", "{0}{12}", "{012}"};

template <class SK> void check_unique()
{
  static std::string const n_u = std::string("unique(") + SK::name + ")";
  static std::string const n_uif = std::string("unique_if(") + SK::name + ")";
  for (seq const &s : seqs3())
  {
    std::string const ss = show(s);
    for (int q = 0; q < 6; ++q) // q == 5: unique (operator==)
    {
      int const rel = q == 5 ? 0 : q;
      std::string const &name = q == 5 ? n_u : n_uif;
      if (!vrt::begin_text(name.c_str(), name + " " + ss + (q == 5 ? std::string() : std::string(" classes=") + eq_name[q])))
        continue;
      // reference: the first element of every maximal run of equivalent neighbours
      seq want;
      for (std::size_t i = 0; i < s.size(); ++i)
        if (i == 0 || eq_class[rel][s[i]] != eq_class[rel][s[i - 1]])
          want.push_back(s[i]);
      vrt::nontrivial(want.size() < s.size() && want.size() >= 2);
      vrt::maybe_sample();
      typename SK::type c = SK::make(s);
      if (q == 5)
        fcppt::algorithm::unique(c);
      else
        fcppt::algorithm::unique_if(
            c, [rel](auto a, auto b) { return eq_class[rel][e2i<SK>(a)] == eq_class[rel][e2i<SK>(b)]; });
      seq const got = contents(c);
      VRT_CHECK(got == want, name + ":wrong", "container is %s want %s", show(got).c_str(), show(want).c_str());
    }
  }
}

template <class SK> void check_reverse()
{
  static std::string const name = std::string("reverse(") + SK::name + ")";
  for (seq const &s : seqs3())
    for (int rv = 0; rv < 2; ++rv)
    {
      if (!vrt::begin_text(name.c_str(), name + " " + show(s) + (rv ? " rvalue" : " const lvalue")))
        continue;
      vrt::nontrivial(s.size() >= 2);
      seq want;
      for (std::size_t i = s.size(); i-- > 0;)
        want.push_back(s[i]);
      typename SK::type c = SK::make(s);
      typename SK::type const r = rv ? fcppt::algorithm::reverse(std::move(c)) : fcppt::algorithm::reverse(std::as_const(c));
      seq const got = contents(r);
      VRT_CHECK(got == want, name + ":wrong", "got %s want %s", show(got).c_str(), show(want).c_str());
      if (!rv)
        VRT_CHECK(contents(c) == s, name + ":source_changed", "source is now %s", show(contents(c)).c_str());
    }
}

// ------------------------------------------------------------------ split_string, join_strings
template <class String> std::vector<String> ref_split(String const &s, typename String::value_type d)
{
  // documented: with p_1<...<p_m the positions of the delimiter, the m+1 pieces between them (m == 0: the string itself)
  std::vector<String> out;
  String cur;
  for (auto c : s)
  {
    if (c == d)
    {
      out.push_back(cur);
      cur = String();
    }
    else
      cur.push_back(c);
  }
  out.push_back(cur);
  return out;
}

void check_split_string()
{
  static std::string const n_split = "split_string<string>";
  static std::string const n_inv = "join_strings(split_string)";
  for (std::string const &s : all_strings("ab#", str_max_len()))
    for (char d : {'#', 'a', 'x'})
    {
      std::vector<std::string> const want = ref_split(s, d);
      std::string const descr = " " + show(s) + " delim='" + d + "'";
      if (vrt::begin_text(n_split.c_str(), n_split + descr))
      {
        vrt::nontrivial(want.size() >= 2);
        vrt::maybe_sample();
        std::vector<std::string> const got = fcppt::algorithm::split_string(s, d);
        VRT_CHECK(got == want, n_split + ":wrong", "got %s want %s", show(got).c_str(), show(want).c_str());
      }
      if (vrt::begin_text(n_inv.c_str(), n_inv + descr))
      {
        vrt::nontrivial(want.size() >= 2);
        std::string const back = fcppt::algorithm::join_strings(fcppt::algorithm::split_string(s, d), std::string(1, d));
        VRT_CHECK(back == s, n_inv + ":not_inverse", "join(split(s)) = %s", show(back).c_str());
      }
    }
}

void check_split_other()
{
  static std::string const n_w = "split_string<wstring>";
  static std::string const n_v = "split_string<vector<int>>";
  for (std::string const &s : all_strings("ab#", str_max_len() - 1))
  {
    if (!vrt::begin_text(n_w.c_str(), n_w + " " + show(s) + " delim='#'"))
      continue;
    std::wstring const w(s.begin(), s.end());
    std::vector<std::wstring> const want = ref_split(w, L'#');
    vrt::nontrivial(want.size() >= 2);
    std::vector<std::wstring> const got = fcppt::algorithm::split_string(w, L'#');
    VRT_CHECK(got == want, n_w + ":wrong", "%zu pieces, want %zu", got.size(), want.size());
    std::wstring const back = fcppt::algorithm::join_strings(got, std::wstring(1, L'#'));
    VRT_CHECK(back == w, n_w + ":not_inverse", "join(split(s)) differs, length %zu", back.size());
  }
  for (seq const &s : seqs3())
    for (int d = 0; d <= 3; ++d)
    {
      if (!vrt::begin_text(n_v.c_str(), n_v + " " + show(s) + " delim=" + std::to_string(d)))
        continue;
      std::vector<seq> const want = ref_split(s, d);
      vrt::nontrivial(want.size() >= 2);
      std::vector<seq> const got = fcppt::algorithm::split_string(s, d);
      VRT_CHECK(got == want, n_v + ":wrong", "%zu pieces, want %zu", got.size(), want.size());
    }
}

template <class Range> void check_join_strings(char const *rn)
{
  static std::string const name = std::string("join_strings(") + rn + ")";
  std::vector<std::string> const pool = all_strings("a#", 2); // 7 strings, the empty one included
  int const np = static_cast<int>(pool.size());
  int const maxk = vrt::thorough() ? 4 : 3;
  std::vector<std::vector<std::string>> lists;
  lists.push_back({});
  std::size_t from = 0;
  for (int k = 1; k <= maxk; ++k)
  {
    std::size_t const to = lists.size();
    for (std::size_t i = from; i < to; ++i)
      for (int j = 0; j < np; ++j)
      {
        auto l = lists[i];
        l.push_back(pool[static_cast<std::size_t>(j)]);
        lists.push_back(l);
      }
    from = to;
  }
  for (auto const &l : lists)
    for (std::string const delim : {"", "#", ", ", "a#"})
    {
      if (!vrt::begin_text(name.c_str(), name + " " + show(l) + " delim=" + show(delim)))
        continue;
      vrt::nontrivial(l.size() >= 2);
      vrt::maybe_sample();
      std::string want;
      for (std::size_t i = 0; i < l.size(); ++i)
      {
        want += l[i];
        if (i + 1 < l.size())
          want += delim;
      }
      Range const src(l.begin(), l.end());
      std::string const got = fcppt::algorithm::join_strings(src, delim);
      VRT_CHECK(got == want, name + ":wrong", "got %s want %s", show(got).c_str(), show(want).c_str());
    }
}

// ------------------------------------------------------------------ map_iteration, map_iteration_second
// removal rules: (a) remove iff pred(value), 8 predicates; (b) remove iff bit rank(key) of a mask is set, all 2^|m| masks
template <class M, bool Ordered> void check_map_iteration(char const *mn)
{
  static std::string const n_it = std::string("map_iteration(") + mn + ")";
  static std::string const n_sec = std::string("map_iteration_second(") + mn + ")";
  using fcppt::algorithm::update_action;
  seq &log = call_log();
  for (auto const &m : all_maps(map_keys()))
  {
    std::string const ms = show(m);
    std::vector<std::pair<int, int>> const entries(m.begin(), m.end());
    int const n = static_cast<int>(entries.size());
    for (int rule = 0; rule < 8 + (1 << n); ++rule)
    {
      bool const by_pred = rule < 8;
      int const mask = rule - 8;
      std::string const rs = by_pred ? "remove_if " + show_pred3(rule) : "remove_key_ranks=" + [&] {
        std::string r = "{";
        for (int i = 0; i < n; ++i)
          if ((mask >> i) & 1)
            r += std::to_string(entries[static_cast<std::size_t>(i)].first);
        return r + "}";
      }();
      auto const removes = [&](int key, int value) {
        if (by_pred)
          return pred3(rule, value);
        int rank = 0;
        for (auto const &e : entries)
          if (e.first < key)
            ++rank;
        return ((mask >> rank) & 1) != 0;
      };
      std::map<int, int> want;
      seq want_log;
      for (auto const &e : entries)
      {
        want_log.push_back(e.first * 10 + e.second);
        if (!removes(e.first, e.second))
          want[e.first] = e.second;
      }
      bool const last_removed = n > 0 && removes(entries.back().first, entries.back().second);
      if (vrt::begin_text(n_it.c_str(), n_it + " " + ms + " " + rs))
      {
        vrt::nontrivial(want.size() < m.size() && n >= 2);
        if (last_removed)
          vrt::count("map_iteration:last_element_erased");
        vrt::maybe_sample();
        M c(m.begin(), m.end());
        log.clear();
        fcppt::algorithm::map_iteration(c, [&](typename M::value_type const &e) {
          log.push_back(e.first * 10 + e.second);
          return removes(e.first, e.second) ? update_action::remove : update_action::keep;
        });
        seq got_log = log;
        if (!Ordered)
          std::sort(got_log.begin(), got_log.end());
        VRT_CHECK(got_log == want_log, n_it + ":visits", "visited %s want %s", show(log).c_str(), show(want_log).c_str());
        std::map<int, int> const got(c.begin(), c.end());
        VRT_CHECK(got == want && c.size() == want.size(), n_it + ":wrong", "map is %s want %s", show(got).c_str(),
                  show(want).c_str());
      }
      // (for unordered maps the call order says nothing about the key: predicate rules only)
      if ((Ordered || by_pred) && vrt::begin_text(n_sec.c_str(), n_sec + " " + ms + " " + rs + " value+=10"))
      {
        vrt::nontrivial(want.size() < m.size() && n >= 2);
        M c(m.begin(), m.end());
        // the action sees the mapped object only; keys are recovered from the call order for ordered maps
        std::size_t call = 0;
        seq seen_values;
        fcppt::algorithm::map_iteration_second(c, [&](int &value) {
          seen_values.push_back(value);
          bool const rem = by_pred ? pred3(rule, value) : ((mask >> call) & 1) != 0;
          ++call;
          value += 10;
          return rem ? update_action::remove : update_action::keep;
        });
        std::map<int, int> want2;
        seq want_values;
        for (auto const &e : entries)
        {
          want_values.push_back(e.second);
          if (!removes(e.first, e.second))
            want2[e.first] = e.second + 10;
        }
        if (!Ordered)
        {
          std::sort(seen_values.begin(), seen_values.end());
          std::sort(want_values.begin(), want_values.end());
        }
        VRT_CHECK(seen_values == want_values, n_sec + ":visits", "saw values %s want %s", show(seen_values).c_str(),
                  show(want_values).c_str());
        std::map<int, int> const got(c.begin(), c.end());
        VRT_CHECK(got == want2 && c.size() == want2.size(), n_sec + ":wrong", "map is %s want %s", show(got).c_str(),
                  show(want2).c_str());
      }
    }
  }
}

// map_iteration on a std::set (the documentation says "map-like": begin/end/erase(iterator))
void check_set_iteration()
{
  static std::string const name = "map_iteration(std::set)";
  using fcppt::algorithm::update_action;
  seq &log = call_log();
  int const nk = map_keys() + 1;
  for (int bits = 0; bits < (1 << nk); ++bits)
  {
    seq keys;
    for (int k = 0; k < nk; ++k)
      if ((bits >> k) & 1)
        keys.push_back(k);
    int const n = static_cast<int>(keys.size());
    for (int mask = 0; mask < (1 << n); ++mask)
    {
      seq want, removed;
      for (int i = 0; i < n; ++i)
        ((mask >> i) & 1 ? removed : want).push_back(keys[static_cast<std::size_t>(i)]);
      if (!vrt::begin_text(name.c_str(), name + " " + show(keys) + " remove=" + show(removed)))
        continue;
      vrt::nontrivial(!removed.empty() && n >= 2);
      std::set<int> c(keys.begin(), keys.end());
      log.clear();
      fcppt::algorithm::map_iteration(c, [&](int const &k) {
        log.push_back(k);
        return std::find(removed.begin(), removed.end(), k) != removed.end() ? update_action::remove : update_action::keep;
      });
      VRT_CHECK(log == keys, name + ":visits", "visited %s want %s", show(log).c_str(), show(keys).c_str());
      VRT_CHECK(contents(c) == want, name + ":wrong", "set is %s want %s", show(contents(c)).c_str(), show(want).c_str());
    }
  }
}

// ------------------------------------------------------------------ sequence_iteration
template <class SK> void check_sequence_iteration()
{
  static std::string const name = std::string("sequence_iteration(") + SK::name + ")";
  using fcppt::algorithm::update_action;
  seq &log = call_log();
  for (seq const &s : seqs3())
  {
    std::string const ss = show(s);
    int const n = static_cast<int>(s.size());
    for (int rule = 0; rule < 8 + (1 << n); ++rule)
    {
      bool const by_pred = rule < 8;
      int const mask = rule - 8;
      std::string rs;
      if (by_pred)
        rs = "remove_if " + show_pred3(rule);
      else
      {
        rs = "remove_calls={";
        for (int i = 0; i < n; ++i)
          if ((mask >> i) & 1)
            rs += std::to_string(i);
        rs += "}";
      }
      if (!vrt::begin_text(name.c_str(), name + " " + ss + " " + rs))
        continue;
      seq want;
      for (int i = 0; i < n; ++i)
        if (!(by_pred ? pred3(rule, s[static_cast<std::size_t>(i)]) : ((mask >> i) & 1) != 0))
          want.push_back(s[static_cast<std::size_t>(i)]);
      vrt::nontrivial(want.size() < s.size() && n >= 2);
      vrt::maybe_sample();
      typename SK::type c = SK::make(s);
      log.clear();
      fcppt::algorithm::sequence_iteration(c, [&](int const &e) {
        bool const rem = by_pred ? pred3(rule, e) : ((mask >> log.size()) & 1) != 0;
        log.push_back(e);
        return rem ? update_action::remove : update_action::keep;
      });
      // every element is visited exactly once, in order, also after removals
      VRT_CHECK(log == s, name + ":visits", "visited %s want %s", show(log).c_str(), ss.c_str());
      seq const got = contents(c);
      VRT_CHECK(got == want, name + ":wrong", "container is %s want %s", show(got).c_str(), show(want).c_str());
    }
  }
}
}

void register_algorithm2_shards()
{
  c16::shard("find/vector", [] {
    check_find<k_vector, false>();
    check_find<k_vector, true>();
  });
  c16::shard("find/list_deque", [] {
    check_find<k_list, false>();
    check_find<k_deque, true>();
    check_find<k_string, true>();
  });
  c16::shard("find/assoc", [] {
    check_find<k_set, true>();
    check_find<k_multiset, false>();
  });
  c16::shard("categories/find", [] {
    check_find_unsized<k_single_pass>();
    check_find_unsized<k_fwd_unsized>();
    check_find_unsized<k_bidi_unsized>();
    check_find_unsized<k_ra_unsized>();
  });
  c16::shard("index_of", [] {
    check_index_of<k_vector>();
    check_index_of<k_deque>();
    check_index_of<k_string>();
  });
  c16::shard("search/random_access", [] {
    check_search<k_vector, false>();
    check_search<k_vector, true>();
    check_search<k_deque, false>();
  });
  c16::shard("search/node_based", [] {
    check_search<k_list, true>();
    check_search<k_set, true>();
    check_search<k_multiset, false>();
  });
  c16::shard("remove", [] {
    check_remove<k_vector>();
    check_remove<k_deque>();
    check_remove<k_list>();
    check_remove<k_string>();
    check_remove_alias<k_vector>();
    check_remove_alias<k_deque>();
    check_remove_alias<k_list>();
  });
  c16::shard("unique_reverse", [] {
    check_unique<k_vector>();
    check_unique<k_deque>();
    check_unique<k_list>();
    check_unique<k_string>();
    check_reverse<k_vector>();
    check_reverse<k_deque>();
    check_reverse<k_list>();
    check_reverse<k_string>();
  });
  c16::shard("split_string", [] { check_split_string(); });
  c16::shard("split_other_join_strings", [] {
    check_split_other();
    check_join_strings<std::vector<std::string>>("vector");
    check_join_strings<std::list<std::string>>("list");
    check_join_strings<std::deque<std::string>>("deque");
  });
  c16::shard("map_iteration/map", [] { check_map_iteration<std::map<int, int>, true>("std::map"); });
  c16::shard("map_iteration/unordered_map", [] { check_map_iteration<std::unordered_map<int, int>, false>("std::unordered_map"); });
  c16::shard("map_iteration/set", [] { check_set_iteration(); });
  c16::shard("sequence_iteration/vector", [] { check_sequence_iteration<k_vector>(); });
  c16::shard("sequence_iteration/list", [] { check_sequence_iteration<k_list>(); });
  c16::shard("sequence_iteration/deque", [] { check_sequence_iteration<k_deque>(); });
}
}

// C14_narrow_mixed_a.cpp -- mixed narrow Left/Right scalar types (see C14_narrow.hpp)
#include "C14_narrow.hpp"

namespace c14
{
using namespace narrow;

void register_narrow_mixed_a()
{
  // mixed Left/Right scalar types (all of these compile on the unchanged tree; see C14_probe_mixed.cpp)
  vrt::shard("narrow/mixed/i8_i16", [] {
    type_pair_small<i8, i16>();
    type_pair_small<i16, i8>();
  });
  vrt::shard("narrow/mixed/u8_i8", [] {
    type_pair_small<u8, i8>();
    type_pair_small<i8, u8>();
  });
}
}

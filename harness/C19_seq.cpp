// C19 (sequential part) -- log levels follow "latest setting on a prefix wins".
// Engine H: BFS over histories of context::set / log-object creation / destruction on a
// real fcppt::log::context; after every step context::get for every location of the
// alphabet, level()/enabled() of every object and the emitted text are compared with the
// reference of DESIGN.md appendix C.
//
// Canonical state: the set of tree nodes that exist (the implementation creates nodes on
// set and on object creation; existence is not observable if the code is right, but keeping
// it in the key only refines the partition), the reference level of every existing node,
// and the path/formatter of every object slot.
#include <hist.hpp>

#include <fcppt/make_ref.hpp>
#include <fcppt/string.hpp>
#include <fcppt/text.hpp>
#include <fcppt/enum/array_init.hpp>
#include <fcppt/log/context.hpp>
#include <fcppt/log/level.hpp>
#include <fcppt/log/level_stream.hpp>
#include <fcppt/log/level_stream_array.hpp>
#include <fcppt/log/level_to_string.hpp>
#include <fcppt/log/location.hpp>
#include <fcppt/log/name.hpp>
#include <fcppt/log/object.hpp>
#include <fcppt/log/optional_level.hpp>
#include <fcppt/log/out.hpp>
#include <fcppt/log/parameters.hpp>
#include <fcppt/log/format/default_level.hpp>
#include <fcppt/log/format/function.hpp>
#include <fcppt/log/format/optional_function.hpp>
#include <fcppt/optional/object_impl.hpp>
#include <fcppt/optional/comparison.hpp>

#include <map>
#include <memory>
#include <set>
#include <sstream>
#include <vector>

using vrt::hist::op;
namespace flog = fcppt::log;

using path = std::vector<int>; // name indices

static std::vector<std::string> NAMES = {"a", "b"};
static bool PLAIN_STREAMS = false; // level streams without a formatter of their own
static std::vector<path> NODES; // prefix-closed alphabet of tree nodes (root = {})
static int NOBJ = 2;

// levels used by the alphabet: 0 = debug, 1 = error, 2 = nothing; the root starts at warning
static flog::optional_level lvl_of(int code)
{
  switch (code)
  {
  case 0: return flog::optional_level{flog::level::debug};
  case 1: return flog::optional_level{flog::level::error};
  case 3: return flog::optional_level{flog::level::warning};
  default: return flog::optional_level{};
  }
}
static std::string lstr(flog::level l) { return std::string(flog::level_to_string(l)); }
static std::string lvl_name(flog::optional_level const &l)
{
  return l.has_value() ? lstr(l.get_unsafe()) : std::string("none");
}

static flog::location to_location(path const &p)
{
  flog::location loc;
  for (int n : p)
    loc /= flog::name{NAMES[static_cast<std::size_t>(n)]};
  return loc;
}
static std::string show_path(path const &p)
{
  std::string s = "/";
  for (int n : p)
    s += NAMES[static_cast<std::size_t>(n)] + "/";
  return s;
}
static int node_index(path const &p)
{
  for (std::size_t i = 0; i < NODES.size(); ++i)
    if (NODES[i] == p)
      return static_cast<int>(i);
  return -1;
}
static bool is_prefix(path const &a, path const &b)
{
  return a.size() <= b.size() && std::equal(a.begin(), a.end(), b.begin());
}

enum kind
{
  SET = 1,     // a=node index b=level code
  CREATE_AT,   // a=parent node index b=name c=slot d=formatter(0/1)   object(context, location, params)
  CREATE_ROOT, // b=name c=slot                                         object(context, params)
  CREATE_CHILD, // a=parent slot b=name c=slot                          object(parent object, params)
  DESTROY,     // c=slot
  KIND_END
};

struct log_sys
{
  std::ostringstream sink;
  std::unique_ptr<flog::context> ctx;
  std::vector<std::unique_ptr<flog::object>> objs;
  // reference (appendix C): list of (prefix, level) in call order
  std::vector<std::pair<path, int>> sets;
  std::set<path> exists; // nodes the implementation has created (refinement of the key only)
  std::vector<path> objpath;
  std::vector<int> objfmt;
  std::vector<char> objlive;

  log_sys()
  {
    ctx = std::make_unique<flog::context>(
        lvl_of(3), fcppt::enum_::array_init<flog::level_stream_array>([this](flog::level const l) {
          return flog::level_stream(sink, PLAIN_STREAMS ? flog::format::optional_function{} : flog::format::optional_function(flog::format::default_level(l)));
        }));
    objs.resize(static_cast<std::size_t>(NOBJ));
    objpath.resize(static_cast<std::size_t>(NOBJ));
    objfmt.assign(static_cast<std::size_t>(NOBJ), 0);
    objlive.assign(static_cast<std::size_t>(NOBJ), 0);
    exists.insert(path{});
  }
  ~log_sys()
  {
    for (auto &o : objs)
      o.reset();
    ctx.reset();
  }

  int lookup(path const &p) const
  {
    int r = 3; // root default: warning
    for (auto const &s : sets)
      if (is_prefix(s.first, p))
        r = s.second;
    return r;
  }
  void touch(path const &p)
  {
    for (std::size_t n = 0; n <= p.size(); ++n)
      exists.insert(path(p.begin(), p.begin() + static_cast<std::ptrdiff_t>(n)));
  }
  int free_slot() const
  {
    for (int i = 0; i < NOBJ; ++i)
      if (!objlive[static_cast<std::size_t>(i)])
        return i;
    return -1;
  }

  std::vector<op> enabled() const
  {
    std::vector<op> r;
    for (int n = 0; n < static_cast<int>(NODES.size()); ++n)
      for (int l = 0; l < 3; ++l)
        r.push_back(op{SET, n, l, 0, 0});
    int const fs = free_slot();
    if (fs >= 0)
    {
      for (int n = 0; n < static_cast<int>(NODES.size()); ++n)
        for (int nm = 0; nm < static_cast<int>(NAMES.size()); ++nm)
        {
          path child = NODES[static_cast<std::size_t>(n)];
          child.push_back(nm);
          if (node_index(child) < 0)
            continue;
          r.push_back(op{CREATE_AT, n, nm, fs, fs % 2});
          if (n == 0)
            r.push_back(op{CREATE_ROOT, 0, nm, fs, fs % 2});
        }
      for (int s = 0; s < NOBJ; ++s)
        if (objlive[static_cast<std::size_t>(s)])
          for (int nm = 0; nm < static_cast<int>(NAMES.size()); ++nm)
          {
            path child = objpath[static_cast<std::size_t>(s)];
            child.push_back(nm);
            if (node_index(child) >= 0)
              r.push_back(op{CREATE_CHILD, s, nm, fs, fs % 2});
          }
    }
    for (int s = 0; s < NOBJ; ++s)
      if (objlive[static_cast<std::size_t>(s)])
        r.push_back(op{DESTROY, 0, 0, s, 0});
    return r;
  }

  static std::string show(op const &o)
  {
    switch (o.k)
    {
    case SET: return "set(" + show_path(NODES[static_cast<std::size_t>(o.a)]) + "," + lvl_name(lvl_of(o.b)) + ")";
    case CREATE_AT:
      return "obj" + std::to_string(o.c) + "=object(ctx," + show_path(NODES[static_cast<std::size_t>(o.a)]) + ",name " + NAMES[static_cast<std::size_t>(o.b)] + ")";
    case CREATE_ROOT: return "obj" + std::to_string(o.c) + "=object(ctx,name " + NAMES[static_cast<std::size_t>(o.b)] + ")";
    case CREATE_CHILD:
      return "obj" + std::to_string(o.c) + "=object(obj" + std::to_string(o.a) + ",name " + NAMES[static_cast<std::size_t>(o.b)] + ")";
    case DESTROY: return "destroy obj" + std::to_string(o.c);
    }
    return "?";
  }

  static flog::parameters params(int name, int fmt)
  {
    return flog::parameters(
        flog::name{NAMES[static_cast<std::size_t>(name)]},
        fmt ? flog::format::optional_function(flog::format::function{[](fcppt::string const &s) { return "<" + s + ">"; }})
            : flog::format::optional_function{});
  }

  void apply(op const &o)
  {
    std::size_t const slot = static_cast<std::size_t>(o.c);
    switch (o.k)
    {
    case SET:
      ctx->set(to_location(NODES[static_cast<std::size_t>(o.a)]), lvl_of(o.b));
      sets.emplace_back(NODES[static_cast<std::size_t>(o.a)], o.b);
      touch(NODES[static_cast<std::size_t>(o.a)]);
      break;
    case CREATE_AT:
    {
      path p = NODES[static_cast<std::size_t>(o.a)];
      objs[slot] = std::make_unique<flog::object>(fcppt::make_ref(*ctx), to_location(p), params(o.b, o.d));
      p.push_back(o.b);
      objpath[slot] = p;
      objfmt[slot] = o.d;
      objlive[slot] = 1;
      touch(p);
      break;
    }
    case CREATE_ROOT:
    {
      objs[slot] = std::make_unique<flog::object>(fcppt::make_ref(*ctx), params(o.b, o.d));
      objpath[slot] = path{o.b};
      objfmt[slot] = o.d;
      objlive[slot] = 1;
      touch(objpath[slot]);
      break;
    }
    case CREATE_CHILD:
    {
      path p = objpath[static_cast<std::size_t>(o.a)];
      objs[slot] = std::make_unique<flog::object>(*objs[static_cast<std::size_t>(o.a)], params(o.b, o.d));
      p.push_back(o.b);
      objpath[slot] = p;
      objfmt[slot] = o.d;
      objlive[slot] = 1;
      touch(p);
      break;
    }
    case DESTROY:
      objs[slot].reset();
      objlive[slot] = 0;
      objpath[slot].clear();
      objfmt[slot] = 0;
      break;
    default:
      vrt::fail("harness:bad_op", "unknown op");
    }
  }

  void check()
  {
    // context::get for every location of the alphabet and for one location below each of them
    for (path const &p : NODES)
    {
      flog::optional_level const got = ctx->get(to_location(p));
      flog::optional_level const want = lvl_of(lookup(p));
      VRT_CHECK(got == want, "log:get", "get(%s) = %s, latest set on a prefix gives %s", show_path(p).c_str(), lvl_name(got).c_str(),
                lvl_name(want).c_str());
      flog::location below = to_location(p);
      below /= flog::name{FCPPT_TEXT("zz")};
      flog::optional_level const got2 = ctx->get(below);
      VRT_CHECK(got2 == want, "log:get_below", "get(%szz/) = %s, expected %s", show_path(p).c_str(), lvl_name(got2).c_str(),
                lvl_name(want).c_str());
    }
    for (int s = 0; s < NOBJ; ++s)
    {
      if (!objlive[static_cast<std::size_t>(s)])
        continue;
      flog::object &o = *objs[static_cast<std::size_t>(s)];
      path const &p = objpath[static_cast<std::size_t>(s)];
      flog::optional_level const want = lvl_of(lookup(p));
      VRT_CHECK(o.level() == want, "log:object_level", "object at %s has level %s, expected %s", show_path(p).c_str(),
                lvl_name(o.level()).c_str(), lvl_name(want).c_str());
      for (flog::level l : {flog::level::verbose, flog::level::debug, flog::level::warning, flog::level::error, flog::level::fatal})
      {
        bool const en = want.has_value() && l >= want.get_unsafe();
        VRT_CHECK(o.enabled(l) == en, "log:enabled", "object at %s: enabled(%s) = %d, level is %s", show_path(p).c_str(),
                  lstr(l).c_str(), o.enabled(l) ? 1 : 0, lvl_name(want).c_str());
        sink.str("");
        o.log(l, flog::out << FCPPT_TEXT("m") << 7);
        std::string expect;
        if (en)
        {
          // documented order: the names on the path from the root, unnamed nodes contribute nothing; then what the level
          // stream's own formatter adds (level name and newline for default_level, nothing for a plain stream)
          for (int n : p)
            if (!NAMES[static_cast<std::size_t>(n)].empty())
              expect += NAMES[static_cast<std::size_t>(n)] + ": ";
          expect += PLAIN_STREAMS ? std::string("m7") : lstr(l) + ": m7\n";
          if (objfmt[static_cast<std::size_t>(s)])
            expect = "<" + expect + ">";
        }
        VRT_CHECK(sink.str() == expect, "log:text", "object at %s logged '%s' at %s, expected '%s'", show_path(p).c_str(),
                  sink.str().c_str(), lstr(l).c_str(), expect.c_str());
      }
    }
  }

  std::string canon() const
  {
    std::string r;
    for (path const &p : NODES)
      r += exists.count(p) ? std::to_string(lookup(p)) : std::string("-");
    for (int s = 0; s < NOBJ; ++s)
      r += "|" + (objlive[static_cast<std::size_t>(s)] ? std::to_string(node_index(objpath[static_cast<std::size_t>(s)])) : std::string("x"));
    // levels of locations whose node does not exist yet are determined by their nearest
    // existing ancestor, which is in the key
    return r;
  }
};

static void all_paths(int depth, path cur, std::vector<path> &out)
{
  out.push_back(cur);
  if (static_cast<int>(cur.size()) == depth)
    return;
  for (int n = 0; n < static_cast<int>(NAMES.size()); ++n)
  {
    path c = cur;
    c.push_back(n);
    all_paths(depth, c, out);
  }
}

int main(int argc, char **argv)
{
  vrt::parse_args(argc, argv);
  bool const th = vrt::thorough();
  vrt::shard("log_seq_wide", [th] {
    NAMES = {"a", "b"};
    NODES.clear();
    all_paths(2, path{}, NODES);
    NOBJ = th ? 2 : 1;
    vrt::hist::limits l;
    l.max_depth = 60;
    vrt::hist::explorer<log_sys> e("log_seq_wide", l);
    e.run();
  }, 7200);
  // sibling names of which one is a proper prefix of the other: locations are told apart by
  // the whole name, whatever the order in which they were created
  vrt::shard("log_seq_prefix_names", [] {
    NAMES = {"ab", "a"};
    NODES.clear();
    all_paths(2, path{}, NODES);
    NOBJ = 1;
    vrt::hist::limits l;
    l.max_depth = 60;
    vrt::hist::explorer<log_sys> e("log_seq_prefix_names", l);
    e.run();
  }, 7200);
  // unnamed nodes (empty names) inside locations and as object names, with the default level formatters and with level
  // streams that have no formatter at all (an enabled message is still written, exactly as given)
  vrt::shard("log_seq_empty_names", [] {
    NAMES = {"", "a"};
    NODES.clear();
    all_paths(2, path{}, NODES);
    NOBJ = 1;
    vrt::hist::limits l;
    l.max_depth = 60;
    vrt::hist::explorer<log_sys> e("log_seq_empty_names", l);
    e.run();
  }, 7200);
  vrt::shard("log_seq_empty_names_plain_streams", [] {
    NAMES = {"", "a"};
    PLAIN_STREAMS = true;
    NODES.clear();
    all_paths(2, path{}, NODES);
    NOBJ = 1;
    vrt::hist::limits l;
    l.max_depth = 60;
    vrt::hist::explorer<log_sys> e("log_seq_empty_names_plain_streams", l);
    e.run();
  }, 7200);
  vrt::shard("log_seq_deep", [th] {
    NAMES = {"a", "b"};
    // depth 3 chain with side branches
    NODES = {path{}, path{0}, path{0, 0}, path{0, 1}, path{0, 0, 0}};
    if (th)
    {
      NODES.push_back(path{1});
      NODES.push_back(path{0, 0, 1});
    }
    NOBJ = 2;
    vrt::hist::limits l;
    l.max_depth = 60;
    vrt::hist::explorer<log_sys> e("log_seq_deep", l);
    e.run();
  }, 7200);
  return vrt::run(argc, argv);
}

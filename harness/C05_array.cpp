// C05 -- value conservation: fcppt::array (object/make, map, apply, append, join, push_back, from_range, init).
#include "C05_common.hpp"

#include <fcppt/array/append.hpp>
#include <fcppt/array/apply.hpp>
#include <fcppt/array/from_range.hpp>
#include <fcppt/array/init.hpp>
#include <fcppt/array/join.hpp>
#include <fcppt/array/make.hpp>
#include <fcppt/array/map.hpp>
#include <fcppt/array/object_impl.hpp>
#include <fcppt/array/push_back.hpp>
#include <fcppt/optional/object_impl.hpp>

namespace
{
using namespace c05;
#define FWD(e) std::forward<decltype(e)>(e)

// ---------------------------------------------------------------- array
template <std::size_t N> using arr = fcppt::array::object<tracked, N>;
template <std::size_t N, std::size_t... Is> arr<N> mka_impl(int base, std::index_sequence<Is...>)
{
  return arr<N>{tracked(base + static_cast<int>(Is))...};
}
template <std::size_t N> arr<N> mka(int base) { return mka_impl<N>(base, std::make_index_sequence<N>{}); }

template <std::size_t N> void array_unary()
{
  std::string const sz = "size=" + std::to_string(N);
  for_cat([&](auto c) {
    constexpr cat C = decltype(c)::value;
    std::string const d = descr({{"array", C}}, sz);
    run_case("array::object(array)", d, N > 0, [&](ctx &x) {
      arr<N> a = mka<N>(10);
      std::vector<int> const want = ids_of(a);
      x.arg("array", C, a);
      x.arm();
      arr<N> r(pass<C>(a));
      x.disarm();
      x.result_is(r, want);
      x.after("array", a);
    });
    run_case("array::map", d, N > 0, [&](ctx &x) {
      arr<N> a = mka<N>(10);
      std::vector<int> const want = ids_of(a);
      x.arg("array", C, a);
      x.arm();
      arr<N> r = fcppt::array::map(pass<C>(a), [](auto &&e) { return take(FWD(e)); });
      x.disarm();
      x.result_is(r, want);
      x.after("array", a);
    });
    run_case("array::join/1", d, N > 0, [&](ctx &x) {
      arr<N> a = mka<N>(10);
      std::vector<int> const want = ids_of(a);
      x.arg("array", C, a);
      x.arm();
      arr<N> r = fcppt::array::join(pass<C>(a));
      x.disarm();
      x.result_is(r, want);
      x.after("array", a);
    });
    for (int n : {0, 1, 2, 3, 4})
      run_case("array::from_range", descr({{"range", C}}, sz + " range_size=" + std::to_string(n)), n > 0, [&](ctx &x) {
        std::vector<tracked> v = make_vec(n);
        bool const fits = static_cast<std::size_t>(n) == N;
        std::vector<int> const want = fits ? ids_of(v) : std::vector<int>{};
        x.arg("range", C, v);
        x.arm();
        fcppt::optional::object<arr<N>> r = fcppt::array::from_range<N>(pass<C>(v));
        x.disarm();
        VRT_CHECK(r.has_value() == fits, x.op() + ":result:has_value", "has_value=%d", int(r.has_value()));
        x.result_is(r, want);
        x.after("range", v);
      });
    for_cat([&](auto c2) {
      constexpr cat C2 = decltype(c2)::value;
      run_case("array::push_back", descr({{"array", C}, {"element", C2}}, sz), true, [&](ctx &x) {
        arr<N> a = mka<N>(10);
        tracked e(30);
        std::vector<int> const want = ids_of(a) + ids_of(e);
        x.arg("array", C, a);
        x.arg("element", C2, e);
        x.arm();
        arr<N + 1> r = fcppt::array::push_back(pass<C>(a), pass<C2>(e));
        x.disarm();
        x.result_is(r, want);
        x.after("array", a);
        x.after("element", e);
      });
      run_case("array::apply/2", descr({{"array1", C}, {"array2", C2}}, sz), N > 0, [&](ctx &x) {
        arr<N> a = mka<N>(10), b = mka<N>(20);
        std::vector<int> want;
        for (std::size_t i = 0; i < N; ++i)
        {
          want.push_back(ids_of(a)[i]);
          want.push_back(ids_of(b)[i]);
        }
        x.arg("array1", C, a);
        x.arg("array2", C2, b);
        x.arm();
        fcppt::array::object<std::pair<tracked, tracked>, N> r = fcppt::array::apply(
            [](auto &&e1, auto &&e2) { return std::make_pair(take(FWD(e1)), take(FWD(e2))); }, pass<C>(a), pass<C2>(b));
        x.disarm();
        x.result_is(r, want);
        x.after("array1", a);
        x.after("array2", b);
      });
    });
  });
}

// Join3: also run the 27 category combinations of the three-array join for this size pair
template <std::size_t N, std::size_t M, bool Join3> void array_binary()
{
  std::string const sz = "sizes=" + std::to_string(N) + "," + std::to_string(M);
  for_cat([&](auto c1) {
    for_cat([&](auto c2) {
      constexpr cat C1 = decltype(c1)::value;
      constexpr cat C2 = decltype(c2)::value;
      std::string const d = descr({{"array1", C1}, {"array2", C2}}, sz);
      run_case("array::append", d, N + M > 0, [&](ctx &x) {
        arr<N> a = mka<N>(10);
        arr<M> b = mka<M>(20);
        std::vector<int> const want = ids_of(a) + ids_of(b);
        x.arg("array1", C1, a);
        x.arg("array2", C2, b);
        x.arm();
        arr<N + M> r = fcppt::array::append(pass<C1>(a), pass<C2>(b));
        x.disarm();
        x.result_is(r, want);
        x.after("array1", a);
        x.after("array2", b);
      });
      run_case("array::join/2", d, N + M > 0, [&](ctx &x) {
        arr<N> a = mka<N>(10);
        arr<M> b = mka<M>(20);
        std::vector<int> const want = ids_of(a) + ids_of(b);
        x.arg("array1", C1, a);
        x.arg("array2", C2, b);
        x.arm();
        arr<N + M> r = fcppt::array::join(pass<C1>(a), pass<C2>(b));
        x.disarm();
        x.result_is(r, want);
        x.after("array1", a);
        x.after("array2", b);
      });
      if constexpr (Join3)
      for_cat([&](auto c3) {
        constexpr cat C3 = decltype(c3)::value;
        run_case("array::join/3", descr({{"array1", C1}, {"array2", C2}, {"array3", C3}}, sz + ",1"), true, [&](ctx &x) {
          arr<N> a = mka<N>(10);
          arr<M> b = mka<M>(20);
          arr<1> d3 = mka<1>(30);
          std::vector<int> const want = ids_of(a) + ids_of(b) + ids_of(d3);
          x.arg("array1", C1, a);
          x.arg("array2", C2, b);
          x.arg("array3", C3, d3);
          x.arm();
          arr<N + M + 1> r = fcppt::array::join(pass<C1>(a), pass<C2>(b), pass<C3>(d3));
          x.disarm();
          x.result_is(r, want);
          x.after("array1", a);
          x.after("array2", b);
          x.after("array3", d3);
        });
      });
    });
  });
}

void array_misc()
{
  for_cat([&](auto c) {
    constexpr cat C = decltype(c)::value;
    run_case("array::object(values)", descr({{"value", C}}, "size=3"), true, [&](ctx &x) {
      tracked v(7), w(8), u(9);
      x.arg("value", C, v);
      x.arg("value2", C, w);
      x.arg("value3", C, u);
      x.arm();
      arr<3> r(pass<C>(v), pass<C>(w), pass<C>(u));
      x.disarm();
      x.result_is(r, ids_of(v) + ids_of(w) + ids_of(u));
      x.after("value", v);
      x.after("value2", w);
      x.after("value3", u);
    });
    run_case("array::make", descr({{"value", C}}, "size=3"), true, [&](ctx &x) {
      tracked v(7), w(8), u(9);
      x.arg("value", C, v);
      x.arg("value2", C, w);
      x.arg("value3", C, u);
      x.arm();
      arr<3> r = fcppt::array::make(pass<C>(v), pass<C>(w), pass<C>(u));
      x.disarm();
      x.result_is(r, ids_of(v) + ids_of(w) + ids_of(u));
      x.after("value", v);
      x.after("value2", w);
      x.after("value3", u);
    });
  });
  run_case("array::init", "size=3", true, [&](ctx &x) {
    std::vector<int> made(3, -1);
    x.arm();
    arr<3> r = fcppt::array::init<arr<3>>([&made]<std::size_t I>(std::integral_constant<std::size_t, I>) {
      tracked t(5);
      made[I] = peek::id(t);
      return t;
    });
    x.disarm();
    x.result_is(r, made);
  });
}
}

namespace c05
{
void register_array_shards()
{
  vrt::shard("array/unary", [] {
    array_unary<0>();
    array_unary<1>();
    array_unary<3>();
    array_misc();
    flush_info();
  });
  vrt::shard("array/binary", [] {
    array_binary<0, 0, false>();
    array_binary<0, 1, true>();
    array_binary<1, 0, false>();
    array_binary<1, 1, false>();
    array_binary<1, 3, true>();
    array_binary<3, 1, false>();
    array_binary<3, 3, true>();
    flush_info();
  });
}
}

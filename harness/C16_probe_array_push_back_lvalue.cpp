// C16 compile probe: array::push_back must accept an lvalue array.
#include <fcppt/array/object_impl.hpp>
#include <fcppt/array/push_back.hpp>

fcppt::array::object<int, 3> c16_probe_push_back(fcppt::array::object<int, 2> const &a, int const v)
{
  return fcppt::array::push_back(a, v);
}

// C20, part 1b: uniform_int with plain unsigned result types.
#include "C20_common.hpp"

namespace
{
using namespace c20;

template <class T> void plain_shards(char const *tname)
{
  constexpr unsigned nparts = 2;
  for (unsigned part = 0; part < nparts; ++part)
  {
    std::string const t = tname;
    std::string sn = tname;
    for (char &ch : sn)
      if (ch == ' ')
        ch = '_';
    vrt::shard("uniform_int/" + sn + "/minstd_rand/" + std::to_string(part),
               [t, part] {
                 if (part == 0)
                   roundtrip_uniform_int<T>(t, boundary_values<T>());
                 uniform_int_family<eng_minstd, T>(t, all_intervals<T>(), part, nparts);
               });
    vrt::shard("uniform_int/" + sn + "/mt19937/" + std::to_string(part),
               [t, part] { uniform_int_family<eng_mt, T>(t, all_intervals<T>(), part, nparts); });
  }
}
}

void c20::register_unsigned()
{
  plain_shards<unsigned short>("unsigned short");
  plain_shards<unsigned>("unsigned");
  plain_shards<unsigned long>("unsigned long");
}

// C04 -- shared pieces of the optional / either / variant harness.
//
// Values: val<Tag,N> is an N-element domain {0..N-1}.  Its move constructor and move
// assignment overwrite the source with POISON, so that a library function that reads an
// element again after it has moved it away (or that moves out of an lvalue argument)
// produces a value outside the domain, which no reference result ever equals.
//
// Functions between the finite domains are *complete function tables*: a function
// X -> Y with |X| = n, |Y| = b is the number idx in [0, b^n); its value at x is digit x of
// idx in base b.  Every continuation handed to fcppt writes into a `probe` (call count and
// the arguments it was called with).
//
// Reference values are plain int codes (tagged union written out by hand):
//   optional<val>      0 = nothing, 1+v = just v
//   either<E,D>        0..|E|-1 = failure e, |E|+v = success v
//   variant<A,B,C>     0..2 = A, 3..4 = B, 5..6 = C
#pragma once
#include <vrt.hpp>

#include <array>
#include <string>
#include <utility>
#include <vector>

namespace c04
{
constexpr int POISON = -77;

template <class Tag, int N> struct val
{
  static constexpr int size = N;
  static constexpr bool copyable = true;
  int v;
  explicit val(int x) : v(x) {}
  val(val const &o) : v(o.v) {}
  val(val &&o) noexcept : v(o.v) { o.v = POISON; }
  val &operator=(val const &o)
  {
    v = o.v;
    return *this;
  }
  val &operator=(val &&o) noexcept
  {
    int const x = o.v;
    o.v = POISON;
    v = x;
    return *this;
  }
  bool ok() const { return v >= 0 && v < N; }
  friend bool operator==(val const &a, val const &b) { return a.v == b.v; }
  friend bool operator!=(val const &a, val const &b) { return a.v != b.v; }
  friend bool operator<(val const &a, val const &b) { return a.v < b.v; }
};

struct tagD;
struct tagE;
struct tagF;
using D = val<tagD, 3>;   // the value domain
using E = val<tagE, 2>;   // failure domain of either
using Fn = val<tagF, 27>; // a function D -> D as a first-class value (its table index)

// ---------------------------------------------------------------- tables
struct tab
{
  int n = 0, base = 0, idx = 0;
  int d[27] = {};
  int operator[](int x) const { return (x >= 0 && x < n) ? d[x] : 0; }
};
inline tab decode(int idx, int base, int n)
{
  tab t;
  t.n = n;
  t.base = base;
  t.idx = idx;
  for (int i = 0; i < n; ++i)
  {
    t.d[i] = idx % base;
    idx /= base;
  }
  return t;
}
inline int ipow(int b, int e)
{
  int r = 1;
  while (e-- > 0)
    r *= b;
  return r;
}

// ---------------------------------------------------------------- probes
struct probe
{
  int calls = 0;
  int bad = 0; // called with a value outside the domain (moved-from / garbage)
  int args[8] = {};
  void hit(int a, bool ok = true)
  {
    if (!ok)
      ++bad;
    if (calls < 8)
      args[calls] = a;
    ++calls;
  }
  // exactly n calls, the first of them with argument a, none with a bad value
  bool is(int n, int a = 0) const { return calls == n && bad == 0 && (n == 0 || args[0] == a); }
  std::string show() const
  {
    std::string r = "calls=" + std::to_string(calls) + (bad ? " BAD_ARG" : "") + " args=[";
    for (int i = 0; i < calls && i < 8; ++i)
      r += (i ? "," : "") + std::to_string(args[i]);
    return r + "]";
  }
};

// a unary table function In -> Out taking its argument BY VALUE (an rvalue argument is
// really consumed: the source becomes POISON)
template <class In, class Out, class Make> inline auto fn1(tab const &t, probe &p, Make make)
{
  return [&t, &p, make](In a) -> Out
  {
    p.hit(a.v, a.ok());
    return make(t[a.v]);
  };
}
// binary table function (index = x*|In2| + y)
template <class In1, class In2, class Out, class Make> inline auto fn2(tab const &t, probe &p, Make make)
{
  return [&t, &p, make](In1 a, In2 b) -> Out
  {
    bool const ok = a.ok() && b.ok();
    int const i = ok ? a.v * In2::size + b.v : -1;
    p.hit(i, ok);
    return make(t[i]);
  };
}
// nullary function returning a constant
template <class Out, class Make> inline auto fn0(int c, probe &p, Make make)
{
  return [c, &p, make]() -> Out
  {
    p.hit(c);
    return make(c);
  };
}

// ---------------------------------------------------------------- value categories
// cat 0: const lvalue, 1: non-const lvalue, 2: rvalue
inline char const *cat_name(int c) { return c == 0 ? "const&" : c == 1 ? "&" : "&&"; }
template <class T, class F> inline auto call_cat(int cat, T &obj, F const &f)
{
  switch (cat)
  {
  case 0: return f(std::as_const(obj));
  case 1: return f(obj);
  default: return f(std::move(obj));
  }
}

// ---------------------------------------------------------------- text
inline std::string show_opt(int c) { return c == 0 ? "nothing" : (c >= 1 && c <= 27 ? "just " + std::to_string(c - 1) : "INVALID(" + std::to_string(c) + ")"); }
inline std::string show_eith(int c, int nf = 2)
{
  if (c >= 0 && c < nf)
    return "failure " + std::to_string(c);
  if (c >= nf && c < nf + 27)
    return "success " + std::to_string(c - nf);
  return "INVALID(" + std::to_string(c) + ")";
}
inline std::string show_int(int c) { return std::to_string(c); }
template <class S> inline std::string show_tab(tab const &t, S show)
{
  std::string r = "[";
  for (int i = 0; i < t.n; ++i)
    r += (i ? "," : "") + std::to_string(i) + "->" + show(t.d[i]);
  return r + "]";
}
template <class S> inline std::string show_seq(std::vector<int> const &v, S show)
{
  std::string r = "[";
  for (std::size_t i = 0; i < v.size(); ++i)
    r += (i ? ", " : "") + show(v[i]);
  return r + "]";
}
// all sequences over {0..base-1} of length <= maxlen, in order of length then index
inline std::vector<std::vector<int>> all_seqs(int base, int maxlen)
{
  std::vector<std::vector<int>> r;
  for (int len = 0; len <= maxlen; ++len)
  {
    int const n = ipow(base, len);
    for (int i = 0; i < n; ++i)
    {
      std::vector<int> s;
      int x = i;
      for (int k = 0; k < len; ++k)
      {
        s.push_back(x % base);
        x /= base;
      }
      r.push_back(s);
    }
  }
  return r;
}

inline bool sample_due()
{
  std::uint64_t const e = vrt::S().page->evaluations;
  return e == 1 || (e & (e - 1)) == 0;
}

inline int max_len() { return vrt::thorough() ? 4 : 3; }
// binary tables D x D -> D: all 3^9 in the thorough tier; in the quick tier all 2^9 tables
// into the 2-element codomain {0,1}
inline int bin_base() { return vrt::thorough() ? 3 : 2; }

} // namespace c04

// a local callable `desc` (-> std::string, human readable case) must be in scope
#define CK(cond, sig, ...)                             \
  do                                                   \
  {                                                    \
    if (!(cond))                                       \
    {                                                  \
      ::vrt::describe(desc());                         \
      ::vrt::fail((sig), ::vrt::fmt(__VA_ARGS__));     \
    }                                                  \
  } while (0)
// A deviation that is an implementation detail (not promised by the property text, the documentation or the declared
// signature): recorded in the evidence as counter info:<sig>, never a verdict.
#define INFO_ONLY(cond, sig)                                       \
  do                                                               \
  {                                                                \
    if (!(cond))                                                   \
      ::vrt::count(std::string("info:") + std::string(sig));       \
  } while (0)
#define SAMPLE()                                       \
  do                                                   \
  {                                                    \
    if (::c04::sample_due())                           \
    {                                                  \
      ::vrt::describe(desc());                         \
      ::vrt::maybe_sample();                           \
    }                                                  \
  } while (0)

void c04_optional_shards();
void c04_either_shards();
void c04_variant_shards();
void c04_rich_val_shards();
void c04_rich_heap_shards();
void c04_rich_move_only_shards();
void c04_poly_shards();
void c04_refs_shards();

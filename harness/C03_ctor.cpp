// C03: construction -- every well-formed definition constructs for every value type, ill-formed
// ones throw the documented exception
#include "C03_common.hpp"

namespace c03
{
namespace
{
template <class F> std::string outcome_of(F const &f)
{
  try
  {
    f();
    return "ok";
  }
  catch (fcppt::options::duplicate_names const &)
  {
    return "duplicate_names";
  }
  catch (fcppt::options::exception const &)
  {
    return "exception";
  }
  catch (std::exception const &e)
  {
    return std::string("other:") + e.what();
  }
}

template <class T> void flag_ctor(char const *tname, T a, T b)
{
  static std::string n;
  n = std::string("flag<") + tname + ">::flag";
  int idx = 0;
  for (char const *shortn : {static_cast<char const *>(nullptr), "f", "flag"})
    for (int equal = 0; equal < 2; ++equal)
    {
      if (!vrt::begin(n.c_str(), idx++, equal))
        continue;
      bool const same_names = shortn && std::string(shortn) == "flag";
      std::string const want = same_names ? "duplicate_names" : (equal ? "exception" : "ok");
      vrt::nontrivial(true);
      std::string const got = outcome_of([&] { (void)fl<la, T>(shortn, "flag", a, equal ? a : b); });
      if (got != want)
        vrt::fail(n + (want == "ok" ? ":well_formed_definition_rejected" : ":ill_formed_definition_accepted"),
                  "constructor outcome " + got + ", expected " + want);
    }
}

void ctors()
{
  flag_ctor<int>("int", 1, 2);
  flag_ctor<unsigned>("unsigned", 1U, 2U);
  flag_ctor<std::string>("string", std::string("on"), std::string("off"));
  flag_ctor<color>("color", color::red, color::green);
  flag_ctor<bool>("bool", true, false);
  flag_ctor<long>("long", 1L, 2L);
  {
    int idx = 0;
    for (char const *shortn : {static_cast<char const *>(nullptr), "o", "opt"})
      for (int def = 0; def < 2; ++def)
      {
        if (!vrt::begin("option::option", idx++, def))
          continue;
        std::string const want = shortn && std::string(shortn) == "opt" ? "duplicate_names" : "ok";
        vrt::nontrivial(true);
        std::string const got = outcome_of([&] {
          if (def)
            (void)opd<la, std::string>(shortn, "opt", std::string("d"));
          else
            (void)op<la, int>(shortn, "opt");
        });
        if (got != want)
          vrt::fail("option::option:" + std::string(want == "ok" ? "well_formed_definition_rejected" : "ill_formed_definition_accepted"),
                    "constructor outcome " + got + ", expected " + want);
      }
  }
  // product: names must be disjoint over flags and options of both sides
  {
    struct pc
    {
      char const *ls, *ll, *rs, *rl;
      bool dup;
    };
    pc const cases[] = {{"f", "flag", "o", "opt", false}, {"f", "flag", "f", "opt", true}, {"f", "flag", "o", "flag", true},
                        {nullptr, "flag", nullptr, "opt", false}, {"o", "flag", nullptr, "o", true}, {nullptr, "x", nullptr, "x", true}};
    int idx = 0;
    for (pc const &c : cases)
    {
      if (!vrt::begin("product::product", idx++))
        continue;
      vrt::nontrivial(true);
      std::string const got = outcome_of([&] { (void)o::apply(sw<la>(c.ls, c.ll), op<lb, int>(c.rs, c.rl)); });
      std::string const want = c.dup ? "duplicate_names" : "ok";
      if (got != want)
        vrt::fail("product::product:" + std::string(want == "ok" ? "well_formed_definition_rejected" : "ill_formed_definition_accepted"),
                  "constructor outcome " + got + ", expected " + want);
    }
  }
  // commands: sub-command names must be distinct
  {
    int idx = 0;
    for (int dup = 0; dup < 2; ++dup)
    {
      if (!vrt::begin("commands::commands", idx++))
        continue;
      vrt::nontrivial(true);
      std::string const got = outcome_of([&] {
        (void)o::make_commands(o::unit<la>{}, o::make_sub_command<tx>("a", o::unit<lb>{}, o::optional_help_text{}),
                               o::make_sub_command<ty>(dup ? "a" : "b", o::unit<lc>{}, o::optional_help_text{}));
      });
      std::string const want = dup ? "duplicate_names" : "ok";
      if (got != want)
        vrt::fail("commands::commands:" + std::string(want == "ok" ? "well_formed_definition_rejected" : "ill_formed_definition_accepted"),
                  "constructor outcome " + got + ", expected " + want);
    }
  }
}
}

void register_ctor() { vrt::shard("construction", [] { ctors(); }, 60); }
}

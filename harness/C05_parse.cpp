// C05 -- value conservation: results of fcppt::parse sequence (>>), repetition (*), repetition_plus (+), optional (-)
// and alternative (|).  The element parser converts one character into a tracked value; every value so created must
// arrive in the result exactly once (or be dropped on failure / backtracking) without ever being copied.
#include "C05_common.hpp"

#include <fcppt/either/object_impl.hpp>
#include <fcppt/optional/object_impl.hpp>
#include <fcppt/parse/char.hpp>
#include <fcppt/parse/char_set.hpp>
#include <fcppt/parse/literal.hpp>
#include <fcppt/parse/make_convert.hpp>
#include <fcppt/parse/parse_string.hpp>
#include <fcppt/parse/operators/alternative.hpp>
#include <fcppt/parse/operators/optional.hpp>
#include <fcppt/parse/operators/repetition.hpp>
#include <fcppt/parse/operators/repetition_plus.hpp>
#include <fcppt/parse/operators/sequence.hpp>
#include <fcppt/tuple/object_impl.hpp>
#include <fcppt/variant/object_impl.hpp>

#include <string>

namespace
{
using namespace c05;
namespace fp = fcppt::parse;

std::vector<int> g_made;     // ids in the order the converters created them
std::vector<int> g_payloads; // their payloads

// one decimal digit -> tracked(digit)
auto digit()
{
  return fp::make_convert(fp::char_set{'0', '1', '2', '3', '4', '5', '6', '7', '8', '9'}, [](char &&c) {
    tracked t(c - '0');
    g_made.push_back(peek::id(t));
    g_payloads.push_back(c - '0');
    return t;
  });
}
// one lower-case letter a..e -> tracked_b(letter - 'a')
auto letter()
{
  return fp::make_convert(fp::char_set{'a', 'b', 'c', 'd', 'e'}, [](char &&c) {
    tracked_b t(c - 'a');
    g_made.push_back(peek::id(t));
    g_payloads.push_back(c - 'a');
    return t;
  });
}

// parse _input with _parser; on success the result must hold exactly the created values number _keep[0], _keep[1], ...
// (indices into the creation order), on failure nothing is compared.  No created value may ever be copied.
template <class Parser>
void parse_case(std::string const &_op, std::string const &_grammar, Parser const &_parser, std::string const &_input, bool const _want_success,
                std::vector<int> const &_keep)
{
  run_case(_op, _grammar + " on \"" + _input + "\"", !_keep.empty(), [&](ctx &x) {
    g_made.clear();
    g_payloads.clear();
    x.arm();
    auto r = fp::parse_string(_parser, std::string(_input));
    x.disarm();
    VRT_CHECK(r.has_success() == _want_success, x.op() + ":success", "success=%d, expected %d (harness grammar expectation)",
              int(r.has_success()), int(_want_success));
    if (r.has_success())
    {
      std::vector<int> want;
      for (int k : _keep)
        want.push_back(k < static_cast<int>(g_made.size()) ? g_made[static_cast<std::size_t>(k)] : -1);
      x.result_is(r.get_success_unsafe(), want);
    }
  });
}

std::vector<int> iota(int n)
{
  std::vector<int> r;
  for (int i = 0; i < n; ++i)
    r.push_back(i);
  return r;
}

void parse_sequence()
{
  auto const d2 = digit() >> digit();
  auto const d3 = digit() >> digit() >> digit();
  auto const dl = digit() >> fp::literal{'x'} >> letter();
  auto const nested = digit() >> (letter() >> digit());
  parse_case("parse::sequence", "digit >> digit", d2, "12", true, {0, 1});
  parse_case("parse::sequence", "digit >> digit", d2, "1", false, {});
  parse_case("parse::sequence", "digit >> digit", d2, "1a", false, {});
  parse_case("parse::sequence", "digit >> digit", d2, "", false, {});
  parse_case("parse::sequence", "digit >> digit >> digit", d3, "123", true, {0, 1, 2});
  parse_case("parse::sequence", "digit >> digit >> digit", d3, "12", false, {});
  parse_case("parse::sequence", "digit >> 'x' >> letter", dl, "7xc", true, {0, 1});
  parse_case("parse::sequence", "digit >> 'x' >> letter", dl, "7x7", false, {});
  parse_case("parse::sequence", "digit >> (letter >> digit)", nested, "1a2", true, {0, 1, 2});
}

void parse_repetition()
{
  auto const rep = *digit();
  auto const rep_pair = *(digit() >> letter());
  auto const rep_then = *digit() >> letter();
  auto const plus = +digit();
  auto const opt = -digit() >> letter();
  for (int n : sizes())
  {
    std::string in;
    for (int i = 0; i < n; ++i)
      in += static_cast<char>('1' + i);
    parse_case("parse::repetition", "*digit", rep, in, true, iota(n));
    parse_case("parse::repetition", "*digit >> letter", rep_then, in + "b", true, iota(n + 1));
    parse_case("parse::repetition_plus", "+digit", plus, in, n > 0, iota(n));
    std::string pairs;
    for (int i = 0; i < n; ++i)
    {
      pairs += static_cast<char>('1' + i);
      pairs += static_cast<char>('a' + i);
    }
    parse_case("parse::repetition", "*(digit >> letter)", rep_pair, pairs, true, iota(2 * n));
  }
  // backtracking inside a repetition: "1a2" -- the third element is created, the pair fails, the value is dropped; the
  // trailing "2" then makes the whole parse fail (parse_string wants all input consumed)
  parse_case("parse::repetition", "*(digit >> letter)", rep_pair, "1a2", false, {});
  parse_case("parse::optional", "-digit >> letter", opt, "5c", true, {0, 1});
  parse_case("parse::optional", "-digit >> letter", opt, "c", true, {0});
}

void parse_alternative()
{
  auto const alt = digit() | letter();
  auto const alt_seq = (digit() >> letter()) | (digit() >> digit());
  auto const rep_alt = *(digit() | letter());
  parse_case("parse::alternative", "digit | letter", alt, "4", true, {0});
  parse_case("parse::alternative", "digit | letter", alt, "d", true, {0});
  parse_case("parse::alternative", "digit | letter", alt, "x", false, {});
  // left branch creates a value, fails at the second element, right branch starts over: values 1 and 2 are the result
  parse_case("parse::alternative", "(digit >> letter) | (digit >> digit)", alt_seq, "12", true, {1, 2});
  parse_case("parse::alternative", "(digit >> letter) | (digit >> digit)", alt_seq, "1a", true, {0, 1});
  parse_case("parse::alternative", "*(digit | letter)", rep_alt, "1a2", true, {0, 1, 2});
  parse_case("parse::alternative", "*(digit | letter)", rep_alt, "", true, {});
}
}

namespace c05
{
void register_parse_shards()
{
  vrt::shard("parse", [] {
    parse_sequence();
    parse_repetition();
    parse_alternative();
    flush_info();
  });
}
}

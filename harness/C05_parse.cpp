// C05 -- value conservation: results of fcppt::parse sequence (>>), repetition (*), repetition_plus (+), optional (-)
// and alternative (|).  The element parser converts one character into a tracked value; every value so created must
// arrive in the result exactly once (or be dropped on failure / backtracking) without ever being copied.
#include "C05_common.hpp"

#include <fcppt/either/object_impl.hpp>
#include <fcppt/optional/object_impl.hpp>
#include <fcppt/parse/char.hpp>
#include <fcppt/parse/char_set.hpp>
#include <fcppt/parse/literal.hpp>
#include <fcppt/parse/make_convert.hpp>
#include <fcppt/parse/parse_string.hpp>
#include <fcppt/parse/operators/alternative.hpp>
#include <fcppt/parse/operators/optional.hpp>
#include <fcppt/parse/operators/repetition.hpp>
#include <fcppt/parse/operators/repetition_plus.hpp>
#include <fcppt/parse/operators/sequence.hpp>
#include <fcppt/tuple/object_impl.hpp>
#include <fcppt/variant/object_impl.hpp>

#include <algorithm>
#include <string>

namespace
{
using namespace c05;
namespace fp = fcppt::parse;

std::vector<int> g_made;     // ids in the order the converters created them
std::vector<int> g_payloads; // their payloads

// one decimal digit -> tracked(digit)
auto digit()
{
  return fp::make_convert(fp::char_set{'0', '1', '2', '3', '4', '5', '6', '7', '8', '9'}, [](char &&c) {
    tracked t(c - '0');
    g_made.push_back(peek::id(t));
    g_payloads.push_back(c - '0');
    return t;
  });
}
// one lower-case letter a..e -> tracked_b(letter - 'a')
auto letter()
{
  return fp::make_convert(fp::char_set{'a', 'b', 'c', 'd', 'e'}, [](char &&c) {
    tracked_b t(c - 'a');
    g_made.push_back(peek::id(t));
    g_payloads.push_back(c - 'a');
    return t;
  });
}

// parse _input with _parser; on success the result must hold values with exactly the payloads _want (in result order), each
// of them one of the values the converters created during this parse (distinct, not moved-from).  No created value may ever
// be copied.  Which and how many values the converters create on the way (backtracking, failed branches) is not examined,
// and the success/failure expectation itself belongs to C02: if it does not hold, that is only counted.
template <class Parser>
void parse_case(std::string const &_op, std::string const &_grammar, Parser const &_parser, std::string const &_input, bool const _want_success,
                std::vector<int> const &_want)
{
  run_case(_op, _grammar + " on \"" + _input + "\"", !_want.empty(), [&](ctx &x) {
    g_made.clear();
    g_payloads.clear();
    x.arm();
    auto r = fp::parse_string(_parser, std::string(_input));
    x.disarm();
    if (r.has_success() != _want_success)
    {
      vrt::count("info:" + x.op() + ":success_differs_from_harness_expectation");
      return;
    }
    if (r.has_success())
    {
      std::vector<item> const got = items_of(r.get_success_unsafe());
      std::vector<int> got_payloads;
      std::set<int> ids;
      for (item const &i : got)
      {
        got_payloads.push_back(i.payload);
        VRT_CHECK(!i.moved, x.op() + ":result:holds_moved_from_element", "result element id %d is moved-from", i.id);
        VRT_CHECK(std::find(g_made.begin(), g_made.end(), i.id) != g_made.end(), x.op() + ":result:unexpected_element",
                  "result element id %d was not created by a converter during this parse", i.id);
        VRT_CHECK(ids.insert(i.id).second, x.op() + ":result:element_duplicated", "id %d appears twice in the result", i.id);
      }
      if (std::none_of(got.begin(), got.end(), [](item const &i) { return i.moved; }))
        VRT_CHECK(got_payloads == _want, x.op() + ":result:wrong_elements", "result payloads %s, expected %s", show(got_payloads).c_str(),
                  show(_want).c_str());
    }
  });
}

// payloads 1..n (the digits '1'.. of the inputs below)
std::vector<int> digits(int n)
{
  std::vector<int> r;
  for (int i = 0; i < n; ++i)
    r.push_back(i + 1);
  return r;
}

void parse_sequence()
{
  auto const d2 = digit() >> digit();
  auto const d3 = digit() >> digit() >> digit();
  auto const dl = digit() >> fp::literal{'x'} >> letter();
  auto const nested = digit() >> (letter() >> digit());
  parse_case("parse::sequence", "digit >> digit", d2, "12", true, {1, 2});
  parse_case("parse::sequence", "digit >> digit", d2, "1", false, {});
  parse_case("parse::sequence", "digit >> digit", d2, "1a", false, {});
  parse_case("parse::sequence", "digit >> digit", d2, "", false, {});
  parse_case("parse::sequence", "digit >> digit >> digit", d3, "123", true, {1, 2, 3});
  parse_case("parse::sequence", "digit >> digit >> digit", d3, "12", false, {});
  parse_case("parse::sequence", "digit >> 'x' >> letter", dl, "7xc", true, {7, 2});
  parse_case("parse::sequence", "digit >> 'x' >> letter", dl, "7x7", false, {});
  parse_case("parse::sequence", "digit >> (letter >> digit)", nested, "1a2", true, {1, 0, 2});
}

void parse_repetition()
{
  auto const rep = *digit();
  auto const rep_pair = *(digit() >> letter());
  auto const rep_then = *digit() >> letter();
  auto const plus = +digit();
  auto const opt = -digit() >> letter();
  for (int n : sizes())
  {
    std::string in;
    for (int i = 0; i < n; ++i)
      in += static_cast<char>('1' + i);
    parse_case("parse::repetition", "*digit", rep, in, true, digits(n));
    {
      std::vector<int> w = digits(n);
      w.push_back(1); // 'b'
      parse_case("parse::repetition", "*digit >> letter", rep_then, in + "b", true, w);
    }
    parse_case("parse::repetition_plus", "+digit", plus, in, n > 0, digits(n));
    std::string pairs;
    std::vector<int> pair_payloads;
    for (int i = 0; i < n; ++i)
    {
      pairs += static_cast<char>('1' + i);
      pairs += static_cast<char>('a' + i);
      pair_payloads.push_back(i + 1);
      pair_payloads.push_back(i);
    }
    parse_case("parse::repetition", "*(digit >> letter)", rep_pair, pairs, true, pair_payloads);
  }
  // backtracking inside a repetition: "1a2" -- the third element is created, the pair fails, the value is dropped; the
  // trailing "2" then makes the whole parse fail (parse_string wants all input consumed)
  parse_case("parse::repetition", "*(digit >> letter)", rep_pair, "1a2", false, {});
  parse_case("parse::optional", "-digit >> letter", opt, "5c", true, {5, 2});
  parse_case("parse::optional", "-digit >> letter", opt, "c", true, {2});
}

void parse_alternative()
{
  auto const alt = digit() | letter();
  auto const alt_seq = (digit() >> letter()) | (digit() >> digit());
  auto const rep_alt = *(digit() | letter());
  parse_case("parse::alternative", "digit | letter", alt, "4", true, {4});
  parse_case("parse::alternative", "digit | letter", alt, "d", true, {3});
  parse_case("parse::alternative", "digit | letter", alt, "x", false, {});
  // left branch creates a value, fails at the second element, right branch starts over: values 1 and 2 are the result
  parse_case("parse::alternative", "(digit >> letter) | (digit >> digit)", alt_seq, "12", true, {1, 2});
  parse_case("parse::alternative", "(digit >> letter) | (digit >> digit)", alt_seq, "1a", true, {1, 0});
  parse_case("parse::alternative", "*(digit | letter)", rep_alt, "1a2", true, {1, 0, 2});
  parse_case("parse::alternative", "*(digit | letter)", rep_alt, "", true, {});
}
}

namespace c05
{
void register_parse_shards()
{
  vrt::shard("parse", [] {
    parse_sequence();
    parse_repetition();
    parse_alternative();
    flush_info();
  });
}
}

// C05 -- Generic operations conserve values: rvalues moved (never copied), lvalues untouched, no read after move.
// Registry harness (engine E): every registered operation x argument shapes x value category of every argument,
// instantiated with the instrumented element type of C05_common.hpp.  This TU: main + fcppt::algorithm and
// fcppt::container entries.  Other modules: C05_grid_tree.cpp, C05_optional.cpp, C05_either_variant.cpp,
// C05_record_tuple.cpp, C05_array.cpp, C05_nested.cpp (fcppt containers as vector elements), C05_assoc.cpp (join of maps/sets), C05_options.cpp, C05_parse.cpp.  Move-only instantiations: compile probes C05_probe_mo.cpp.
#include "C05_common.hpp"

#include <fcppt/loop.hpp>
#include <fcppt/move_clear.hpp>
#include <fcppt/move_if.hpp>
#include <fcppt/move_if_rvalue.hpp>
#include <fcppt/move_iterator_if_rvalue.hpp>
#include <fcppt/algorithm/fold.hpp>
#include <fcppt/algorithm/fold_break.hpp>
#include <fcppt/algorithm/map.hpp>
#include <fcppt/algorithm/map_concat.hpp>
#include <fcppt/algorithm/map_optional.hpp>
#include <fcppt/algorithm/reverse.hpp>
#include <fcppt/container/get_or_insert.hpp>
#include <fcppt/container/get_or_insert_with_result.hpp>
#include <fcppt/container/join.hpp>
#include <fcppt/container/make_move_range.hpp>
#include <fcppt/container/pop_back.hpp>
#include <fcppt/container/pop_front.hpp>
#include <fcppt/optional/object_impl.hpp>

#include <deque>
#include <list>
#include <map>

namespace
{
using namespace c05;
using vec = std::vector<tracked>;

std::string sz(int n) { return "n=" + std::to_string(n); }

// ---------------------------------------------------------------- algorithm
void algorithm_map()
{
  for (int n : sizes())
    for_cat([&](auto c) {
      constexpr cat C = decltype(c)::value;
      run_case("algorithm::map<vector>(vector)", descr({{"range", C}}, sz(n)), n > 0, [&](ctx &x) {
        vec v = make_vec(n);
        std::vector<int> const want = ids_of(v);
        x.arg("range", C, v);
        x.arm();
        vec r = fcppt::algorithm::map<vec>(pass<C>(v), [](auto &&e) { return take(std::forward<decltype(e)>(e)); });
        x.disarm();
        x.result_is(r, want);
        x.after("range", v);
      });
      run_case("algorithm::map<list>(list)", descr({{"range", C}}, sz(n)), n > 0, [&](ctx &x) {
        std::list<tracked> v;
        for (int i = 0; i < n; ++i)
          v.emplace_back(20 + i);
        std::vector<int> const want = ids_of(v);
        x.arg("range", C, v);
        x.arm();
        std::list<tracked> r =
            fcppt::algorithm::map<std::list<tracked>>(pass<C>(v), [](auto &&e) { return take(std::forward<decltype(e)>(e)); });
        x.disarm();
        x.result_is(r, want);
        x.after("range", v);
      });
    });
}

void algorithm_fold()
{
  for (int n : sizes())
    for (int m : {0, 2})
      for_cat([&](auto c) {
        for_cat([&](auto cs) {
          constexpr cat C = decltype(c)::value;
          constexpr cat CS = decltype(cs)::value;
          run_case("algorithm::fold", descr({{"range", C}, {"state", CS}}, sz(n) + " state_size=" + std::to_string(m)), n > 0, [&](ctx &x) {
            vec v = make_vec(n);
            vec s = make_vec(m, 50);
            std::vector<int> const want = ids_of(s) + ids_of(v);
            x.arg("range", C, v);
            x.arg("state", CS, s);
            x.arm();
            vec r = fcppt::algorithm::fold(pass<C>(v), pass<CS>(s), [](auto &&e, vec &&st) {
              st.push_back(take(std::forward<decltype(e)>(e)));
              return std::move(st);
            });
            x.disarm();
            x.result_is(r, want);
            x.after("range", v);
            x.after("state", s);
          });
        });
      });
}

void algorithm_fold_break()
{
  for (int n : sizes())
    for (int brk = 0; brk <= n; ++brk) // break when the element with index brk has been consumed; brk==n: never
      for_cat([&](auto c) {
        for_cat([&](auto cs) {
          constexpr cat C = decltype(c)::value;
          constexpr cat CS = decltype(cs)::value;
          run_case("algorithm::fold_break", descr({{"range", C}, {"state", CS}}, sz(n) + " break_at=" + std::to_string(brk)), n > 0, [&](ctx &x) {
            vec v = make_vec(n);
            vec s = make_vec(1, 50);
            std::vector<int> want = ids_of(s);
            for (int i = 0; i < n && i <= brk; ++i)
              want.push_back(ids_of(v)[static_cast<std::size_t>(i)]);
            x.arg("range", C, v);
            x.arg("state", CS, s);
            x.arm();
            // make_vec gives element i the payload 10+i: the break position is a property of the element
            vec r = fcppt::algorithm::fold_break(pass<C>(v), pass<CS>(s), [brk](auto &&e, vec &&st) {
              bool const last = peek::payload(e) - 10 == brk;
              st.push_back(take(std::forward<decltype(e)>(e)));
              return std::make_pair(last ? fcppt::loop::break_ : fcppt::loop::continue_, std::move(st));
            });
            x.disarm();
            x.result_is(r, want);
            x.after("range", v);
            x.after("state", s);
          });
        });
      });
}

void algorithm_map_concat()
{
  for (int n : sizes())
    for_cat([&](auto c) {
      constexpr cat C = decltype(c)::value;
      run_case("algorithm::map_concat", descr({{"range", C}}, sz(n)), n > 0, [&](ctx &x) {
        vec v = make_vec(n);
        x.arg("range", C, v);
        std::vector<int> const src_ids = ids_of(v);
        std::map<int, int> companion; // element id -> id of the fresh companion the callback created for it
        x.arm();
        vec r = fcppt::algorithm::map_concat<vec>(pass<C>(v), [&companion](auto &&e) {
          vec inner;
          inner.reserve(2);
          int const id = peek::id(e);
          inner.push_back(take(std::forward<decltype(e)>(e)));
          inner.emplace_back(1000);
          companion[id] = peek::id(inner.back());
          return inner;
        });
        x.disarm();
        // documented: join(r_1, ..., r_n) in the order of the elements (not of the calls)
        std::vector<int> want;
        for (int id : src_ids)
        {
          want.push_back(id);
          want.push_back(companion.count(id) ? companion[id] : -1);
        }
        x.result_is(r, want);
        x.after("range", v);
      });
    });
}

void algorithm_map_optional()
{
  for (int n : sizes())
    for (int keep_mask = 0; keep_mask < (1 << n) && keep_mask < 8; ++keep_mask)
      for_cat([&](auto c) {
        constexpr cat C = decltype(c)::value;
        run_case("algorithm::map_optional", descr({{"range", C}}, sz(n) + " keep_mask=" + std::to_string(keep_mask)), n > 0 && keep_mask != 0,
                 [&](ctx &x) {
                   vec v = make_vec(n);
                   std::vector<int> want;
                   for (int i = 0; i < n; ++i)
                     if (i >= 3 || (keep_mask >> i & 1))
                       want.push_back(ids_of(v)[static_cast<std::size_t>(i)]);
                   x.arg("range", C, v);
                   x.arm();
                   vec r = fcppt::algorithm::map_optional<vec>(pass<C>(v), [keep_mask](auto &&e) {
                     int const i = peek::payload(e) - 10; // element index: the decision belongs to the element, not to the call number
                     using opt = fcppt::optional::object<tracked>;
                     return (i >= 3 || (keep_mask >> i & 1)) ? opt{take(std::forward<decltype(e)>(e))} : opt{};
                   });
                   x.disarm();
                   x.result_is(r, want);
                   x.after("range", v);
                 });
      });
}

void algorithm_reverse()
{
  for (int n : sizes())
    for_cat([&](auto c) {
      constexpr cat C = decltype(c)::value;
      run_case("algorithm::reverse", descr({{"container", C}}, sz(n)), n > 1, [&](ctx &x) {
        vec v = make_vec(n);
        std::vector<int> want = ids_of(v);
        std::reverse(want.begin(), want.end());
        x.arg("container", C, v);
        x.arm();
        vec r = fcppt::algorithm::reverse(pass<C>(v));
        x.disarm();
        x.result_is(r, want);
        x.after("container", v);
      });
    });
}


// the same algorithms fed with fcppt::container::make_move_range(std::move(v)): the documented way to hand the
// elements of a container to a generic algorithm as rvalues.  Every element must reach the callback as an rvalue.
void algorithm_move_range()
{
  for (int n : sizes())
  {
    run_case("algorithm::fold", descr({{"move_range", cat::rv}}, sz(n)), n > 0, [&](ctx &x) {
      vec v = make_vec(n);
      std::vector<int> const want = ids_of(v);
      x.arg("move_range", cat::rv, v);
      x.arm();
      vec r = fcppt::algorithm::fold(fcppt::container::make_move_range(std::move(v)), vec{}, [](auto &&e, vec &&st) {
        st.push_back(take(std::forward<decltype(e)>(e)));
        return std::move(st);
      });
      x.disarm();
      x.result_is(r, want);
    });
    run_case("algorithm::fold_break", descr({{"move_range", cat::rv}}, sz(n)), n > 0, [&](ctx &x) {
      vec v = make_vec(n);
      std::vector<int> const want = ids_of(v);
      x.arg("move_range", cat::rv, v);
      x.arm();
      vec r = fcppt::algorithm::fold_break(fcppt::container::make_move_range(std::move(v)), vec{}, [](auto &&e, vec &&st) {
        st.push_back(take(std::forward<decltype(e)>(e)));
        return std::make_pair(fcppt::loop::continue_, std::move(st));
      });
      x.disarm();
      x.result_is(r, want);
    });
    run_case("algorithm::map_concat", descr({{"move_range", cat::rv}}, sz(n)), n > 0, [&](ctx &x) {
      vec v = make_vec(n);
      std::vector<int> const want = ids_of(v);
      x.arg("move_range", cat::rv, v);
      x.arm();
      vec r = fcppt::algorithm::map_concat<vec>(fcppt::container::make_move_range(std::move(v)), [](auto &&e) {
        vec inner;
        inner.push_back(take(std::forward<decltype(e)>(e)));
        return inner;
      });
      x.disarm();
      x.result_is(r, want);
    });
    run_case("algorithm::map_optional", descr({{"move_range", cat::rv}}, sz(n)), n > 0, [&](ctx &x) {
      vec v = make_vec(n);
      std::vector<int> const want = ids_of(v);
      x.arg("move_range", cat::rv, v);
      x.arm();
      vec r = fcppt::algorithm::map_optional<vec>(fcppt::container::make_move_range(std::move(v)), [](auto &&e) {
        return fcppt::optional::object<tracked>{take(std::forward<decltype(e)>(e))};
      });
      x.disarm();
      x.result_is(r, want);
    });
  }
}


// ---------------------------------------------------------------- the value-category helpers themselves
void helpers()
{
  for (int n : sizes())
    run_case("move_clear", sz(n), n > 0, [&](ctx &x) {
      vec v = make_vec(n);
      std::vector<int> const want = ids_of(v);
      x.inout("value", v);
      x.arm();
      vec r = fcppt::move_clear(v);
      x.disarm();
      x.result_is(r, want);
      // documented (move_clear.hpp): "This function first moves out of the value and then assigns a default constructed
      // value. For example, this function can be used to move out of a container and leave an empty container behind."
      VRT_CHECK(v.empty(), x.op() + ":value:not_cleared", "source still has %zu elements", v.size());
    });
  // move_if_rvalue<Type>(arg): moves iff Type is not an lvalue reference or arg is an rvalue
  for_cat([&](auto ct) {
    for_cat([&](auto ca) {
      constexpr cat CT = decltype(ct)::value;
      constexpr cat CA = decltype(ca)::value;
      using type_param = std::conditional_t<CT == cat::lv, vec &, std::conditional_t<CT == cat::clv, vec const &, vec>>;
      run_case("move_if_rvalue", std::string("Type:") + cat_name(CT) + ", arg:" + cat_name(CA), true, [&](ctx &x) {
        tracked v(7);
        constexpr bool moves = CA != cat::clv && (CT == cat::rv || CA == cat::rv);
        // declared category of the argument for the oracle: it is an "rvalue" exactly when the helper is documented to move it
        x.arg("arg", moves ? cat::rv : CA, v);
        x.arm();
        tracked r(fcppt::move_if_rvalue<type_param>(pass<CA>(v)));
        x.disarm();
        x.result_is(r, ids_of(v));
        VRT_CHECK(peek::moved(v) == moves, x.op() + ":arg:moved", "source moved=%d, documented: %d", int(peek::moved(v)), int(moves));
      });
    });
  });
  // move_if<Cond>(arg): "Moves _arg if Cond is true or Arg is an rvalue" (a const lvalue can only be copied)
  for (int cond : {0, 1})
    for_cat([&](auto ca) {
      constexpr cat CA = decltype(ca)::value;
      run_case("move_if", std::string("Cond:") + (cond ? "true" : "false") + ", arg:" + cat_name(CA), true, [&](ctx &x) {
        tracked v(7);
        bool const moves = CA != cat::clv && (cond != 0 || CA == cat::rv);
        x.arg("arg", moves ? cat::rv : CA, v);
        x.arm();
        tracked r(cond ? tracked(fcppt::move_if<true>(pass<CA>(v))) : tracked(fcppt::move_if<false>(pass<CA>(v))));
        x.disarm();
        x.result_is(r, ids_of(v));
        VRT_CHECK(peek::moved(v) == moves, x.op() + ":arg:moved", "source moved=%d, documented: %d", int(peek::moved(v)), int(moves));
      });
    });
  for_cat([&](auto ct) {
    constexpr cat CT = decltype(ct)::value;
    using type_param = std::conditional_t<CT == cat::lv, vec &, std::conditional_t<CT == cat::clv, vec const &, vec>>;
    for (int n : sizes())
      run_case("move_iterator_if_rvalue", std::string("Type:") + cat_name(CT) + " " + sz(n), n > 0, [&](ctx &x) {
        vec v = make_vec(n);
        std::vector<int> const want = ids_of(v);
        x.arg("container", CT == cat::rv ? cat::rv : CT, v);
        x.arm();
        vec r(fcppt::move_iterator_if_rvalue<type_param>(v.begin()), fcppt::move_iterator_if_rvalue<type_param>(v.end()));
        x.disarm();
        x.result_is(r, want);
        x.after("container", v);
      });
  });
}

// ---------------------------------------------------------------- container
void container_join2()
{
  for (int n1 : sizes())
    for (int n2 : sizes())
      for_cat([&](auto c1) {
        for_cat([&](auto c2) {
          constexpr cat C1 = decltype(c1)::value;
          constexpr cat C2 = decltype(c2)::value;
          run_case("container::join/2", descr({{"first", C1}, {"second", C2}}, "n=" + std::to_string(n1) + "," + std::to_string(n2)),
                   n1 + n2 > 0, [&](ctx &x) {
                     vec a = make_vec(n1, 10), b = make_vec(n2, 20);
                     std::vector<int> const want = ids_of(a) + ids_of(b);
                     x.arg("first", C1, a);
                     x.arg("second", C2, b);
                     x.arm();
                     vec r = fcppt::container::join(pass<C1>(a), pass<C2>(b));
                     x.disarm();
                     x.result_is(r, want);
                     x.after("first", a);
                     x.after("second", b);
                   });
        });
      });
}

void container_join3()
{
  std::vector<int> const small = vrt::thorough() ? std::vector<int>{0, 1, 3} : std::vector<int>{0, 2};
  for (int n1 : small)
    for (int n2 : small)
      for (int n3 : small)
        for_cat([&](auto c1) {
          for_cat([&](auto c2) {
            for_cat([&](auto c3) {
              constexpr cat C1 = decltype(c1)::value;
              constexpr cat C2 = decltype(c2)::value;
              constexpr cat C3 = decltype(c3)::value;
              run_case("container::join/3",
                       descr({{"first", C1}, {"second", C2}, {"third", C3}},
                             "n=" + std::to_string(n1) + "," + std::to_string(n2) + "," + std::to_string(n3)),
                       n1 + n2 + n3 > 0, [&](ctx &x) {
                         vec a = make_vec(n1, 10), b = make_vec(n2, 20), d = make_vec(n3, 30);
                         std::vector<int> const want = ids_of(a) + ids_of(b) + ids_of(d);
                         x.arg("first", C1, a);
                         x.arg("second", C2, b);
                         x.arg("third", C3, d);
                         x.arm();
                         vec r = fcppt::container::join(pass<C1>(a), pass<C2>(b), pass<C3>(d));
                         x.disarm();
                         x.result_is(r, want);
                         x.after("first", a);
                         x.after("second", b);
                         x.after("third", d);
                       });
            });
          });
        });
}

void container_join1()
{
  for (int n : sizes())
    for_cat([&](auto c) {
      constexpr cat C = decltype(c)::value;
      run_case("container::join/1", descr({{"first", C}}, sz(n)), n > 0, [&](ctx &x) {
        vec a = make_vec(n);
        std::vector<int> const want = ids_of(a);
        x.arg("first", C, a);
        x.arm();
        vec r = fcppt::container::join(pass<C>(a));
        x.disarm();
        x.result_is(r, want);
        x.after("first", a);
      });
    });
}

void container_pop()
{
  for (int n : sizes())
  {
    run_case("container::pop_back(vector)", sz(n), n > 0, [&](ctx &x) {
      vec v = make_vec(n);
      std::vector<int> all = ids_of(v);
      x.inout("container", v);
      x.arm();
      fcppt::optional::object<tracked> r = fcppt::container::pop_back(v);
      x.disarm();
      std::vector<int> want_r, want_v = all;
      if (n > 0)
      {
        want_r.push_back(all.back());
        want_v.pop_back();
      }
      x.result_is(r, want_r);
      x.result_is(v, want_v, "container");
    });
    run_case("container::pop_front(deque)", sz(n), n > 0, [&](ctx &x) {
      std::deque<tracked> v;
      for (int i = 0; i < n; ++i)
        v.emplace_back(10 + i);
      std::vector<int> all = ids_of(v);
      x.inout("container", v);
      x.arm();
      fcppt::optional::object<tracked> r = fcppt::container::pop_front(v);
      x.disarm();
      std::vector<int> want_r, want_v = all;
      if (n > 0)
      {
        want_r.push_back(all.front());
        want_v.erase(want_v.begin());
      }
      x.result_is(r, want_r);
      x.result_is(v, want_v, "container");
    });
    run_case("container::pop_front(list)", sz(n), n > 0, [&](ctx &x) {
      std::list<tracked> v;
      for (int i = 0; i < n; ++i)
        v.emplace_back(10 + i);
      std::vector<int> all = ids_of(v);
      x.inout("container", v);
      x.arm();
      fcppt::optional::object<tracked> r = fcppt::container::pop_front(v);
      x.disarm();
      std::vector<int> want_r, want_v = all;
      if (n > 0)
      {
        want_r.push_back(all.front());
        want_v.erase(want_v.begin());
      }
      x.result_is(r, want_r);
      x.result_is(v, want_v, "container");
    });
  }
}

void container_get_or_insert()
{
  // map<tracked, tracked_b>: keys 0,2,4,.. present; looked-up key k in 0..2n
  for (int n : sizes())
    for (int k = 0; k <= 2 * n; ++k)
      for (int with_result = 0; with_result < 2; ++with_result)
        run_case(with_result ? "container::get_or_insert_with_result" : "container::get_or_insert",
                 sz(n) + " key=" + std::to_string(k) + (k % 2 == 0 && k < 2 * n ? " present" : " absent"), true, [&](ctx &x) {
                   using map_t = std::map<tracked, tracked_b>;
                   map_t m;
                   for (int i = 0; i < n; ++i)
                     m.emplace(std::piecewise_construct, std::forward_as_tuple(2 * i), std::forward_as_tuple(100 + i));
                   bool const present = k % 2 == 0 && k < 2 * n;
                   tracked key(k);
                   std::vector<int> const before = ids_of(m);
                   x.inout("container", m);
                   x.arg("key", cat::clv, key);
                   int created = -1, calls = 0;
                   std::set<int> all_created;
                   auto const create = [&](tracked const &kk) {
                     ++calls;
                     // documented: "_create is called with _a key": a key equal to the one looked up
                     VRT_CHECK(peek::payload(kk) == k, x.op() + ":create_key", "create called with key %d, looked up %d", peek::payload(kk), k);
                     tracked_b v(500);
                     created = peek::id(v);
                     all_created.insert(created);
                     return v;
                   };
                   x.arm();
                   tracked_b *ref = nullptr;
                   bool inserted = false;
                   if (with_result)
                   {
                     auto res = fcppt::container::get_or_insert_with_result(m, key, create);
                     ref = &res.element();
                     inserted = res.inserted();
                   }
                   else
                   {
                     ref = &fcppt::container::get_or_insert(m, key, create);
                     inserted = !present;
                   }
                   x.disarm();
                   // information only: how often create runs is not promised beyond "is called" when the key is missing, and the
                   // documentation of get_or_insert_with_result states the inserted flag the other way round than the code
                   if (calls != (present ? 0 : 1))
                     vrt::count("info:" + x.op() + ":create_calls_not_0_or_1");
                   if (inserted != !present)
                     vrt::count("info:" + x.op() + ":inserted_flag_differs_from_implementation_convention");
                   if (!present)
                     for (auto const &kv : m) // whichever created value ended up under the key is the expected one
                       if (peek::payload(kv.first) == k && all_created.count(peek::id(kv.second)))
                         created = peek::id(kv.second);
                   // expected content: the old pairs, plus (copy of key, created) at its sorted position
                   std::vector<int> want;
                   bool placed = present;
                   for (int i = 0; i < n; ++i)
                   {
                     if (!placed && k < 2 * i)
                     {
                       want.push_back(peek::id(key));
                       want.push_back(created);
                       placed = true;
                     }
                     want.push_back(before[static_cast<std::size_t>(2 * i)]);
                     want.push_back(before[static_cast<std::size_t>(2 * i + 1)]);
                   }
                   if (!placed)
                   {
                     want.push_back(peek::id(key));
                     want.push_back(created);
                   }
                   x.result_is(m, want, "container");
                   int const want_ref = present ? before[static_cast<std::size_t>(k + 1)] : created;
                   VRT_CHECK(peek::id(*ref) == want_ref && !peek::moved(*ref), x.op() + ":returned_reference",
                             "returned reference holds id %d (moved=%d), want %d", peek::id(*ref), int(peek::moved(*ref)), want_ref);
                   x.after("key", key);
                 });
}

void container_move_range()
{
  for (int n : sizes())
  {
    run_case("container::make_move_range+algorithm::map", descr({{"container", cat::rv}}, sz(n)), n > 0, [&](ctx &x) {
      vec v = make_vec(n);
      std::vector<int> const want = ids_of(v);
      x.arg("container", cat::rv, v);
      x.arm();
      vec r = fcppt::algorithm::map<vec>(fcppt::container::make_move_range(std::move(v)),
                                         [](auto &&e) { return take(std::forward<decltype(e)>(e)); });
      x.disarm();
      x.result_is(r, want);
    });
    run_case("container::make_move_range+range_for", descr({{"container", cat::rv}}, sz(n)), n > 0, [&](ctx &x) {
      vec v = make_vec(n);
      std::vector<int> const want = ids_of(v);
      x.arg("container", cat::rv, v);
      vec r;
      r.reserve(static_cast<std::size_t>(n));
      x.arm();
      auto range = fcppt::container::make_move_range(std::move(v));
      for (auto &&e : range)
        r.push_back(take(std::forward<decltype(e)>(e)));
      x.disarm();
      x.result_is(r, want);
    });
    run_case("container::make_move_range+const_iteration", descr({{"container", cat::rv}}, sz(n)), n > 0, [&](ctx &x) {
      // iterating a const move_range must not move: the range still owns every element afterwards
      vec v = make_vec(n);
      std::vector<int> const want = ids_of(v);
      x.arg("container", cat::rv, v);
      vec r;
      r.reserve(static_cast<std::size_t>(n));
      x.arm();
      auto const range = fcppt::container::make_move_range(std::move(v));
      x.disarm();
      L().armed = true;
      for (auto &&e : range)
        note(std::forward<decltype(e)>(e));
      L().armed = false;
      std::vector<item> owned;
      for (auto const &e : range)
        collect(e, owned);
      std::vector<int> got;
      for (item const &i : owned)
      {
        got.push_back(i.id);
        VRT_CHECK(!i.moved, x.op() + ":const_range_moved_from", "element id %d moved-from after const iteration", i.id);
      }
      VRT_CHECK(got == want, x.op() + ":const_range_content", "want %s got %s", show(want).c_str(), show(got).c_str());
    });
  }
}
}

namespace c05
{
void register_algorithm_container_shards()
{
  vrt::shard("algorithm/map+reverse+helpers", [] {
    algorithm_map();
    algorithm_reverse();
    helpers();
    flush_info();
  });
  vrt::shard("algorithm/fold", [] {
    algorithm_fold();
    algorithm_fold_break();
    flush_info();
  });
  vrt::shard("algorithm/map_concat+map_optional", [] {
    algorithm_map_concat();
    algorithm_map_optional();
    algorithm_move_range();
    flush_info();
  });
  vrt::shard("container/join", [] {
    container_join1();
    container_join2();
    container_join3();
    flush_info();
  });
  vrt::shard("container/pop+get_or_insert+move_range", [] {
    container_pop();
    container_get_or_insert();
    container_move_range();
    flush_info();
  });
}
}

int main(int argc, char **argv)
{
  c05::register_algorithm_container_shards();
  c05::register_grid_tree_shards();
  c05::register_optional_shards();
  c05::register_either_variant_shards();
  c05::register_record_tuple_shards();
  c05::register_array_shards();
  c05::register_options_shards();
  c05::register_parse_shards();
  c05::register_nested_shards();
  c05::register_assoc_shards();
  return vrt::run(argc, argv);
}

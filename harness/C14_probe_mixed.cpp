// C14 compile probes: operators whose operands have *different* scalar types.  The
// module documentation (fcpptmath_arithmetic) states that all free operators support
// differing value types; the result value type is decltype(L op R).  Each kind is a
// tiny translation unit that only has to compile (signature compile:<name>).
//   C14_PROBE_KIND 1: matrix<Left> * vector<Right>
//   C14_PROBE_KIND 2: matrix (op) matrix, matrix (op) scalar
//   C14_PROBE_KIND 3: vector / dim component-wise and scalar operators, vector (op) dim
#include <fcppt/no_init.hpp>
#include <fcppt/math/dim/arithmetic.hpp>
#include <fcppt/math/dim/object_impl.hpp>
#include <fcppt/math/dim/static.hpp>
#include <fcppt/math/matrix/arithmetic.hpp>
#include <fcppt/math/matrix/object_impl.hpp>
#include <fcppt/math/matrix/static.hpp>
#include <fcppt/math/matrix/vector.hpp>
#include <fcppt/math/vector/arithmetic.hpp>
#include <fcppt/math/vector/dim.hpp>
#include <fcppt/math/vector/object_impl.hpp>
#include <fcppt/math/vector/static.hpp>
#include <fcppt/optional/object_impl.hpp>
#include <cstdint>
#include <type_traits>

namespace fm = fcppt::math::matrix;
namespace fv = fcppt::math::vector;
namespace fd = fcppt::math::dim;

#ifndef C14_PROBE_KIND
#error "C14_PROBE_KIND not defined"
#endif

template <class L, class R> void probe()
{
#if C14_PROBE_KIND == 1
  fm::static_<L, 2, 3> const a{fcppt::no_init{}};
  fv::static_<R, 3> const x{fcppt::no_init{}};
  auto const r = a * x;
  static_assert(std::is_same_v<std::remove_cv_t<decltype(r)>, fv::static_<decltype(std::declval<L>() * std::declval<R>()), 2>>);
#elif C14_PROBE_KIND == 2
  fm::static_<L, 2, 3> const a{fcppt::no_init{}};
  fm::static_<R, 2, 3> const b{fcppt::no_init{}};
  fm::static_<R, 3, 2> const c{fcppt::no_init{}};
  static_assert(std::is_same_v<typename decltype(a + b)::value_type, decltype(std::declval<L>() + std::declval<R>())>);
  static_assert(std::is_same_v<typename decltype(a - b)::value_type, decltype(std::declval<L>() - std::declval<R>())>);
  static_assert(std::is_same_v<decltype(a * c), fm::static_<decltype(std::declval<L>() * std::declval<R>()), 2, 2>>);
  static_assert(std::is_same_v<typename decltype(a * R{})::value_type, decltype(std::declval<L>() * std::declval<R>())>);
  static_assert(std::is_same_v<typename decltype(L{} * b)::value_type, decltype(std::declval<L>() * std::declval<R>())>);
  (void)(a + b);
  (void)(a - b);
  (void)(a * c);
  (void)(a * R{1});
  (void)(L{1} * b);
#else
  fv::static_<L, 3> const u{fcppt::no_init{}};
  fv::static_<R, 3> const v{fcppt::no_init{}};
  fd::static_<L, 3> const d{fcppt::no_init{}};
  fd::static_<R, 3> const e{fcppt::no_init{}};
  static_assert(std::is_same_v<typename decltype(u + v)::value_type, decltype(std::declval<L>() + std::declval<R>())>);
  static_assert(std::is_same_v<typename decltype(u * v)::value_type, decltype(std::declval<L>() * std::declval<R>())>);
  static_assert(std::is_same_v<typename decltype(d - e)::value_type, decltype(std::declval<L>() - std::declval<R>())>);
  (void)(u + v);
  (void)(u - v);
  (void)(u * v);
  (void)(u / v);
  (void)(u * R{1});
  (void)(L{1} * v);
  (void)(u / R{1});
  (void)(d + e);
  (void)(d - e);
  (void)(d * e);
  (void)(d / e);
  (void)(d * R{1});
  (void)(L{1} * e);
  (void)(d / R{1});
  (void)(u + e);
  (void)(u - e);
  (void)(u * e);
  (void)(u / e);
#endif
}

void c14_probe_mixed()
{
  probe<std::int16_t, int>();
  probe<int, std::int8_t>();
  probe<std::int8_t, std::int16_t>();
  probe<std::uint8_t, std::int8_t>();
  probe<std::uint16_t, int>();
  probe<std::int8_t, long>();
  probe<std::int8_t, std::int8_t>();
}

// C14_strided_mat2.cpp -- 2x2 and 2x3 matrices over non-contiguous storages: all pairs over
// {-1,0,1,2} (quick: {-1,0,2}) for 2x2, all pairs over {0,1,-1 at one corner} for 2x3.
#include "C14_strided_mat.hpp"

namespace c14
{
using namespace noncontig;

void register_strided_mat()
{
  for (unsigned p = 0; p < 4; ++p)
    vrt::shard("noncontiguous/matrix2x2/" + std::to_string(p), [p] {
      matrix_pairs<2, 2>(vrt::thorough() ? all_over<2, 2>({-1, 0, 1, 2}) : all_over<2, 2>({-1, 0, 2}), p, 4);
    });
  vrt::shard("noncontiguous/matrix2x3", [] {
    auto fam = all_over<2, 3>({0, 1});
    fam.push_back(distinct_matrix<2, 3>(1, 1));
    fam.push_back(distinct_matrix<2, 3>(-3, 0));
    matrix_pairs<2, 3>(fam, 0, 1);
  });
}
}

// C17 (part): bitfield (==, !=, hash), grid (==..>=), tree (==, !=), raw_vector (==..>=, range::hash).
// Values are also produced through operations (bitfield: ~, |, &, ^, set, proxy; grid: resize,
// assignment over another size; tree: push_front, erase, assignment; raw_vector: reserve, erase,
// insert, shrink_to_fit) so that representation artefacts (padding bits, spare capacity) are reachable.
#include <C17_common.hpp>

#include <fcppt/container/bitfield/comparison.hpp>
#include <fcppt/container/bitfield/default_internal_type.hpp>
#include <fcppt/container/bitfield/hash.hpp>
#include <fcppt/container/bitfield/object.hpp>
#include <fcppt/container/bitfield/operators.hpp>
#include <fcppt/container/bitfield/std_hash.hpp>
#include <fcppt/container/grid/comparison.hpp>
#include <fcppt/container/grid/object.hpp>
#include <fcppt/container/grid/resize.hpp>
#include <fcppt/container/raw_vector/comparison.hpp>
#include <fcppt/container/raw_vector/object.hpp>
#include <fcppt/container/tree/comparison.hpp>
#include <fcppt/container/tree/object.hpp>
#include <fcppt/optional/object_impl.hpp>
#include <fcppt/range/hash.hpp>

#include <cstdint>
#include <string>
#include <vector>

namespace
{
using c17::key_t;

// ------------------------------------------------------------------ bitfield
enum class e3
{
  b0,
  b1,
  b2,
  fcppt_maximum = b2
};
enum class e8
{
  b0,
  b1,
  b2,
  b3,
  b4,
  b5,
  b6,
  b7,
  fcppt_maximum = b7
};
enum class e9
{
  b0,
  b1,
  b2,
  b3,
  b4,
  b5,
  b6,
  b7,
  b8,
  fcppt_maximum = b8
};

// all subsets of `varied` (enumerator indices) out of `n` enumerators; every value by ten routes
template <class E, class Internal> void bitfields(std::string const &inst, unsigned n, std::vector<unsigned> const &varied)
{
  using bf = fcppt::container::bitfield::object<E, Internal>;
  auto en = [](unsigned i) { return static_cast<E>(i); };
  c17::universe<bf> u;
  bf all{bf::null()};
  for (unsigned i = 0; i < n; ++i)
    all.set(en(i), true);
  for (unsigned mask = 0; mask < (1U << varied.size()); ++mask)
  {
    std::vector<bool> in(n, false);
    for (std::size_t b = 0; b < varied.size(); ++b)
      if ((mask >> b) & 1U)
        in[varied[b]] = true;
    key_t k;
    for (unsigned i = 0; i < n; ++i)
      k.push_back(in[i] ? 1 : 0);
    bf direct{bf::null()}, compl_{bf::null()};
    for (unsigned i = 0; i < n; ++i)
      (in[i] ? direct : compl_).set(en(i), true);
    c17::add(u, direct, k, "null + set(e,true)");
    {
      bf f{all};
      for (unsigned i = 0; i < n; ++i)
        if (!in[i])
          f.set(en(i), false);
      c17::add(u, f, k, "all + set(e,false)");
    }
    {
      bf f{bf::null()};
      for (unsigned i = n; i > 0; --i)
        if (in[i - 1])
          f[en(i - 1)] = true;
      c17::add(u, f, k, "proxy assignment");
    }
    {
      bf f{bf::null()};
      for (unsigned i = 0; i < n; ++i)
        if (in[i])
          f = f | en(i);
      c17::add(u, f, k, "null | e | ...");
    }
    c17::add(u, all & direct, k, "all & s");
    c17::add(u, all ^ compl_, k, "all ^ complement");
    c17::add(u, ~~direct, k, "~~s");
    c17::add(u, (~bf::null()) & direct, k, "~null & s");
    // routes through operator~ that leave the padding bits of the last word set if ~ does not mask them
    c17::add(u, ~compl_, k, "~complement", "complement");
    c17::add(u, (~bf::null()) ^ compl_, k, "~null ^ complement", "complement");
    c17::add(u, direct | ~all, k, "s | ~all", "complement");
  }
  for (auto const &e : u)
    for (unsigned i = 0; i < n; ++i)
      if (e.value.get(en(i)) != (e.key[i] == 1) || (e.value & en(i)) != (e.key[i] == 1) ||
          static_cast<bool>(e.value[en(i)]) != (e.key[i] == 1))
        vrt::fail("bitfield:get:" + inst, "get()/operator&/operator[] disagree with " + c17::show(e));
  c17::check_type<c17::NE | c17::HASH>("bitfield", inst, u);
  c17::check_type<c17::HASH | c17::HASH_ONLY>("bitfield", inst + "/bitfield::hash", u, 0, 1, false, fcppt::container::bitfield::hash<bf>{});
}

// ------------------------------------------------------------------ grid
void grids2(unsigned part, unsigned nparts)
{
  using grid = fcppt::container::grid::object<int, 2>;
  using dim = grid::dim;
  using pos = grid::pos;
  long const base = vrt::thorough() ? 3 : 2;
  c17::universe<grid> u;
  for (unsigned w = 0; w <= 2; ++w)
    for (unsigned h = 0; h <= 2; ++h)
      for (key_t const &el : c17::tuples(w * h, base))
      {
        // key: size (w,h), then the elements in the documented row-major iteration order
        key_t k{static_cast<long>(w), static_cast<long>(h)};
        k.insert(k.end(), el.begin(), el.end());
        auto at = [&](pos const &p) { return static_cast<int>(el[p.y() * w + p.x()]); };
        c17::add(u, grid(dim(w, h), at), k, "ctor(dim,function)");
        {
          grid g(dim(w, h), 9);
          for (unsigned y = 0; y < h; ++y)
            for (unsigned x = 0; x < w; ++x)
              g.get_unsafe(pos(x, y)) = static_cast<int>(el[y * w + x]);
          c17::add(u, g, k, "ctor(dim,value) + get_unsafe writes");
        }
        {
          // shrunk from a 3x3 grid of 9s, then written; and assigned over a grid of another size
          grid big(dim(3U, 3U), 9);
          grid g{fcppt::container::grid::resize(big, dim(w, h), [](pos const &) { return 8; })};
          for (unsigned y = 0; y < h; ++y)
            for (unsigned x = 0; x < w; ++x)
              g.get_unsafe(pos(x, y)) = static_cast<int>(el[y * w + x]);
          grid other(dim(h + 1U, w + 1U), 7);
          other = g;
          c17::add(u, other, k, "resize from 3x3, written, copy-assigned over another size");
        }
      }
  for (auto const &e : u)
    if (e.value.size().w() != static_cast<std::size_t>(e.key[0]) || e.value.size().h() != static_cast<std::size_t>(e.key[1]) ||
        e.value.content() != static_cast<std::size_t>(e.key[0] * e.key[1]))
      vrt::fail("grid:size:<int,2>", "size()/content() disagree with " + c17::show(e));
  c17::check_type<c17::NE | c17::LT | c17::REL | c17::LEX>("grid", "<int,2>", u, part, nparts);
}

void grids1()
{
  using grid = fcppt::container::grid::object<int, 1>;
  using dim = grid::dim;
  using pos = grid::pos;
  c17::universe<grid> u;
  for (unsigned w = 0; w <= 3; ++w)
    for (key_t const &el : c17::tuples(w, 3))
    {
      key_t k{static_cast<long>(w)};
      k.insert(k.end(), el.begin(), el.end());
      c17::add(u, grid(dim(w), [&](pos const &p) { return static_cast<int>(el[p.x()]); }), k, "ctor(dim,function)");
      grid g(dim(w), 9);
      for (unsigned x = 0; x < w; ++x)
        g.get_unsafe(pos(x)) = static_cast<int>(el[x]);
      grid other(dim((w + 2U) % 4U), 7);
      other = std::move(g);
      c17::add(u, std::move(other), k, "written, move-assigned over another size");
    }
  c17::check_type<c17::NE | c17::LT | c17::REL | c17::LEX>("grid", "<int,1>", u);
}

// ------------------------------------------------------------------ tree
struct tdesc
{
  int v;
  std::vector<tdesc> kids;
};

std::vector<tdesc> trees_of(unsigned n, int base);
std::vector<std::vector<tdesc>> forests_of(unsigned m, int base)
{
  if (m == 0)
    return {{}};
  std::vector<std::vector<tdesc>> r;
  for (unsigned k = 1; k <= m; ++k)
    for (tdesc const &t : trees_of(k, base))
      for (std::vector<tdesc> const &f : forests_of(m - k, base))
      {
        std::vector<tdesc> x{t};
        x.insert(x.end(), f.begin(), f.end());
        r.push_back(std::move(x));
      }
  return r;
}
std::vector<tdesc> trees_of(unsigned n, int base)
{
  std::vector<tdesc> r;
  for (int v = 0; v < base; ++v)
    for (std::vector<tdesc> const &f : forests_of(n - 1, base))
      r.push_back(tdesc{v, f});
  return r;
}

using tree = fcppt::container::tree::object<int>;

void key_of(tdesc const &d, key_t &k)
{
  k.push_back(d.v);
  k.push_back(static_cast<long>(d.kids.size()));
  for (tdesc const &c : d.kids)
    key_of(c, k);
}
tree build_back(tdesc const &d)
{
  tree t{d.v};
  for (tdesc const &c : d.kids)
    t.push_back(build_back(c));
  return t;
}
tree build_front(tdesc const &d)
{
  tree t{d.v + 5};
  for (std::size_t i = d.kids.size(); i > 0; --i)
    t.push_front(build_front(d.kids[i - 1]));
  t.value(d.v);
  return t;
}
tree build_insert_erase(tdesc const &d)
{
  tree t{d.v};
  t.push_back(77); // a child that is erased again below
  for (tdesc const &c : d.kids)
    t.insert(t.begin(), build_insert_erase(c)); // reversed ...
  t.erase(--t.end());
  tree r{d.v};
  while (!t.empty()) // ... and moved over in the right order
  {
    auto last = --t.end();
    r.push_back(t.release(last));
  }
  return r;
}

void trees(unsigned part, unsigned nparts)
{
  std::vector<tdesc> descs;
  int const base = vrt::thorough() ? 3 : 2;
  for (unsigned n = 1; n <= 3; ++n)
    for (tdesc const &d : trees_of(n, base))
      descs.push_back(d);
  if (vrt::thorough())
    for (tdesc const &d : trees_of(4, 2))
      descs.push_back(d);
  c17::universe<tree> u;
  for (tdesc const &d : descs)
  {
    key_t k;
    key_of(d, k);
    c17::add(u, build_back(d), k, "push_back");
    c17::add(u, build_front(d), k, "push_front in reverse + value()");
    tree other{42};
    other.push_back(43);
    tree const src{build_insert_erase(d)};
    other = src;
    c17::add(u, std::move(other), k, "insert/erase/release, copy-assigned over another tree");
  }
  c17::check_type<c17::NE>("tree", "<int>", u, part, nparts);
  // a subtree in place (non-root node) compares like the same tree standing alone
  for (std::size_t i = 0; i < u.size(); ++i)
  {
    if (i % nparts != part)
      continue;
    tree host{9};
    host.push_back(1);
    host.push_back(tree{u[i].value});
    host.push_back(2);
    tree const &sub = *(++host.begin());
    for (std::size_t j = 0; j < u.size(); ++j)
    {
      if (!vrt::begin("tree<int>:subtree_in_place:pair", i, j))
        continue;
      vrt::nontrivial(true);
      bool const keq = u[i].key == u[j].key;
      VRT_CHECK((sub == u[j].value) == keq && (u[j].value == sub) == keq && (sub != u[j].value) == !keq,
                "tree:eq_subtree_in_place:<int>", "non-root subtree %s vs %s", c17::show(u[i]).c_str(),
                c17::show(u[j]).c_str());
    }
  }
}

// ------------------------------------------------------------------ raw_vector
void raw_vectors(unsigned part, unsigned nparts)
{
  using rv = fcppt::container::raw_vector::object<int>;
  c17::universe<rv> u;
  for (unsigned n = 0; n <= 3; ++n)
    for (key_t const &k : c17::tuples(n, 3))
    {
      std::vector<int> const el(k.begin(), k.end());
      {
        rv v;
        for (int x : el)
          v.push_back(x);
        c17::add(u, std::move(v), k, "push_back");
      }
      {
        rv v(el.begin(), el.end());
        c17::add(u, std::move(v), k, "iterator-range ctor");
      }
      {
        rv v;
        v.reserve(16);
        for (int x : el)
          v.push_back(x);
        c17::add(u, std::move(v), k, "reserve(16) + push_back (spare capacity)");
      }
      {
        rv v{5, 6};
        for (int x : el)
          v.push_back(x);
        v.push_back(7);
        v.erase(v.begin(), v.begin() + 2);
        v.pop_back();
        c17::add(u, std::move(v), k, "longer vector, erase front range + pop_back");
      }
      {
        rv v;
        for (std::size_t i = el.size(); i > 0; --i)
        {
          int const x = el[i - 1];
          v.insert(v.begin(), x);
        }
        v.shrink_to_fit();
        c17::add(u, std::move(v), k, "insert at begin in reverse + shrink_to_fit");
      }
      {
        rv v(n, 9);
        for (unsigned i = 0; i < n; ++i)
          v[i] = el[i];
        rv w{1, 2, 3, 4, 5};
        w = std::move(v);
        c17::add(u, std::move(w), k, "ctor(n,value) + writes, move-assigned over a longer vector");
      }
      {
        rv v{8, 8, 8, 8};
        v.resize(n, 0);
        for (unsigned i = 0; i < n; ++i)
          v[i] = el[i];
        c17::add(u, std::move(v), k, "resize down from 4 + writes");
      }
    }
  for (auto const &e : u)
  {
    bool ok = e.value.size() == e.key.size();
    for (std::size_t i = 0; ok && i < e.key.size(); ++i)
      ok = e.value[i] == e.key[i];
    if (!ok)
      vrt::fail("harness:raw_vector_contents", "raw_vector contents disagree with " + c17::show(e));
  }
  // raw_vector's operator< is undocumented; the property only demands a strict weak order compatible with ==
  c17::check_type<c17::NE | c17::LT | c17::REL | c17::LEX_INFO | c17::HASH>("raw_vector", "<int>", u, part, nparts, true,
                                                                      fcppt::range::hash<rv>{});
}

} // namespace

void register_containers()
{
  vrt::shard("bitfield", [] {
    bitfields<e3, std::uint8_t>("<e3,u8>", 3, {0, 1, 2});
    bitfields<e3, fcppt::container::bitfield::default_internal_type>("<e3,default>", 3, {0, 1, 2});
    bitfields<e8, std::uint8_t>("<e8,u8>", 8, {0, 3, 7});
    bitfields<e9, std::uint8_t>("<e9,u8>", 9, {0, 7, 8});
    bitfields<e9, std::uint16_t>("<e9,u16>", 9, {0, 7, 8});
  });
  for (unsigned p = 0; p < 8; ++p)
    vrt::shard("grid2/" + std::to_string(p), [p] { grids2(p, 8); });
  vrt::shard("grid1", [] { grids1(); });
  for (unsigned p = 0; p < 8; ++p)
    vrt::shard("tree/" + std::to_string(p), [p] { trees(p, 8); });
  for (unsigned p = 0; p < 4; ++p)
    vrt::shard("raw_vector/" + std::to_string(p), [p] { raw_vectors(p, 4); });
}

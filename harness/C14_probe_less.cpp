// C14 compile probe: the ordering operators of vector (and dim) are declared for two
// different storage types S1, S2 (vector/comparison.hpp); this translation unit only
// instantiates that declared interface: a matrix row view compared with a static vector.
#include <fcppt/math/matrix/at_r.hpp>
#include <fcppt/math/matrix/object_impl.hpp>
#include <fcppt/math/matrix/row.hpp>
#include <fcppt/math/matrix/static.hpp>
#include <fcppt/math/vector/comparison.hpp>
#include <fcppt/math/vector/object_impl.hpp>
#include <fcppt/math/vector/static.hpp>

bool c14_probe_less()
{
  using matrix = fcppt::math::matrix::static_<int, 2, 2>;
  using vector = fcppt::math::vector::static_<int, 2>;
  matrix const m{fcppt::math::matrix::row(1, 2), fcppt::math::matrix::row(3, 4)};
  vector const v{1, 3};
  // row 0 = (1,2) < (1,3)
  return fcppt::math::matrix::at_r<0>(m) < v && v >= fcppt::math::matrix::at_r<0>(m);
}

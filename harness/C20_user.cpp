// C20, part 2e: uniform_int with a user-defined result type that has its own type_iso::transform
// (24.8 fixed point, base value = raw representation) and a strong typedef of it.
#include "C20_user.hpp"

namespace
{
using namespace c20;

template <class R> void user_shards(char const *rname, char const *shardname)
{
  std::string const t = rname;
  constexpr unsigned nparts = 2;
  for (unsigned part = 0; part < nparts; ++part)
  {
    vrt::shard(std::string("uniform_int/") + shardname + "/minstd_rand/" + std::to_string(part), [t, part] {
      if (part == 0)
        roundtrip_uniform_int<R>(t, boundary_values<int>());
      uniform_int_family<eng_minstd, R>(t, all_intervals<int>(), part, nparts);
    });
    vrt::shard(std::string("uniform_int/") + shardname + "/mt19937/" + std::to_string(part),
               [t, part] { uniform_int_family<eng_mt, R>(t, all_intervals<int>(), part, nparts); });
  }
}
}

void c20::register_user()
{
  user_shards<fixed24_8>("fixed24_8(user transform)", "user_fixed");
  user_shards<st_fixed>("strong_typedef<fixed24_8(user transform)>", "st_user_fixed");
}

// C15 -- textual encodings: output_to_*string -> extract_from_string for integers,
// enum to_string/from_string and stream << / >>, math vector/dim output -> input.
// Reference: the value itself (round trip), a literal name table for enums, the documented
// "(a_1,a_2,...)" format built from an independent decimal printer for vectors.
#include "C15_common.hpp"

#include <fcppt/extract_from_string.hpp>
#include <fcppt/extract_from_string_locale.hpp>
#include <fcppt/no_init.hpp>
#include <fcppt/output_to_fcppt_string.hpp>
#include <fcppt/output_to_std_string.hpp>
#include <fcppt/output_to_std_string_locale.hpp>
#include <fcppt/output_to_std_wstring.hpp>
#include <fcppt/output_to_std_wstring_locale.hpp>
#include <fcppt/output_to_string.hpp>
#include <fcppt/output_to_string_locale.hpp>
#include <fcppt/string.hpp>
#include <fcppt/assert/unreachable.hpp>
#include <fcppt/enum/from_string.hpp>
#include <fcppt/enum/input.hpp>
#include <fcppt/enum/names.hpp>
#include <fcppt/enum/output.hpp>
#include <fcppt/enum/to_static.hpp>
#include <fcppt/enum/to_string.hpp>
#include <fcppt/enum/to_string_case.hpp>
#include <fcppt/enum/to_string_impl_fwd.hpp>
#include <fcppt/math/dim/input.hpp>
#include <fcppt/math/dim/output.hpp>
#include <fcppt/math/dim/static.hpp>
#include <fcppt/math/vector/input.hpp>
#include <fcppt/math/vector/output.hpp>
#include <fcppt/math/vector/static.hpp>
#include <fcppt/optional/object_impl.hpp>

#include <array>
#include <locale>
#include <memory>
#include <sstream>
#include <string_view>

// ------------------------------------------------------------------ enums under test
namespace c15e
{
enum class e1
{
  only,
  fcppt_maximum = only
};
// names that are prefixes of one another
enum class e3 : std::uint8_t
{
  a,
  ab,
  abc,
  fcppt_maximum = abc
};
// names differing in case / by a trailing underscore
enum class e4
{
  lower,
  Lower,
  LOWER,
  lower_,
  fcppt_maximum = lower_
};
enum class e9 : std::uint16_t
{
  zero,
  one,
  two,
  three,
  four,
  five,
  six,
  seven,
  eight,
  fcppt_maximum = eight
};

// Enums whose to_string customisation returns std::string_view slices that are NOT followed by a
// NUL byte: slices of one packed table held in an exact-size heap block (adjacent names, so
// reading past a view's length shows up as extra characters, and past the last one as an ASan
// report), and overlapping slices that share their first characters.
enum class packed
{
  red,
  green,
  blue,
  mag,
  magenta,
  fcppt_maximum = magenta
};
// slices of one string literal: only the last slice is followed by a NUL, an overrun of the
// others stays inside the literal and shows up as extra characters
enum class litslice : std::uint16_t
{
  cyan,
  yellow,
  ye,
  black,
  fcppt_maximum = black
};
enum class overlap : std::uint8_t
{
  x,
  xy,
  xyz,
  fcppt_maximum = xyz
};
inline char const *heap_table(std::string_view const text)
{
  char *const p = new char[text.size()]; // exact size, no terminator, never freed
  std::copy(text.begin(), text.end(), p);
  return p;
}

#define C15_STREAM_OPS(E)                                                                                     \
  template <class Ch, class Tr> std::basic_ostream<Ch, Tr> &operator<<(std::basic_ostream<Ch, Tr> &s, E v)    \
  {                                                                                                           \
    return fcppt::enum_::output(s, v);                                                                        \
  }                                                                                                           \
  template <class Ch, class Tr> std::basic_istream<Ch, Tr> &operator>>(std::basic_istream<Ch, Tr> &s, E &v)   \
  {                                                                                                           \
    return fcppt::enum_::input(s, v);                                                                         \
  }
C15_STREAM_OPS(e1)
C15_STREAM_OPS(e3)
C15_STREAM_OPS(e4)
C15_STREAM_OPS(e9)
C15_STREAM_OPS(packed)
C15_STREAM_OPS(overlap)
C15_STREAM_OPS(litslice)
}

namespace fcppt::enum_
{
template <> struct to_string_impl<c15e::packed>
{
  static std::string_view get(c15e::packed const v)
  {
    static char const *const table = c15e::heap_table("redgreenbluemagmagenta");
    switch (v)
    {
    case c15e::packed::red: return std::string_view(table, 3);
    case c15e::packed::green: return std::string_view(table + 3, 5);
    case c15e::packed::blue: return std::string_view(table + 8, 4);
    case c15e::packed::mag: return std::string_view(table + 12, 3);
    case c15e::packed::magenta: return std::string_view(table + 15, 7);
    }
    FCPPT_ASSERT_UNREACHABLE;
  }
};
template <> struct to_string_impl<c15e::litslice>
{
  static std::string_view get(c15e::litslice const v)
  {
    static constexpr char const *table = "cyanyellowyeblack";
    switch (v)
    {
    case c15e::litslice::cyan: return std::string_view(table, 4);
    case c15e::litslice::yellow: return std::string_view(table + 4, 6);
    case c15e::litslice::ye: return std::string_view(table + 10, 2);
    case c15e::litslice::black: return std::string_view(table + 12, 5);
    }
    FCPPT_ASSERT_UNREACHABLE;
  }
};
template <> struct to_string_impl<c15e::overlap>
{
  static std::string_view get(c15e::overlap const v)
  {
    static char const *const table = c15e::heap_table("xyz");
    switch (v)
    {
    case c15e::overlap::x: return std::string_view(table, 1);
    case c15e::overlap::xy: return std::string_view(table, 2);
    case c15e::overlap::xyz: return std::string_view(table, 3);
    }
    FCPPT_ASSERT_UNREACHABLE;
  }
};
template <> struct to_string_impl<c15e::e1>
{
  static std::string_view get(c15e::e1 const v)
  {
    switch (v)
    {
      FCPPT_ENUM_TO_STRING_CASE(c15e::e1, only);
    }
    FCPPT_ASSERT_UNREACHABLE;
  }
};
template <> struct to_string_impl<c15e::e3>
{
  static std::string_view get(c15e::e3 const v)
  {
    switch (v)
    {
      FCPPT_ENUM_TO_STRING_CASE(c15e::e3, a);
      FCPPT_ENUM_TO_STRING_CASE(c15e::e3, ab);
      FCPPT_ENUM_TO_STRING_CASE(c15e::e3, abc);
    }
    FCPPT_ASSERT_UNREACHABLE;
  }
};
template <> struct to_string_impl<c15e::e4>
{
  static std::string_view get(c15e::e4 const v)
  {
    switch (v)
    {
      FCPPT_ENUM_TO_STRING_CASE(c15e::e4, lower);
      FCPPT_ENUM_TO_STRING_CASE(c15e::e4, Lower);
      FCPPT_ENUM_TO_STRING_CASE(c15e::e4, LOWER);
      FCPPT_ENUM_TO_STRING_CASE(c15e::e4, lower_);
    }
    FCPPT_ASSERT_UNREACHABLE;
  }
};
template <> struct to_string_impl<c15e::e9>
{
  static std::string_view get(c15e::e9 const v)
  {
    switch (v)
    {
      FCPPT_ENUM_TO_STRING_CASE(c15e::e9, zero);
      FCPPT_ENUM_TO_STRING_CASE(c15e::e9, one);
      FCPPT_ENUM_TO_STRING_CASE(c15e::e9, two);
      FCPPT_ENUM_TO_STRING_CASE(c15e::e9, three);
      FCPPT_ENUM_TO_STRING_CASE(c15e::e9, four);
      FCPPT_ENUM_TO_STRING_CASE(c15e::e9, five);
      FCPPT_ENUM_TO_STRING_CASE(c15e::e9, six);
      FCPPT_ENUM_TO_STRING_CASE(c15e::e9, seven);
      FCPPT_ENUM_TO_STRING_CASE(c15e::e9, eight);
    }
    FCPPT_ASSERT_UNREACHABLE;
  }
};
}

namespace
{
using namespace c15;

std::wstring wide(std::string const &s) // ASCII only
{
  std::wstring r;
  for (char c : s)
    r += static_cast<wchar_t>(static_cast<unsigned char>(c));
  return r;
}
std::string show(std::string const &s) { return "\"" + vrt::json_escape(s) + "\""; }
std::string show(std::wstring const &s)
{
  std::string r = "L\"";
  for (wchar_t c : s)
    r += (c >= 0x20 && c < 0x7f) ? std::string(1, static_cast<char>(c)) : vrt::fmt("\\x%x", static_cast<unsigned>(c));
  return r + "\"";
}

void use_global(char const *locname) { std::locale::global(std::locale(locname)); }

// ------------------------------------------------------------ integer text round trip
// variant = which output function / string type / locale parameter
constexpr int n_variants = 8;
constexpr bool variant_is_wide(int k) { return k == 1 || k == 3 || k == 6; }

template <class T, class Str> void judge_rt(std::string const &name, T v, Str const &text, fcppt::optional::object<T> const &r, bool ws)
{
  if (!r.has_value())
    vrt::fail(name + (ws ? ":nothing:whitespace" : ":nothing"),
              vrt::fmt("value %lld printed as %s does not read back (extract_from_string returned nothing)", (long long)v, show(text).c_str()));
  else if (r.get_unsafe() != v)
    vrt::fail(name + ":wrong", vrt::fmt("value %lld printed as %s reads back as %lld", (long long)v, show(text).c_str(),
                                        (long long)r.get_unsafe()));
}

template <class T> void text_rt(char const *tname, std::vector<T> const &dom, unsigned part = 0, unsigned nparts = 1)
{
  static std::string const name = std::string("roundtrip_text<") + tname + ">";
  static std::string const sname = std::string("extract_strict<") + tname + ">";
  constexpr bool byte_type = sizeof(T) == 1;
  std::locale const utf8("C.UTF-8");
  std::locale const classic = std::locale::classic();
  std::size_t idx = 0;
  for (T const v : dom)
  {
    if (idx++ % nparts != part)
      continue;
    if (vrt::out_of_time())
      return;
    for (int k = 0; k < n_variants; ++k)
    {
      if (byte_type && variant_is_wide(k))
        continue; // wide streams have no extractor for signed/unsigned char
      if (!vrt::begin(name.c_str(), static_cast<long long>(v), k))
        continue;
      vrt::nontrivial(byte_type || static_cast<i128>(v) < 0 || static_cast<i128>(v) >= 10);
      vrt::maybe_sample();
      // iostreams treat the 8-bit types as characters; the C-locale white space characters
      // are skipped by operator>> and can never be read back
      bool const ws = byte_type && (static_cast<int>(v) == 32 || (static_cast<int>(v) >= 9 && static_cast<int>(v) <= 13));
      if constexpr (!byte_type)
      {
        switch (k)
        {
        case 1:
        {
          std::wstring const s = fcppt::output_to_std_wstring(v);
          judge_rt(name, v, s, fcppt::extract_from_string<T>(s), ws);
          continue;
        }
        case 3:
        {
          std::wstring const s = fcppt::output_to_string<std::wstring>(v);
          judge_rt(name, v, s, fcppt::extract_from_string<T>(s), ws);
          continue;
        }
        case 6:
        {
          std::wstring const s = fcppt::output_to_std_wstring_locale(v, utf8);
          judge_rt(name, v, s, fcppt::extract_from_string_locale<T>(s, utf8), ws);
          continue;
        }
        default: break;
        }
      }
      switch (k)
      {
      case 0:
      {
        std::string const s = fcppt::output_to_std_string(v);
        judge_rt(name, v, s, fcppt::extract_from_string<T>(s), ws);
        break;
      }
      case 2:
      {
        std::string const s = fcppt::output_to_string<std::string>(v);
        judge_rt(name, v, s, fcppt::extract_from_string<T>(s), ws);
        break;
      }
      case 4:
      {
        fcppt::string const s = fcppt::output_to_fcppt_string(v);
        judge_rt(name, v, s, fcppt::extract_from_string<T>(s), ws);
        break;
      }
      case 5:
      {
        std::string const s = fcppt::output_to_std_string_locale(v, utf8);
        judge_rt(name, v, s, fcppt::extract_from_string_locale<T>(s, utf8), ws);
        break;
      }
      case 7:
      {
        std::string const s = fcppt::output_to_string_locale<std::string>(v, classic);
        judge_rt(name, v, s, fcppt::extract_from_string_locale<T>(s, classic), ws);
        break;
      }
      default: break;
      }
    }
    // "The string has to be consumed completely."
    if constexpr (!byte_type)
    {
      std::string const s = fcppt::output_to_std_string(v);
      char const *const tails[] = {"x", " ", ".5", " 1", ","};
      for (int k = 0; k < 5; ++k)
      {
        if (!vrt::begin(sname.c_str(), static_cast<long long>(v), k))
          continue;
        vrt::nontrivial(true);
        std::string const in = s + tails[k];
        fcppt::optional::object<T> const r = fcppt::extract_from_string<T>(in);
        VRT_CHECK(!r.has_value(), sname + ":trailing_accepted", "%s is not consumed completely but gave %lld", show(in).c_str(),
                  (long long)(r.has_value() ? r.get_unsafe() : 0));
        std::wstring const win = wide(in);
        fcppt::optional::object<T> const wr = fcppt::extract_from_string<T>(win);
        VRT_CHECK(!wr.has_value(), sname + ":trailing_accepted", "%s is not consumed completely but gave %lld", show(win).c_str(),
                  (long long)(wr.has_value() ? wr.get_unsafe() : 0));
      }
    }
  }
}

// decimal texts (produced by the harness) of numbers inside and outside the range of T:
// the value if representable, nothing otherwise -- never a wrapped/truncated value.
// Negative texts for unsigned T are skipped (iostreams define them to wrap).
template <class T> void extract_decimal(char const *tname, std::vector<i128> const &xs)
{
  static std::string const name = std::string("extract_decimal<") + tname + ">";
  for (i128 const x : xs)
  {
    if (std::is_unsigned_v<T> && x < 0)
      continue;
    std::string const text = dec(x);
    if (!vrt::begin_text(name.c_str(), name + "(" + text + ")"))
      continue;
    bool const rep = fits<T>(x);
    vrt::nontrivial(!rep || x == lo<T>() || x == hi<T>());
    vrt::maybe_sample();
    for (int w = 0; w < 2; ++w)
    {
      fcppt::optional::object<T> const r = w ? fcppt::extract_from_string<T>(wide(text)) : fcppt::extract_from_string<T>(text);
      if (rep)
      {
        VRT_CHECK(r.has_value(), name + ":rejected", "representable %s (%s) gave nothing", text.c_str(), w ? "wide" : "narrow");
        if (r.has_value())
          VRT_CHECK(static_cast<i128>(r.get_unsafe()) == x, name + ":wrong", "%s read as %s", text.c_str(),
                    dec(static_cast<i128>(r.get_unsafe())).c_str());
      }
      else
        VRT_CHECK(!r.has_value(), name + ":overflow_accepted", "unrepresentable %s (%s) read as %s", text.c_str(), w ? "wide" : "narrow",
                  dec(static_cast<i128>(r.has_value() ? r.get_unsafe() : T{})).c_str());
    }
  }
}

template <class T> std::vector<T> all_values()
{
  std::vector<T> r;
  for (i128 v = lo<T>(); v <= hi<T>(); ++v)
    r.push_back(static_cast<T>(v));
  return r;
}

template <class T> std::vector<i128> boundary_texts()
{
  std::set<i128> s;
  for (T v : lattice<T>())
    s.insert(static_cast<i128>(v));
  i128 const two64 = i128(1) << 64;
  for (i128 b : {lo<T>(), hi<T>()})
    for (i128 d = -3; d <= 3; ++d)
    {
      s.insert(b + d);
      s.insert(b * 10 + d);
    }
  for (i128 v : {two64, two64 + 5, -two64, two64 * 10, i128(1) << 32, (i128(1) << 32) + 7, i128(1) << 16, i128(1) << 31, i128(1) << 63,
                 -(i128(1) << 63) - 1, -(i128(1) << 31) - 1, hi<T>() + 1 + (i128(1) << 16), hi<T>() + (i128(1) << 32) + 1, two64 + hi<T>()})
    s.insert(v);
  return std::vector<i128>(s.begin(), s.end());
}

// ------------------------------------------------------------ enums
template <class E> E enumerator(std::size_t i) { return static_cast<E>(i); }

template <class E> void enum_all(char const *ename, std::vector<std::string> const &names, std::vector<std::string> const &extra)
{
  static std::string const n1 = std::string("enum<") + ename + ">";
  static std::string const n2 = std::string("enum_pair<") + ename + ">";
  static std::string const n3 = std::string("enum_from_string<") + ename + ">";
  auto lookup = [&](std::string const &s) -> int {
    for (std::size_t i = 0; i < names.size(); ++i)
      if (names[i] == s)
        return static_cast<int>(i);
    return -1;
  };
  for (std::size_t i = 0; i < names.size(); ++i)
  {
    if (!vrt::begin(n1.c_str(), i))
      continue;
    vrt::describe(n1 + "(" + names[i] + ")");
    vrt::nontrivial(true);
    vrt::maybe_sample();
    E const e = enumerator<E>(i);
    std::string const &nm = names[i];
    VRT_CHECK(std::string(fcppt::enum_::to_string(e)) == nm, n1 + ":to_string", "to_string gives %s",
              std::string(fcppt::enum_::to_string(e)).c_str());
    VRT_CHECK(std::string(fcppt::enum_::names<E>()[e]) == nm, n1 + ":names", "names()[e] is %s",
              std::string(fcppt::enum_::names<E>()[e]).c_str());
    {
      // the name of the compile-time enumerator selected by to_static
      std::string const st = fcppt::enum_::to_static(
          e, [](auto const ic) { return std::string(fcppt::enum_::to_string(decltype(ic)::value)); });
      VRT_CHECK(st == nm, n1 + ":to_static", "to_string of the static enumerator gives %s", show(st).c_str());
      VRT_CHECK(fcppt::enum_::to_string(e).size() == nm.size(), n1 + ":to_string_size", "to_string has %zu characters",
                fcppt::enum_::to_string(e).size());
    }
    {
      fcppt::optional::object<E> const r = fcppt::enum_::from_string<E>(std::string_view(fcppt::enum_::to_string(e)));
      VRT_CHECK(r.has_value() && r.get_unsafe() == e, n1 + ":from_string", "from_string(to_string(e)) is %s",
                r.has_value() ? std::string(fcppt::enum_::to_string(r.get_unsafe())).c_str() : "nothing");
    }
    {
      std::ostringstream os;
      os << e;
      VRT_CHECK(os.good() && os.str() == nm, n1 + ":output", "stream output is %s", show(os.str()).c_str());
      std::istringstream is(os.str());
      E r = enumerator<E>(i == 0 ? names.size() - 1 : 0);
      is >> r;
      VRT_CHECK(!is.fail() && r == e, n1 + ":input", "stream input of %s: fail=%d value=%s", show(os.str()).c_str(), int(is.fail()),
                std::string(fcppt::enum_::to_string(r)).c_str());
    }
    {
      std::wostringstream os;
      os << e;
      VRT_CHECK(os.good() && os.str() == wide(nm), n1 + ":woutput", "wide stream output is %s", show(os.str()).c_str());
      std::wistringstream is(os.str());
      E r = enumerator<E>(i == 0 ? names.size() - 1 : 0);
      is >> r;
      VRT_CHECK(!is.fail() && r == e, n1 + ":winput", "wide stream input of %s: fail=%d value=%s", show(os.str()).c_str(), int(is.fail()),
                std::string(fcppt::enum_::to_string(r)).c_str());
    }
    {
      std::string const s = fcppt::output_to_std_string(e);
      VRT_CHECK(s == nm, n1 + ":output_to_std_string", "gives %s", show(s).c_str());
      fcppt::optional::object<E> const r = fcppt::extract_from_string<E>(s);
      VRT_CHECK(r.has_value() && r.get_unsafe() == e, n1 + ":extract_from_string", "extract_from_string(%s) is %s", show(s).c_str(),
                r.has_value() ? std::string(fcppt::enum_::to_string(r.get_unsafe())).c_str() : "nothing");
      std::wstring const ws = fcppt::output_to_std_wstring(e);
      VRT_CHECK(ws == wide(nm), n1 + ":output_to_std_wstring", "gives %s", show(ws).c_str());
      fcppt::optional::object<E> const wr = fcppt::extract_from_string<E>(ws);
      VRT_CHECK(wr.has_value() && wr.get_unsafe() == e, n1 + ":extract_from_wstring", "extract_from_string(%s) is %s", show(ws).c_str(),
                wr.has_value() ? std::string(fcppt::enum_::to_string(wr.get_unsafe())).c_str() : "nothing");
    }
  }
  // two enumerators in one stream
  for (std::size_t i = 0; i < names.size(); ++i)
    for (std::size_t j = 0; j < names.size(); ++j)
    {
      if (!vrt::begin(n2.c_str(), i, j))
        continue;
      vrt::describe(n2 + "(" + names[i] + ", " + names[j] + ")");
      vrt::nontrivial(i != j);
      vrt::maybe_sample();
      E const a = enumerator<E>(i), b = enumerator<E>(j);
      std::string const want = names[i] + " " + names[j];
      {
        std::stringstream ss;
        ss << a << ' ' << b;
        VRT_CHECK(ss.str() == want, n2 + ":output", "gives %s", show(ss.str()).c_str());
        E ra = enumerator<E>(j), rb = enumerator<E>(i);
        ss >> ra >> rb;
        VRT_CHECK(!ss.fail() && ra == a && rb == b, n2 + ":input", "reading %s: fail=%d got %s %s", show(want).c_str(), int(ss.fail()),
                  std::string(fcppt::enum_::to_string(ra)).c_str(), std::string(fcppt::enum_::to_string(rb)).c_str());
      }
      {
        std::wstringstream ss;
        ss << a << L' ' << b;
        VRT_CHECK(ss.str() == wide(want), n2 + ":woutput", "gives %s", show(ss.str()).c_str());
        E ra = enumerator<E>(j), rb = enumerator<E>(i);
        ss >> ra >> rb;
        VRT_CHECK(!ss.fail() && ra == a && rb == b, n2 + ":winput", "reading %s: fail=%d got %s %s", show(want).c_str(), int(ss.fail()),
                  std::string(fcppt::enum_::to_string(ra)).c_str(), std::string(fcppt::enum_::to_string(rb)).c_str());
      }
    }
  // arbitrary strings: exact table lookup
  std::set<std::string> cand(extra.begin(), extra.end());
  cand.insert("");
  for (std::string const &nm : names)
  {
    for (std::size_t k = 0; k <= nm.size(); ++k)
      cand.insert(nm.substr(0, k));
    for (std::size_t k = 1; k < nm.size(); ++k)
      cand.insert(nm.substr(k));
    cand.insert(nm + "x");
    cand.insert(nm + " ");
    cand.insert(" " + nm);
    cand.insert(nm + nm);
    std::string f = nm;
    f[0] = static_cast<char>(f[0] ^ 0x20);
    cand.insert(f);
    std::string u = nm;
    for (char &c : u)
      if (c >= 'a' && c <= 'z')
        c = static_cast<char>(c - 32);
    cand.insert(u);
  }
  for (std::string const &s : cand)
  {
    if (!vrt::begin_text(n3.c_str(), n3 + "(" + show(s) + ")"))
      continue;
    int const want = lookup(s);
    vrt::nontrivial(want < 0 && !s.empty());
    vrt::maybe_sample();
    // exact-size buffer for the string_view argument
    std::unique_ptr<char[]> buf(new char[s.size()]);
    std::copy(s.begin(), s.end(), buf.get());
    fcppt::optional::object<E> const r = fcppt::enum_::from_string<E>(std::string_view(buf.get(), s.size()));
    if (want >= 0)
      VRT_CHECK(r.has_value() && static_cast<int>(r.get_unsafe()) == want, n3 + ":missed", "name %s gives %d", show(s).c_str(),
                r.has_value() ? static_cast<int>(r.get_unsafe()) : -1);
    else
      VRT_CHECK(!r.has_value(), n3 + ":spurious", "non-name %s gives enumerator %d", show(s).c_str(),
                r.has_value() ? static_cast<int>(r.get_unsafe()) : -1);
    bool const has_ws = s.find(' ') != std::string::npos;
    if (!s.empty() && !has_ws)
    {
      // "In case this fails, the failbit of _stream is set."
      std::istringstream is(s);
      E re = enumerator<E>(0);
      is >> re;
      VRT_CHECK(is.fail() == (want < 0), n3 + ":stream_state", "stream input of %s: fail=%d", show(s).c_str(), int(is.fail()));
      if (want >= 0 && !is.fail())
        VRT_CHECK(static_cast<int>(re) == want, n3 + ":stream_value", "stream input of %s gives %d", show(s).c_str(), static_cast<int>(re));
      std::wistringstream wis(wide(s));
      E wre = enumerator<E>(0);
      wis >> wre;
      VRT_CHECK(wis.fail() == (want < 0), n3 + ":wstream_state", "wide stream input of %s: fail=%d", show(s).c_str(), int(wis.fail()));
      if (want >= 0 && !wis.fail())
        VRT_CHECK(static_cast<int>(wre) == want, n3 + ":wstream_value", "wide stream input of %s gives %d", show(s).c_str(),
                  static_cast<int>(wre));
    }
  }
}

std::vector<std::string> abc_strings(unsigned maxlen)
{
  std::vector<std::string> r{""};
  std::size_t from = 0;
  for (unsigned l = 1; l <= maxlen; ++l)
  {
    std::size_t const to = r.size();
    for (std::size_t i = from; i < to; ++i)
      for (char c : {'a', 'b', 'c'})
        r.push_back(r[i] + c);
    from = to;
  }
  return r;
}

// ------------------------------------------------------------ vector / dim
template <class V> struct vtraits;
template <class T, fcppt::math::size_type N, class S> struct vtraits<fcppt::math::vector::object<T, N, S>>
{
  using value = T;
  static constexpr unsigned n = N;
  static constexpr char const *kind = "vector";
};
template <class T, fcppt::math::size_type N, class S> struct vtraits<fcppt::math::dim::object<T, N, S>>
{
  using value = T;
  static constexpr unsigned n = N;
  static constexpr char const *kind = "dim";
};

template <class V, class Ch> void vec_one(std::string const &name, std::vector<i128> const &comp, char const *chname)
{
  using T = typename vtraits<V>::value;
  constexpr unsigned n = vtraits<V>::n;
  using str = std::basic_string<Ch>;
  auto W = [](std::string const &s) {
    str r;
    for (char c : s)
      r += static_cast<Ch>(static_cast<unsigned char>(c));
    return r;
  };
  V v{fcppt::no_init{}};
  for (unsigned i = 0; i < n; ++i)
    v.get_unsafe(i) = static_cast<T>(comp[i]);
  // documented format "(a_1,a_2,...)"
  std::string want = "(";
  for (unsigned i = 0; i < n; ++i)
    want += (i ? "," : "") + dec(comp[i]);
  want += ")";
  std::basic_ostringstream<Ch> os;
  os << v;
  str const text = os.str();
  // vector/output.hpp, dim/output.hpp: "Uses the output format (a_1,a_2,...) where a_i are the vector's components"
  VRT_CHECK(os.good() && text == W(want), name + ":output", "%s output is %s want %s", chname, show(text).c_str(), want.c_str());
  auto parse = [&](str const &in, bool &ok) {
    V r{fcppt::no_init{}};
    for (unsigned i = 0; i < n; ++i)
      r.get_unsafe(i) = static_cast<T>(77);
    std::basic_istringstream<Ch> is(in);
    is >> r;
    ok = !is.fail();
    std::vector<i128> out;
    for (unsigned i = 0; i < n; ++i)
      out.push_back(static_cast<i128>(r.get_unsafe(i)));
    return out;
  };
  auto cstr = [&](std::vector<i128> const &c) {
    std::string s;
    for (i128 x : c)
      s += dec(x) + " ";
    return s;
  };
  bool ok = false;
  std::vector<i128> got = parse(text, ok);
  VRT_CHECK(ok && got == comp, name + ":roundtrip", "%s: output %s reads back as ok=%d [%s]", chname, show(text).c_str(), int(ok),
            cstr(got).c_str());
  // the reference text itself and the spaced form used by fcppt's own test "(42, 3)"
  got = parse(W(want), ok);
  VRT_CHECK(ok && got == comp, name + ":input", "%s: %s reads as ok=%d [%s]", chname, want.c_str(), int(ok), cstr(got).c_str());
  std::string spaced = "(";
  for (unsigned i = 0; i < n; ++i)
    spaced += (i ? ", " : "") + dec(comp[i]);
  spaced += ")";
  got = parse(W(spaced), ok);
  // accepted by the current implementation and used by fcppt's own test, but the documentation only
  // names the format "(a_1,a_2,...)": information, not a verdict
  if (!(ok && got == comp))
    vrt::count("info:vector_input_rejects_blank_after_comma");
  // every proper prefix of the text is incomplete: input must fail, not yield a shorter value
  for (std::size_t k = 0; k < want.size(); ++k)
  {
    parse(W(want.substr(0, k)), ok);
    VRT_CHECK(!ok, name + ":prefix_accepted", "%s: truncated text %s was accepted", chname, show(want.substr(0, k)).c_str());
  }
  // wrong delimiters
  for (std::size_t k = 0; k < want.size(); ++k)
  {
    char const c = want[k];
    if (c != '(' && c != ')' && c != ',')
      continue;
    std::string bad = want;
    bad[k] = c == '(' ? '[' : (c == ')' ? ']' : ';');
    parse(W(bad), ok);
    VRT_CHECK(!ok, name + ":bad_delimiter_accepted", "%s: %s was accepted", chname, show(bad).c_str());
  }
}

template <class V> void vec_all(char const *tname, std::vector<i128> const &alphabet, unsigned part = 0, unsigned nparts = 1)
{
  constexpr unsigned n = vtraits<V>::n;
  static std::string const name = std::string(vtraits<V>::kind) + "_io<" + tname + "," + std::to_string(n) + ">";
  std::size_t total = 1;
  for (unsigned i = 0; i < n; ++i)
    total *= alphabet.size();
  for (std::size_t code = 0; code < total; ++code)
  {
    if (code % nparts != part)
      continue;
    if (vrt::out_of_time())
      return;
    std::vector<i128> comp;
    std::size_t c = code;
    bool nz = false;
    std::string d = name + "(";
    for (unsigned i = 0; i < n; ++i)
    {
      comp.push_back(alphabet[c % alphabet.size()]);
      c /= alphabet.size();
      nz = nz || comp.back() < 0 || comp.back() > 9;
      d += (i ? "," : "") + dec(comp.back());
    }
    d += ")";
    if (!vrt::begin_text(name.c_str(), d))
      continue;
    vrt::nontrivial(n >= 2 && nz);
    vrt::maybe_sample();
    vec_one<V, char>(name, comp, "char");
    vec_one<V, wchar_t>(name, comp, "wchar_t");
  }
}

template <class T> std::vector<i128> as128(std::vector<T> const &v)
{
  std::vector<i128> r;
  for (T x : v)
    r.push_back(static_cast<i128>(x));
  return r;
}
template <class T> std::vector<i128> thin_lattice()
{
  std::vector<i128> l = as128(lattice<T>());
  if (vrt::thorough())
    return l;
  // quick tier: every 4th lattice point plus the extremes, 0 and +-1
  std::set<i128> r;
  for (std::size_t i = 0; i < l.size(); i += 4)
    r.insert(l[i]);
  r.insert(l.back());
  r.insert(0);
  r.insert(1);
  if (lo<T>() < 0)
    r.insert(-1);
  return std::vector<i128>(r.begin(), r.end());
}
}

void c15::register_text()
{
  // --- integers; insert_extract_locale() is the *global* C++ locale: run under both "C" and "C.UTF-8"
  for (char const *loc : {"C", "C.UTF-8"})
  {
    std::string const l = loc;
    for (unsigned p = 0; p < 2; ++p)
    {
      vrt::shard("text_i16/" + l + "/" + std::to_string(p), [loc, p] {
        use_global(loc);
        text_rt<short>("i16", all_values<short>(), p, 2);
      });
      vrt::shard("text_u16/" + l + "/" + std::to_string(p), [loc, p] {
        use_global(loc);
        text_rt<unsigned short>("u16", all_values<unsigned short>(), p, 2);
      });
    }
    vrt::shard("text_32_64/" + l, [loc] {
      use_global(loc);
      text_rt<int>("i32", lattice<int>());
      text_rt<unsigned>("u32", lattice<unsigned>());
      text_rt<long>("i64", lattice<long>());
      text_rt<unsigned long>("u64", lattice<unsigned long>());
      text_rt<long long>("long long", lattice<long long>());
      text_rt<unsigned long long>("unsigned long long", lattice<unsigned long long>());
    });
    // the 8-bit integer types are characters to iostreams (DESIGN.md F16)
    vrt::shard("text_8/" + l, [loc] {
      use_global(loc);
      text_rt<signed char>("i8", all_values<signed char>());
      text_rt<unsigned char>("u8", all_values<unsigned char>());
      text_rt<char>("char", all_values<char>());
    });
    vrt::shard("extract_decimal/" + l, [loc] {
      use_global(loc);
      std::vector<i128> dense;
      for (i128 x = -70000; x <= 70000; ++x)
        dense.push_back(x);
      extract_decimal<short>("i16", dense);
      extract_decimal<unsigned short>("u16", dense);
      extract_decimal<int>("i32", boundary_texts<int>());
      extract_decimal<unsigned>("u32", boundary_texts<unsigned>());
      extract_decimal<long>("i64", boundary_texts<long>());
      extract_decimal<unsigned long>("u64", boundary_texts<unsigned long>());
      extract_decimal<long long>("long long", boundary_texts<long long>());
    });
  }
  // --- enums
  vrt::shard("enum", [] {
    use_global("C.UTF-8");
    std::vector<std::string> const abc = abc_strings(vrt::thorough() ? 5 : 4);
    std::vector<std::string> const words{"only", "a", "ab", "abc", "lower", "Lower", "LOWER", "lower_", "zero", "one", "two", "three",
                                         "four", "five", "six", "seven", "eight", "nine", "fcppt_maximum", "0", "1", "e3::a", "abcd"};
    std::vector<std::string> extra = abc;
    extra.insert(extra.end(), words.begin(), words.end());
    enum_all<c15e::e1>("e1", {"only"}, extra);
    enum_all<c15e::e3>("e3", {"a", "ab", "abc"}, extra);
    enum_all<c15e::e4>("e4", {"lower", "Lower", "LOWER", "lower_"}, extra);
    enum_all<c15e::e9>("e9", {"zero", "one", "two", "three", "four", "five", "six", "seven", "eight"}, extra);
  });
  // to_string customisations returning views that are not NUL-terminated
  auto const view_extra = [] {
    std::vector<std::string> extra = abc_strings(3);
    for (char const *w : {"redgreen", "redgreenbluemagmagenta", "greenbluemagmagenta", "magm", "magmagenta", "ma", "agenta", "gree", "bluemag",
                          "x", "xy", "xyz", "xyzx", "yz", "z", "red", "green", "blue", "mag", "magenta", "Red", "RED", "cyan", "yellow", "ye",
                          "black", "cyanyellow", "cyanyellowyeblack", "yellowye", "yeblack", "yel", "y", "lack"})
      extra.push_back(w);
    return extra;
  };
  vrt::shard("enum_views", [view_extra] {
    use_global("C.UTF-8");
    enum_all<c15e::litslice>("litslice", {"cyan", "yellow", "ye", "black"}, view_extra());
  });
  // the same with exact-size heap blocks: reading past the block is an ASan report
  vrt::shard("enum_views_heap/packed", [view_extra] {
    use_global("C.UTF-8");
    enum_all<c15e::packed>("packed", {"red", "green", "blue", "mag", "magenta"}, view_extra());
  });
  vrt::shard("enum_views_heap/overlap", [view_extra] {
    use_global("C");
    enum_all<c15e::overlap>("overlap", {"x", "xy", "xyz"}, view_extra());
  });
  // --- vectors and dims
  namespace fv = fcppt::math::vector;
  namespace fd = fcppt::math::dim;
  vrt::shard("vector_small", [] {
    use_global("C.UTF-8");
    std::vector<i128> const a{-2, -1, 0, 1, 2};
    vec_all<fv::static_<int, 1>>("int", a);
    vec_all<fv::static_<int, 2>>("int", a);
    vec_all<fv::static_<int, 3>>("int", a);
    vec_all<fv::static_<long, 2>>("long", a);
    vec_all<fv::static_<short, 3>>("short", a);
    if (vrt::thorough())
      vec_all<fv::static_<int, 4>>("int", a);
  });
  vrt::shard("dim_small", [] {
    use_global("C.UTF-8");
    std::vector<i128> const a{-2, -1, 0, 1, 2};
    vec_all<fd::static_<int, 1>>("int", a);
    vec_all<fd::static_<int, 2>>("int", a);
    vec_all<fd::static_<int, 3>>("int", a);
    vec_all<fd::static_<unsigned, 2>>("unsigned", {0, 1, 2, 3, 4});
    vec_all<fd::static_<unsigned long, 3>>("unsigned long", {0, 1, 2, 3, 4});
    if (vrt::thorough())
      vec_all<fd::static_<int, 4>>("int", a);
  });
  // boundary components (digit-count changes, sign, extremes), all pairs
  for (unsigned p = 0; p < 4; ++p)
  {
    vrt::shard("vector_lattice/" + std::to_string(p), [p] {
      use_global(p % 2 ? "C" : "C.UTF-8");
      vec_all<fv::static_<int, 2>>("int", thin_lattice<int>(), p, 4);
      vec_all<fv::static_<unsigned short, 2>>("unsigned short", thin_lattice<unsigned short>(), p, 4);
    });
    vrt::shard("dim_lattice/" + std::to_string(p), [p] {
      use_global(p % 2 ? "C" : "C.UTF-8");
      vec_all<fd::static_<long long, 2>>("long long", thin_lattice<long long>(), p, 4);
      vec_all<fd::static_<unsigned, 2>>("unsigned", thin_lattice<unsigned>(), p, 4);
    });
  }
}

// C13: instantiations for the heap-backed coordinate type with observable moves (C13_heapint.hpp), N = 1,2
#include <C13_heapint.hpp>
#include <C13_impl.hpp>

namespace c13
{
template <> struct tname<heap_int> { static constexpr char const *v = "heap_int"; };
template <> struct move_probe<heap_int>
{
  static unsigned long take()
  {
    unsigned long const n = heap_int::moved_reads;
    heap_int::moved_reads = 0;
    return n;
  }
};
template <> struct live_probe<heap_int>
{
  static long count() { return heap_int::live_cells; }
};
}

void c13::reg_heap()
{
  using T = c13::heap_int;
  // the integer scope: corners [-3,3] in 1-D and 2-D, every way of constructing a box, all boxes, all pairs
  // (2-D all pairs on [-2,2] plus all pairs of non-empty boxes on [-3,3] in the quick tier)
  c13::reg_small<T, 1>("single<heap_int,1>", 3, 3, 2);
  c13::reg_pairs<T, 1>("pairs<heap_int,1>", 3, 3, false, 1);
  c13::reg_small<T, 2>("single<heap_int,2>", 3, 3, 2);
  c13::reg_pairs<T, 2>("pairs<heap_int,2>", 2, 3, false, 16);
  c13::reg_pairs<T, 2>("pairs_nonempty<heap_int,2>", 3, 3, true, 4);
  // init_max / init_dim with counting, stream-like and throwing callbacks (leak check on the heap cells)
  c13::reg_callbacks<T>();
}

// C14_rect_d.cpp (shapes 1xN, Nx1) -- rectangular matrices: an implementation that confuses rows and
// columns (strides, index_absolute, row views, result shapes) is invisible on square
// operands.  Shapes 1x2 .. 4x3; families: every matrix over a small entry set for the
// small shapes, all matrices with <= 2 non-zero entries from {-1,1} plus a matrix with
// pairwise different entries for the larger ones.
#include "C14_matrix.hpp"

namespace c14
{
namespace
{
template <sz R, sz C> std::vector<rmat<R, C>> structured(int maxnz)
{
  rmat<R, C> ones;
  ones.d.fill(1);
  return concat_unique<rmat<R, C>>({sparse_over<R, C>(maxnz, {1, -1}), {distinct_matrix<R, C>(1, 0), distinct_matrix<R, C>(2, 1), ones}});
}
template <sz R, sz C> std::vector<rmat<R, C>> full_or_structured(std::vector<long> const &vals, int quick_nz)
{
  return vrt::thorough() ? all_over<R, C>(vals) : structured<R, C>(quick_nz);
}
std::vector<long> const pm1{-1, 0, 1};
}

void register_rect_d()
{
  vrt::shard("rect/unary/vectors", [] {
    shape_unary_all<1, 2>(make_ops(all_over<1, 2>(range(-2, 2))), range(-2, 3));
    shape_unary_all<2, 1>(make_ops(all_over<2, 1>(range(-2, 2))), range(-2, 3));
    shape_unary_all<1, 3>(make_ops(all_over<1, 3>({-1, 0, 1, 2})), range(-2, 3));
    shape_unary_all<3, 1>(make_ops(all_over<3, 1>({-1, 0, 1, 2})), range(-2, 3));
    shape_unary_all<1, 4>(make_ops(all_over<1, 4>(pm1)), range(-2, 3));
    shape_unary_all<4, 1>(make_ops(all_over<4, 1>(pm1)), range(-2, 3));
  });
  vrt::shard("rect/product/row_column", [] {
    auto const r3 = make_ops(all_over<1, 3>({-1, 0, 1, 2}));
    auto const c3 = make_ops(all_over<3, 1>({-1, 0, 1, 2}));
    product_pairs_all<1, 3, 1>(r3, c3, 0, 1);
    auto const r4 = make_ops(all_over<1, 4>(pm1));
    auto const c4 = make_ops(all_over<4, 1>(pm1));
    product_pairs_all<1, 4, 1>(r4, c4, 0, 1);
  });
  vrt::shard("rect/matvec/row_column", [] {
    matvec_all<1, 4>(make_ops(all_over<1, 4>(pm1)), all_vectors<4>(-1, 1));
    matvec_all<4, 1>(make_ops(all_over<4, 1>(pm1)), all_vectors<1>(-3, 3));
    matvec_all<1, 3>(make_ops(all_over<1, 3>({-1, 0, 1, 2})), all_vectors<3>(-1, 1));
  });
  vrt::shard("rect/assoc/row_column", [] {
    int const nz = vrt::thorough() ? 2 : 1;
    rect_assoc<1, 3, 3, 1>(make_ops(all_over<1, 3>(pm1)), make_ops(structured<3, 3>(nz)), make_ops(all_over<3, 1>(pm1)));
  });
}
}

// C08, part 1: offset / contents / in_range_dim / pos_range / next_position / range_size / range_dim /
// min_less_sup for the size types unsigned, unsigned char and std::size_t, N = 1,2,3.
#include <C08_common.hpp>

#include <fcppt/container/grid/end_position.hpp>
#include <fcppt/container/grid/in_range_dim.hpp>
#include <fcppt/container/grid/make_pos_range.hpp>
#include <fcppt/container/grid/make_pos_range_start_end.hpp>
#include <fcppt/container/grid/min.hpp>
#include <fcppt/container/grid/min_less_sup.hpp>
#include <fcppt/container/grid/next_position.hpp>
#include <fcppt/container/grid/offset.hpp>
#include <fcppt/container/grid/pos_range.hpp>
#include <fcppt/container/grid/range_dim.hpp>
#include <fcppt/container/grid/range_size.hpp>
#include <fcppt/container/grid/sup.hpp>
#include <fcppt/math/dim/contents.hpp>

namespace c08
{
namespace
{
template <class S> struct sname;
template <> struct sname<unsigned>
{
  static constexpr char const *v = "unsigned";
};
template <> struct sname<unsigned char>
{
  static constexpr char const *v = "uchar";
};
template <> struct sname<std::size_t>
{
  static constexpr char const *v = "size_t";
};

template <class S, std::size_t N> std::string inst(char const *f)
{
  return std::string(f) + "<" + sname<S>::v + "," + std::to_string(N) + ">";
}

// range_dim / range_size / pos_range::size() do not compile for size types narrower than int (sup - min is
// computed in int and the two branches of ?: then have different types); they are checked for the other types.
template <class S> constexpr bool has_range_dim = sizeof(S) >= sizeof(int);

// ---------------------------------------------------------------- offset, contents
template <class S, std::size_t N> void offset_all()
{
  static std::string const fn = inst<S, N>("offset");
  static std::string const fnc = inst<S, N>("contents");
  for (A3 const &sz : tuples(N, 0, max_extent(N), 1))
  {
    auto const dim = mkdim<S, N>(sz);
    ll const content = product(N, sz);
    if (vrt::begin_text(fnc.c_str(), fnc + " size=" + show(N, sz)))
    {
      vrt::nontrivial(content > 0);
      S const c = fcppt::math::dim::contents(dim);
      VRT_CHECK(static_cast<ll>(c) == content, fnc + ":wrong", "got %lld want %lld", static_cast<ll>(c), content);
    }
    std::vector<A3> const ref = ref_range(N, A3{0, 0, 0}, sz);
    if (static_cast<ll>(ref.size()) != content)
      vrt::fail("harness:ref_range_count", "reference enumerates a wrong number of positions");
    std::vector<char> seen(static_cast<std::size_t>(content), 0);
    for (std::size_t k = 0; k < ref.size(); ++k)
    {
      if (!vrt::begin_text(fn.c_str(), fn + " size=" + show(N, sz) + " pos=" + show(N, ref[k])))
        continue;
      vrt::nontrivial(k > 0);
      vrt::maybe_sample();
      if (ref_index(N, sz, ref[k]) != static_cast<ll>(k))
        vrt::fail("harness:ref_index", "loop ordinal and closed form disagree");
      S const o = g::offset(mkpos<S, N>(ref[k]), dim);
      VRT_CHECK(static_cast<ll>(o) == static_cast<ll>(k), fn + ":wrong", "got %lld want %lld (storage ordinal)",
                static_cast<ll>(o), static_cast<ll>(k));
      if (static_cast<ll>(o) < content)
      {
        VRT_CHECK(!seen[static_cast<std::size_t>(o)], fn + ":not_injective", "offset %lld produced twice",
                  static_cast<ll>(o));
        seen[static_cast<std::size_t>(o)] = 1;
      }
      else
        vrt::fail(fn + ":outside", vrt::fmt("offset %lld is not below content %lld", static_cast<ll>(o), content));
    }
  }
}

// ---------------------------------------------------------------- in_range_dim
template <class S, std::size_t N> void in_range_dim_all()
{
  static std::string const fn = inst<S, N>("in_range_dim");
  for (A3 const &sz : tuples(N, 0, max_extent(N), 1))
  {
    auto const dim = mkdim<S, N>(sz);
    for (A3 const &p : margin_positions(N, sz))
    {
      if (!vrt::begin_text(fn.c_str(), fn + " size=" + show(N, sz) + " pos=" + show(N, p)))
        continue;
      bool const want = ref_in_range(N, sz, p);
      bool edge = false;
      for (std::size_t i = 0; i < N; ++i)
        edge = edge || p[i] < 0 || p[i] >= sz[i] - 1;
      vrt::nontrivial(edge);
      vrt::maybe_sample();
      bool const got = g::in_range_dim(dim, mkpos<S, N>(p));
      VRT_CHECK(got == want, fn + (want ? ":rejects_inside" : ":accepts_outside"), "got %d want %d", got, want);
    }
  }
}

// ---------------------------------------------------------------- sequences
// compare the sequence produced by a position range with the reference; stops at the first surplus element
template <std::size_t N, class Range>
std::size_t check_seq(Range const &r, std::vector<A3> const &ref, std::string const &sig)
{
  std::size_t k = 0;
  bool bad = false;
  auto const e = r.end();
  for (auto it = r.begin(); it != e; ++it)
  {
    if (k >= ref.size())
    {
      vrt::fail(sig + ":overrun", vrt::fmt("more than the %zu expected positions are visited; surplus %s", ref.size(),
                                           show(N, comps<N>(*it, 0)).c_str()));
      return k + 1;
    }
    A3 const got = comps<N>(*it, 0);
    if (got != ref[k] && !bad)
    {
      vrt::fail(sig + ":order", vrt::fmt("visit #%zu is %s, want %s", k, show(N, got).c_str(), show(N, ref[k]).c_str()));
      bad = true;
    }
    ++k;
  }
  if (k < ref.size())
    vrt::fail(sig + ":short", vrt::fmt("only %zu of %zu positions visited; first missing %s", k, ref.size(),
                                       show(N, ref[k]).c_str()));
  return k;
}

template <class S, std::size_t N> void pos_range_whole()
{
  static std::string const fn = inst<S, N>("make_pos_range");
  for (A3 const &sz : tuples(N, 0, max_extent(N), 1))
  {
    if (!vrt::begin_text(fn.c_str(), fn + " size=" + show(N, sz)))
      continue;
    std::vector<A3> const ref = ref_range(N, A3{0, 0, 0}, sz);
    bool some_extent = false;
    for (std::size_t i = 0; i < N; ++i)
      some_extent = some_extent || sz[i] > 0;
    vrt::nontrivial(ref.size() >= 2 || (ref.empty() && some_extent));
    vrt::maybe_sample();
    auto const r = g::make_pos_range(mkdim<S, N>(sz));
    check_seq<N>(r, ref, fn);
    if constexpr (has_range_dim<S>)
      VRT_CHECK(static_cast<std::size_t>(r.size()) == ref.size(), fn + ":size", "size() = %llu, visited %zu",
                static_cast<unsigned long long>(r.size()), ref.size());
  }
}

template <class S, std::size_t N> void pos_range_sub()
{
  static std::string const fn = inst<S, N>("pos_range");
  static std::string const fnn = inst<S, N>("next_position");
  static std::string const fnl = inst<S, N>("min_less_sup");
  static std::string const fnd = inst<S, N>("range_dim");
  static std::string const fns = inst<S, N>("range_size");
  using min_t = g::min<S, N>;
  using sup_t = g::sup<S, N>;
  ll const m = max_minsup(N);
  for (A3 const &mn : tuples(N, 0, m, 0))
  {
    if (vrt::out_of_time())
      return;
    for (A3 const &sp : tuples(N, 0, m, 0))
    {
      std::vector<A3> const ref = ref_range(N, mn, sp);
      bool some_less = false, nonempty = true;
      for (std::size_t i = 0; i < N; ++i)
      {
        some_less = some_less || mn[i] < sp[i];
        nonempty = nonempty && mn[i] < sp[i];
      }
      if (nonempty == ref.empty())
        vrt::fail("harness:ref_range_empty", "reference emptiness inconsistent");
      std::string const descr = " min=" + show(N, mn) + " sup=" + show(N, sp);
      min_t const fmin{mkpos<S, N>(mn)};
      sup_t const fsup{mkpos<S, N>(sp)};
      bool const nt = nontrivial_range(N, mn, sp, ref.size());

      if (vrt::begin_text(fn.c_str(), fn + descr))
      {
        vrt::nontrivial(nt);
        vrt::maybe_sample();
        if (ref.size() >= 2)
          vrt::sample_now();
        vrt::count(ref.empty() ? "pos_range:empty_ranges" : "pos_range:nonempty_ranges");
        vrt::count("pos_range:positions_visited", ref.size());
        auto const r = g::make_pos_range_start_end(fmin, fsup);
        check_seq<N>(r, ref, fn);
        g::pos_range<S, N> const r2(fmin, fsup);
        check_seq<N>(r2, ref, fn + ":ctor");
        if constexpr (has_range_dim<S>)
          VRT_CHECK(static_cast<std::size_t>(r.size()) == ref.size(), fn + ":size", "size() = %llu, visited %zu",
                    static_cast<unsigned long long>(r.size()), ref.size());
      }
      if (vrt::begin_text(fnl.c_str(), fnl + descr))
      {
        vrt::nontrivial(some_less && !nonempty);
        bool const got = g::min_less_sup(fmin, fsup);
        VRT_CHECK(got == nonempty, fnl + ":wrong", "got %d want %d", got, nonempty);
      }
      if constexpr (has_range_dim<S>)
      {
        if (vrt::begin_text(fnd.c_str(), fnd + descr))
        {
          vrt::nontrivial(nt);
          A3 want{0, 0, 0};
          if (nonempty)
            for (std::size_t i = 0; i < N; ++i)
              want[i] = sp[i] - mn[i];
          A3 const got = comps<N>(g::range_dim(fmin, fsup), 0);
          if (nonempty)
            VRT_CHECK(got == want, fnd + ":wrong", "got %s want %s", show(N, got).c_str(), show(N, want).c_str());
          else
          {
            // "The dimension of the range": an empty range has no positions, so the dimension must denote zero cells;
            // that it is the all-zero dimension is how the code does it, not documented: information only
            bool any_zero = false;
            for (std::size_t i = 0; i < N; ++i)
              any_zero = any_zero || got[i] == 0;
            VRT_CHECK(any_zero, fnd + ":empty_range_not_empty", "empty range has dimension %s", show(N, got).c_str());
            info_check(got == want, fnd + ":empty_range_not_null");
          }
        }
        if (vrt::begin_text(fns.c_str(), fns + descr))
        {
          vrt::nontrivial(nt);
          S const got = g::range_size(fmin, fsup);
          VRT_CHECK(static_cast<std::size_t>(got) == ref.size(), fns + ":wrong", "got %llu want %zu",
                    static_cast<unsigned long long>(got), ref.size());
        }
      }
      // next_position: the successor of every visited position except the last is the next one of the reference
      if (ref.size() >= 2 && vrt::begin_text(fnn.c_str(), fnn + descr))
      {
        vrt::nontrivial(true);
        for (std::size_t k = 0; k + 1 < ref.size(); ++k)
        {
          A3 const got = comps<N>(g::next_position(mkpos<S, N>(ref[k]), fmin, fsup), 0);
          if (got != ref[k + 1])
          {
            vrt::fail(fnn + ":wrong", vrt::fmt("after %s comes %s, want %s", show(N, ref[k]).c_str(),
                                               show(N, got).c_str(), show(N, ref[k + 1]).c_str()));
            break;
          }
        }
      }
    }
  }
}

template <class S> void reg(char const *tag)
{
  std::string const t = tag;
  vrt::shard("offset/" + t, [] {
    offset_all<S, 1>();
    offset_all<S, 2>();
    offset_all<S, 3>();
  });
  vrt::shard("in_range_dim/" + t, [] {
    in_range_dim_all<S, 1>();
    in_range_dim_all<S, 2>();
    in_range_dim_all<S, 3>();
  });
  vrt::shard("pos_range_whole/" + t, [] {
    pos_range_whole<S, 1>();
    pos_range_whole<S, 2>();
    pos_range_whole<S, 3>();
  });
  vrt::shard("pos_range_sub12/" + t, [] {
    pos_range_sub<S, 1>();
    pos_range_sub<S, 2>();
  });
  vrt::shard("pos_range_sub3/" + t, [] { pos_range_sub<S, 3>(); });
}
}

void register_pos_shards()
{
  reg<unsigned>("unsigned");
  reg<unsigned char>("uchar");
  reg<std::size_t>("size_t");
}
}

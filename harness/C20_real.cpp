// C20, part 2c: uniform_real (value-exact transparency) over float / double / long double and
// strong typedefs of double / long double; parameters include values that are not representable
// in a narrower floating point type.
#include "C20_real.hpp"

#include <fcppt/random/distribution/parameters/uniform_real.hpp>

namespace
{
using namespace c20;

std::vector<real_pair> uniform_real_params()
{
  std::vector<real_pair> r;
  ld const grid[] = {-8., -1., -0.5, 0., 0.25, 1., 3., 8.};
  for (ld a : grid)
    for (ld b : grid)
      if (a < b)
        r.push_back({a, b});
  r.push_back({0., 1e30});
  r.push_back({-1e-30, 1e-30});
  r.push_back({1., 1.0000001});
  r.push_back({-1e6, 1e6});
  // not representable in double (for float / double these are rounded by the harness itself
  // before they reach either side; pairs that collapse to a == b are skipped)
  r.push_back({nr_tenth, nr_seven_tenths});
  r.push_back({-nr_third, nr_third});
  r.push_back({1., nr_one_plus});
  r.push_back({0., nr_big});
  r.push_back({nr_tenth, 1.});
  r.push_back({-nr_big, nr_seven_tenths});
  return r;
}

template <class E, class R> void uniform_real_family(char const *rname)
{
  using base = typename rt<R>::base;
  using P = fcppt::random::distribution::parameters::uniform_real<R>;
  static_assert(std::is_same_v<typename P::distribution, std::uniform_real_distribution<base>>);
  std::string const nm = std::string("uniform_real<") + rname + "," + E::name + ">";
  char const *const fn = intern(nm);
  std::vector<real_pair> const params = uniform_real_params();
  for (std::size_t k = 0; k < params.size(); ++k)
  {
    real_pair const &pr = params[k];
    if (vrt::out_of_time())
      return;
    base const a = static_cast<base>(pr.x), b = static_cast<base>(pr.y);
    if (!(a < b))
      continue; // not distinct in this type
    // the other parameter set (stored while drawing with per-call parameters)
    std::size_t kq = (k + 5) % params.size();
    while (!(static_cast<base>(params[kq].x) < static_cast<base>(params[kq].y)))
      kq = (kq + 1) % params.size();
    base const qa = static_cast<base>(params[kq].x), qb = static_cast<base>(params[kq].y);
    for (u64 const seed : seeds())
    {
      for (int reset_at : {-1, 3})
      {
        if (!vrt::begin_text(fn, vrt::fmt("%s(min=%s, sup=%s, seed=%s%s)", nm.c_str(), ldstr(a).c_str(), ldstr(b).c_str(),
                                          str128(static_cast<i128>(seed)).c_str(), reset_at >= 0 ? ", reset() after 3 draws" : "")))
          continue;
        vrt::nontrivial(true);
        vrt::maybe_sample();
        P const p{typename P::min(rt<R>::wrap(a)), typename P::sup(rt<R>::wrap(b))};
        P const q{typename P::min(rt<R>::wrap(qa)), typename P::sup(rt<R>::wrap(qb))};
        lockstep<E>(
            nm, p, std::uniform_real_distribution<base>(a, b), seed, false, a, b,
            [&] {
              return fcppt::random::distribution::basic<P>(typename P::min(rt<R>::wrap(a)), typename P::sup(rt<R>::wrap(b)));
            },
            q, std::uniform_real_distribution<base>(qa, qb), qa, qb, reset_at);
      }
    }
  }
}

// parameters -> std param_type -> parameters is the identity, for every pair a <= b of the boundary list
template <class R> void roundtrip_uniform_real(char const *rname)
{
  using base = typename rt<R>::base;
  using P = fcppt::random::distribution::parameters::uniform_real<R>;
  using SD = std::uniform_real_distribution<base>;
  using D = fcppt::random::distribution::basic<P>;
  std::string const nm = std::string("roundtrip<uniform_real<") + rname + ">>";
  char const *const fn = intern(nm);
  std::vector<base> const values = real_boundary_values<base>();
  for (base const a : values)
    for (base const b : values)
    {
      if (!(a <= b))
        continue;
      if (!vrt::begin_text(fn, nm + "(min=" + show(a) + ", sup=" + show(b) + ")"))
        continue;
      vrt::nontrivial(a < b);
      vrt::maybe_sample();
      P const p{typename P::min(rt<R>::wrap(a)), typename P::sup(rt<R>::wrap(b))};
      auto const sp = p.convert_from();
      VRT_CHECK(same(sp.a(), a) && same(sp.b(), b), nm + ":convert_from", "convert_from gives [%s,%s)", show(sp.a()).c_str(),
                show(sp.b()).c_str());
      P const back(P::convert_to(SD(a, b)));
      auto const sp2 = back.convert_from();
      VRT_CHECK(same(sp2.a(), a) && same(sp2.b(), b), nm + ":convert_to", "convert_to(std).convert_from() gives [%s,%s)",
                show(sp2.a()).c_str(), show(sp2.b()).c_str());
      D d(p);
      auto const sp3 = d.param().convert_from();
      VRT_CHECK(same(sp3.a(), a) && same(sp3.b(), b) && same(d.distribution().a(), a) && same(d.distribution().b(), b),
                nm + ":param_getter", "param() reports [%s,%s), wrapped distribution [%s,%s)", show(sp3.a()).c_str(),
                show(sp3.b()).c_str(), show(d.distribution().a()).c_str(), show(d.distribution().b()).c_str());
      D d2(P{typename P::min(rt<R>::wrap(base(0))), typename P::sup(rt<R>::wrap(base(1)))});
      d2.param(p);
      auto const sp4 = d2.param().convert_from();
      VRT_CHECK(same(sp4.a(), a) && same(sp4.b(), b), nm + ":param_getter_after_set", "param() after param(set) reports [%s,%s)",
                show(sp4.a()).c_str(), show(sp4.b()).c_str());
    }
}

template <class R> void real_shards(char const *rname, char const *shardname)
{
  std::string const t = rname;
  vrt::shard(std::string("uniform_real/") + shardname + "/minstd_rand", [t] {
    uniform_real_family<eng_minstd, R>(t.c_str());
    // last: a round trip that trips an assertion of the std library for every value must not use up the
    // restarts of the shard before the sequences were compared
    roundtrip_uniform_real<R>(t.c_str());
  });
  vrt::shard(std::string("uniform_real/") + shardname + "/mt19937", [t] { uniform_real_family<eng_mt, R>(t.c_str()); });
}
}

void c20::register_real()
{
  real_shards<double>("double", "double");
  real_shards<float>("float", "float");
  real_shards<long double>("long double", "long_double");
  real_shards<st_double>("strong_typedef<double>", "st_double");
  real_shards<st_ldouble>("strong_typedef<long double>", "st_long_double");
  real_shards<ratio<double>>("ratio<double>(user transform)", "user_ratio_double");
  real_shards<ratio<long double>>("ratio<long double>(user transform)", "user_ratio_long_double");
}

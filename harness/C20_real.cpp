// C20, part 2c: uniform_real and normal (bit-exact transparency), float / double / strong typedef.
#include "C20_common.hpp"

#include <fcppt/random/distribution/parameters/normal.hpp>
#include <fcppt/random/distribution/parameters/uniform_real.hpp>

namespace
{
using namespace c20;

FCPPT_MAKE_STRONG_TYPEDEF(double, st_double);

// ------------------------------------------------------------------ real-valued distributions
struct real_pair
{
  double x, y;
};

std::vector<real_pair> uniform_real_params()
{
  std::vector<real_pair> r;
  double const grid[] = {-8., -1., -0.5, 0., 0.25, 1., 3., 8.};
  for (double a : grid)
    for (double b : grid)
      if (a < b)
        r.push_back({a, b});
  r.push_back({0., 1e30});
  r.push_back({-1e-30, 1e-30});
  r.push_back({1., 1.0000001});
  r.push_back({-1e6, 1e6});
  return r;
}

std::vector<real_pair> normal_params()
{
  std::vector<real_pair> r;
  for (double m : {-2., 0., 0.5, 1e6})
    for (double s : {1e-3, 0.25, 1., 5.})
      r.push_back({m, s});
  return r;
}

template <class E, class R> void uniform_real_family(char const *rname)
{
  using base = typename rt<R>::base;
  using P = fcppt::random::distribution::parameters::uniform_real<R>;
  static_assert(std::is_same_v<typename P::distribution, std::uniform_real_distribution<base>>);
  std::string const nm = std::string("uniform_real<") + rname + "," + E::name + ">";
  char const *const fn = intern(nm);
  std::vector<real_pair> const params = uniform_real_params();
  for (std::size_t k = 0; k < params.size(); ++k)
  {
    real_pair const &pr = params[k];
    if (vrt::out_of_time())
      return;
    base const a = static_cast<base>(pr.x), b = static_cast<base>(pr.y);
    if (!(a < b))
      continue; // not distinct in float
    // the other parameter set (stored while drawing with per-call parameters)
    std::size_t kq = (k + 5) % params.size();
    while (!(static_cast<base>(params[kq].x) < static_cast<base>(params[kq].y)))
      kq = (kq + 1) % params.size();
    base const qa = static_cast<base>(params[kq].x), qb = static_cast<base>(params[kq].y);
    for (u64 const seed : seeds())
    {
      for (int reset_at : {-1, 3})
      {
        if (!vrt::begin_text(fn, vrt::fmt("%s(min=%.9g, sup=%.9g, seed=%s%s)", nm.c_str(), static_cast<double>(a),
                                          static_cast<double>(b), str128(static_cast<i128>(seed)).c_str(),
                                          reset_at >= 0 ? ", reset() after 3 draws" : "")))
          continue;
        vrt::nontrivial(true);
        vrt::maybe_sample();
        P const p{typename P::min(rt<R>::wrap(a)), typename P::sup(rt<R>::wrap(b))};
        P const q{typename P::min(rt<R>::wrap(qa)), typename P::sup(rt<R>::wrap(qb))};
        lockstep<E>(
            nm, p, std::uniform_real_distribution<base>(a, b), seed, false, a, b,
            [&] {
              return fcppt::random::distribution::basic<P>(typename P::min(rt<R>::wrap(a)), typename P::sup(rt<R>::wrap(b)));
            },
            q, std::uniform_real_distribution<base>(qa, qb), qa, qb, reset_at);
      }
    }
  }
}

template <class E, class R> void normal_family(char const *rname)
{
  using base = typename rt<R>::base;
  using P = fcppt::random::distribution::parameters::normal<R>;
  static_assert(std::is_same_v<typename P::distribution, std::normal_distribution<base>>);
  std::string const nm = std::string("normal<") + rname + "," + E::name + ">";
  char const *const fn = intern(nm);
  std::vector<real_pair> const params = normal_params();
  for (std::size_t k = 0; k < params.size(); ++k)
  {
    real_pair const &pr = params[k];
    if (vrt::out_of_time())
      return;
    base const m = static_cast<base>(pr.x), s = static_cast<base>(pr.y);
    real_pair const &prq = params[(k + 5) % params.size()]; // stored while drawing with per-call parameters
    base const qm = static_cast<base>(prq.x), qs = static_cast<base>(prq.y);
    for (u64 const seed : seeds())
    {
      // normal_distribution keeps a second value between calls: reset() after an odd
      // number of draws changes the sequence, so forwarding of reset() is visible
      for (int reset_at : {-1, 1, 3})
      {
        if (!vrt::begin_text(fn, vrt::fmt("%s(mean=%.9g, stddev=%.9g, seed=%s%s)", nm.c_str(), static_cast<double>(m),
                                          static_cast<double>(s), str128(static_cast<i128>(seed)).c_str(),
                                          reset_at >= 0 ? vrt::fmt(", reset() after %d draws", reset_at).c_str() : "")))
          continue;
        vrt::nontrivial(true);
        vrt::maybe_sample();
        P const p{typename P::mean(rt<R>::wrap(m)), typename P::stddev(rt<R>::wrap(s))};
        P const q{typename P::mean(rt<R>::wrap(qm)), typename P::stddev(rt<R>::wrap(qs))};
        lockstep<E>(
            nm, p, std::normal_distribution<base>(m, s), seed, false, m, s,
            [&] {
              return fcppt::random::distribution::basic<P>(typename P::mean(rt<R>::wrap(m)), typename P::stddev(rt<R>::wrap(s)));
            },
            q, std::normal_distribution<base>(qm, qs), qm, qs, reset_at);
      }
    }
  }
}
}

void c20::register_real()
{
  vrt::shard("uniform_real/minstd_rand", [] {
    uniform_real_family<eng_minstd, double>("double");
    uniform_real_family<eng_minstd, float>("float");
    uniform_real_family<eng_minstd, st_double>("strong_typedef<double>");
  });
  vrt::shard("uniform_real/mt19937", [] {
    uniform_real_family<eng_mt, double>("double");
    uniform_real_family<eng_mt, float>("float");
    uniform_real_family<eng_mt, st_double>("strong_typedef<double>");
  });
  vrt::shard("normal/minstd_rand", [] {
    normal_family<eng_minstd, double>("double");
    normal_family<eng_minstd, float>("float");
    normal_family<eng_minstd, st_double>("strong_typedef<double>");
  });
  vrt::shard("normal/mt19937", [] {
    normal_family<eng_mt, double>("double");
    normal_family<eng_mt, float>("float");
    normal_family<eng_mt, st_double>("strong_typedef<double>");
  });
}

// C01, part 4: fcppt::parse::parse_string / phrase_parse_string with a handful of grammars over all
// strings over {'-','a','1',' '} up to the length bound.  Oracle: the call returns an either (success or
// failure), nothing escapes, nothing hangs; for the integer grammars the obvious expectation is checked too.
#include "C01_common.hpp"

#include <fcppt/unit.hpp>
#include <fcppt/either/object_impl.hpp>
#include <fcppt/parse/char.hpp>
#include <fcppt/parse/char_set.hpp>
#include <fcppt/parse/int.hpp>
#include <fcppt/parse/list.hpp>
#include <fcppt/parse/literal.hpp>
#include <fcppt/parse/make_fatal.hpp>
#include <fcppt/parse/make_lexeme.hpp>
#include <fcppt/parse/named.hpp>
#include <fcppt/parse/parse_string.hpp>
#include <fcppt/parse/phrase_parse_string.hpp>
#include <fcppt/parse/result_of.hpp>
#include <fcppt/parse/separator.hpp>
#include <fcppt/parse/string.hpp>
#include <fcppt/parse/uint.hpp>
#include <fcppt/parse/operators/alternative.hpp>
#include <fcppt/parse/operators/complement.hpp>
#include <fcppt/parse/operators/not.hpp>
#include <fcppt/parse/operators/optional.hpp>
#include <fcppt/parse/operators/repetition.hpp>
#include <fcppt/parse/operators/repetition_plus.hpp>
#include <fcppt/parse/operators/sequence.hpp>
#include <fcppt/parse/skipper/basic_char_set.hpp>
#include <fcppt/parse/skipper/space.hpp>
#include <fcppt/parse/skipper/operators/repetition.hpp>

#include <string>
#include <type_traits>

using namespace c01;
namespace p = fcppt::parse;

namespace
{
std::vector<std::string> inputs() { return all_strings<char>("-a1 ", vrt::thorough() ? 7U : 4U); }

// value of a string that matches -?1+ completely, if it fits T
template <class T> bool ones(std::string const &s, bool allow_minus, T &out)
{
  std::size_t i = 0;
  bool neg = false;
  if (allow_minus && !s.empty() && s[0] == '-')
  {
    neg = true;
    i = 1;
  }
  if (i >= s.size())
    return false;
  i128 v = 0;
  for (; i < s.size(); ++i)
  {
    if (s[i] != '1')
      return false;
    v = v * 10 + 1;
  }
  if (neg)
    v = -v;
  if (!fits<T>(v))
    return false;
  out = static_cast<T>(v);
  return true;
}

// skipper::basic_space<wchar_t>() does not compile (basic_space.hpp builds a skipper::char_set, i.e. basic_char_set<char>,
// from space_set<wchar_t>()), so the wide skipper is spelled out
template <class Ch> auto space_skipper()
{
  if constexpr (std::is_same_v<Ch, char>)
    return p::skipper::space();
  else
    return *p::skipper::basic_char_set<wchar_t>{L' ', L'\t', L'\n'};
}

enum class expect
{
  none,
  int_,
  uint_
};

// accept: the language of the grammar where it is obvious (parse_string must succeed exactly on it)
using accept_fn = bool (*)(std::string const &);

// decimal strings at and beyond the limits of the integer types: run for totality only (no expectation: whether a
// type's minimum can be parsed is reported through the either and therefore allowed)
std::vector<std::string> limit_inputs()
{
  return {"127", "128", "-128", "-129", "255", "256", "32767", "32768", "-32768", "-32769", "65535", "65536", "2147483647", "2147483648",
          "-2147483647", "-2147483648", "-2147483649", "4294967295", "4294967296", "9223372036854775807", "9223372036854775808",
          "-9223372036854775807", "-9223372036854775808", "-9223372036854775809", "18446744073709551615", "18446744073709551616",
          "99999999999999999999999", "-99999999999999999999999", "0", "-0", "00", "-"};
}

template <class Ch, class Parser> void run(char const *gname, Parser const &parser, expect ex = expect::none, accept_fn accept = nullptr)
{
  char const *const chn = std::is_same_v<Ch, char> ? "char" : "wchar_t";
  entry e_p(std::string("parse::parse_string<") + chn + ">(" + gname + ")");
  entry e_pp(std::string("parse::phrase_parse_string<") + chn + ">(" + gname + ", space)");
  for (auto const &s : inputs())
  {
    std::basic_string<Ch> const in(s.begin(), s.end());
    if (e_p.begin_text(show(s)))
    {
      vrt::nontrivial(!s.empty());
      vrt::maybe_sample();
      guarded(e_p.name, [&] {
        auto const r = p::parse_string(parser, std::basic_string<Ch>(in));
        VRT_CHECK(r.has_success() != r.has_failure(), e_p.name + ":either", "neither success nor failure");
        if (r.has_success())
          vrt::count("parse successes");
        if (accept)
        {
          bool const ok = accept(s);
          VRT_CHECK(r.has_success() == ok, e_p.name + (ok ? ":missing" : ":spurious"), "has_success=%d", (int)r.has_success());
        }
        if constexpr (std::is_same_v<p::result_of<Parser>, int>)
        {
          if (ex == expect::int_)
          {
            int want = 0;
            bool const ok = ones<int>(s, true, want);
            VRT_CHECK(r.has_success() == ok, e_p.name + (ok ? ":missing" : ":spurious"), "has_success=%d", (int)r.has_success());
            if (ok && r.has_success())
              VRT_CHECK(r.get_success_unsafe() == want, e_p.name + ":wrong_value", "got %d want %d", r.get_success_unsafe(), want);
          }
        }
        if constexpr (std::is_same_v<p::result_of<Parser>, unsigned>)
        {
          if (ex == expect::uint_)
          {
            unsigned want = 0;
            bool const ok = ones<unsigned>(s, false, want);
            VRT_CHECK(r.has_success() == ok, e_p.name + (ok ? ":missing" : ":spurious"), "has_success=%d", (int)r.has_success());
            if (ok && r.has_success())
              VRT_CHECK(r.get_success_unsafe() == want, e_p.name + ":wrong_value", "got %u want %u", r.get_success_unsafe(), want);
          }
        }
      });
    }
    if (e_pp.begin_text(show(s)))
    {
      vrt::nontrivial(s.find(' ') != std::string::npos);
      vrt::maybe_sample();
      guarded(e_pp.name, [&] {
        auto const r = p::phrase_parse_string(parser, std::basic_string<Ch>(in), space_skipper<Ch>());
        VRT_CHECK(r.has_success() != r.has_failure(), e_pp.name + ":either", "neither success nor failure");
        if (r.has_success())
          vrt::count("parse successes");
      });
    }
  }
  if (ex != expect::none || std::is_arithmetic_v<p::result_of<Parser>>)
    for (auto const &s : limit_inputs())
    {
      if (!e_p.begin_text(show(s)))
        continue;
      vrt::nontrivial(true);
      vrt::maybe_sample();
      guarded(e_p.name, [&] {
        auto const r = p::parse_string(parser, std::basic_string<Ch>(s.begin(), s.end()));
        VRT_CHECK(r.has_success() != r.has_failure(), e_p.name + ":either", "neither success nor failure");
      });
    }
}

// hand-written matchers for the small languages
bool m_not_dash_char(std::string const &s) { return s.size() == 1 && s[0] != '-'; }
bool m_only_a(std::string const &s) { return s == "a"; }
bool m_any(std::string const &) { return true; }
bool m_a1_opt_dash(std::string const &s) { return s == "a1" || s == "a1-"; }
bool m_a_opt1_star(std::string const &s) // (a1?)*
{
  std::size_t i = 0;
  while (i < s.size())
  {
    if (s[i] != 'a')
      return false;
    ++i;
    if (i < s.size() && s[i] == '1')
      ++i;
  }
  return true;
}
bool m_a1_star_a(std::string const &s) // (a1)*a
{
  if (s.size() % 2 == 0)
    return false;
  for (std::size_t i = 0; i < s.size(); ++i)
    if (s[i] != (i % 2 == 0 ? 'a' : '1'))
      return false;
  return true;
}
bool m_a1plus_dashes(std::string const &s) // [a1]+-*
{
  std::size_t i = 0;
  while (i < s.size() && (s[i] == 'a' || s[i] == '1'))
    ++i;
  if (i == 0)
    return false;
  while (i < s.size() && s[i] == '-')
    ++i;
  return i == s.size();
}

void grammars_a()
{
  run<char>("int_<int>", p::int_<int>{}, expect::int_);
  run<char>("uint<unsigned>", p::uint<unsigned>{}, expect::uint_);
  // int_<short> does not compile (int_impl.hpp: -_value is an int, either<error,int> does not convert to either<error,short>)
  run<char>("int_<long>", p::int_<long>{});
  run<char>("uint<unsigned char>", p::uint<unsigned char>{});
  run<char>("int_<long long>", p::int_<long long>{});
  run<wchar_t>("int_<int>", p::int_<int>{}, expect::int_);
  run<wchar_t>("uint<unsigned>", p::uint<unsigned>{}, expect::uint_);
}

void grammars_b()
{
  run<char>("int_ | literal a | char_", p::int_<int>{} | p::literal{'a'} | p::char_{});
  run<char>("!literal - >> char_", !p::literal{'-'} >> p::char_{}, expect::none, m_not_dash_char);
  run<char>("fatal(literal a) | char_", p::make_fatal(p::literal{'a'}) | p::char_{}, expect::none, m_only_a);
  run<char>("lexeme(*char_)", p::make_lexeme(*p::char_{}), expect::none, m_any);
  run<char>("string a1 >> -string -", p::string{std::string{"a1"}} >> -p::string{std::string{"-"}}, expect::none, m_a1_opt_dash);
  run<char>("named(int_)", p::named{p::int_<int>{}, std::string{"int"}});
}

void grammars_c()
{
  run<char>("*(literal a >> -literal 1)", *(p::literal{'a'} >> -p::literal{'1'}), expect::none, m_a_opt1_star);
  run<char>("*(literal a >> literal 1) >> literal a", *(p::literal{'a'} >> p::literal{'1'}) >> p::literal{'a'}, expect::none, m_a1_star_a);
  run<char>("+char_set{a,1} >> *literal -", +p::char_set{'a', '1'} >> *p::literal{'-'}, expect::none, m_a1plus_dashes);
  run<char>("separator(+~char_set{ }, literal ' ')", p::separator{+~p::char_set{' '}, p::literal{' '}});
  run<char>("separator(int_, literal -)", p::separator{p::int_<int>{}, p::literal{'-'}});
  run<char>("list(literal -, fatal(~char_set{ ,-}), literal ' ', literal -)",
            p::list{p::literal{'-'}, p::make_fatal(~p::char_set{' ', '-'}), p::literal{' '}, p::literal{'-'}});
}
}

void c01::register_parse()
{
  vrt::shard("parse_a", [] { grammars_a(); });
  vrt::shard("parse_b", [] { grammars_b(); });
  vrt::shard("parse_c", [] { grammars_c(); });
}

// C04 (part 2) -- fcppt::either (+ fcppt::monad on either).  See C04.cpp / C04_common.hpp.
#include "C04_common.hpp"

#include <fcppt/unit.hpp>
#include <fcppt/either/apply.hpp>
#include <fcppt/either/bind.hpp>
#include <fcppt/either/comparison.hpp>
#include <fcppt/either/construct.hpp>
#include <fcppt/either/error.hpp>
#include <fcppt/either/error_from_optional.hpp>
#include <fcppt/either/failure_opt.hpp>
#include <fcppt/either/first_success.hpp>
#include <fcppt/either/from_optional.hpp>
#include <fcppt/either/join.hpp>
#include <fcppt/either/loop.hpp>
#include <fcppt/either/make_failure.hpp>
#include <fcppt/either/make_success.hpp>
#include <fcppt/either/map.hpp>
#include <fcppt/either/map_failure.hpp>
#include <fcppt/either/match.hpp>
#include <fcppt/either/monad.hpp>
#include <fcppt/either/no_error.hpp>
#include <fcppt/either/object_impl.hpp>
#include <fcppt/either/sequence.hpp>
#include <fcppt/either/sequence_error.hpp>
#include <fcppt/either/success_opt.hpp>
#include <fcppt/either/to_exception.hpp>
#include <fcppt/either/try_call.hpp>
#include <fcppt/monad/bind.hpp>
#include <fcppt/monad/chain.hpp>
#include <fcppt/monad/do.hpp>
#include <fcppt/monad/return.hpp>
#include <fcppt/optional/object_impl.hpp>

using namespace c04;

namespace
{
using OD = fcppt::optional::object<D>;
using OE = fcppt::optional::object<E>;
using EI = fcppt::either::object<E, D>;
using EEI = fcppt::either::object<E, EI>;
using ERR = fcppt::either::error<E>; // either<E, no_error>

OD mk_od(int c) { return c == 0 ? OD{} : OD{D{c - 1}}; }
int code(OD const &o) { return o.has_value() ? 1 + o.get_unsafe().v : 0; }
int code(OE const &o) { return o.has_value() ? 1 + o.get_unsafe().v : 0; }
D mk_d(int c) { return D{c}; }
E mk_e(int c) { return E{c}; }

// either<E,D>: 0,1 = failure, 2+v = success
EI mk_ei(int c) { return c < 2 ? EI{E{c}} : EI{D{c - 2}}; }
int code(EI const &e)
{
  if (e.has_success() == e.has_failure())
    return -1000;
  return e.has_success() ? 2 + e.get_success_unsafe().v : e.get_failure_unsafe().v;
}
std::string sh(int c) { return show_eith(c, 2); }
// either<E, either<E,D>>: 0,1 = outer failure, 2 + inner code
EEI mk_eei(int c) { return c < 2 ? EEI{E{c}} : EEI{mk_ei(c - 2)}; }
int code(EEI const &e)
{
  if (e.has_success() == e.has_failure())
    return -1000;
  return e.has_success() ? 2 + code(e.get_success_unsafe()) : e.get_failure_unsafe().v;
}
std::string sh2(int c) { return c < 2 ? "failure " + std::to_string(c) : "success (" + sh(c - 2) + ")"; }
// error<E>: 0 = success (no_error), 1+e = failure e
ERR mk_err(int c) { return c == 0 ? ERR{fcppt::either::no_error{}} : ERR{E{c - 1}}; }
int code(ERR const &e) { return e.has_success() ? 0 : 1 + e.get_failure_unsafe().v; }
std::string sh_err(int c) { return c == 0 ? "no_error" : "failure " + std::to_string(c - 1); }

std::vector<EI> mk_vec(std::vector<int> const &s)
{
  std::vector<EI> r;
  for (int c : s)
    r.push_back(mk_ei(c));
  return r;
}
std::vector<int> codes(std::vector<EI> const &v)
{
  std::vector<int> r;
  for (auto const &o : v)
    r.push_back(code(o));
  return r;
}
template <class T> std::vector<int> vals(std::vector<T> const &v)
{
  std::vector<int> r;
  for (auto const &d : v)
    r.push_back(d.v);
  return r;
}

// ------------------------------------------------------------------ object / observers / comparison
void sh_object()
{
  for (int c = 0; c < 5; ++c)
  {
    if (!vrt::begin("either::object<c>", c))
      continue;
    auto desc = [&] { return "either::object construct/copy/move/observers of " + sh(c); };
    vrt::nontrivial(true);
    SAMPLE();
    EI a = mk_ei(c);
    CK(a.has_success() == (c >= 2) && a.has_failure() == (c < 2), "either::object:has", "has_success=%d has_failure=%d", int(a.has_success()),
       int(a.has_failure()));
    CK(code(a) == c, "either::object:value", "holds %s", sh(code(a)).c_str());
    if (c >= 2)
    {
      D const l{c - 2};
      EI const fl{l};
      D r{c - 2};
      EI const fr{std::move(r)};
      CK(code(fl) == c && code(fr) == c && l.v == c - 2, "either::object:ctor_success", "from const& %s from && %s", sh(code(fl)).c_str(), sh(code(fr)).c_str());
      a.get_success_unsafe() = D{(c - 1) % 3};
      CK(code(a) == 2 + (c - 1) % 3, "either::object:get_success_mut", "not a reference");
    }
    else
    {
      E const l{c};
      EI const fl{l};
      E r{c};
      EI const fr{std::move(r)};
      CK(code(fl) == c && code(fr) == c && l.v == c, "either::object:ctor_failure", "from const& %s from && %s", sh(code(fl)).c_str(), sh(code(fr)).c_str());
      a.get_failure_unsafe() = E{1 - c};
      CK(code(a) == 1 - c, "either::object:get_failure_mut", "not a reference");
    }
    EI const ms = fcppt::either::make_success<E>(D{c % 3});
    CK(code(ms) == 2 + c % 3, "either::make_success", "got %s", sh(code(ms)).c_str());
    EI const mf = fcppt::either::make_failure<D>(E{c % 2});
    CK(code(mf) == c % 2, "either::make_failure", "got %s", sh(code(mf)).c_str());
    for (int d = 0; d < 5; ++d)
    {
      EI const src = mk_ei(c);
      EI x = mk_ei(d);
      x = src;
      CK(code(x) == c && code(src) == c, "either::object:copy_assign", "%d <- %d", d, c);
      EI y = mk_ei(d);
      EI z = mk_ei(c);
      y = std::move(z);
      CK(code(y) == c, "either::object:move_assign", "%d <- %d", d, c);
      EI const cp{src};
      CK(code(cp) == c, "either::object:copy", "copy wrong");
      // comparison
      EI const p = mk_ei(c), q = mk_ei(d);
      CK((p == q) == (c == d), "either::comparison:eq", "%s == %s gave %d", sh(c).c_str(), sh(d).c_str(), int(p == q));
      CK((p != q) == (c != d), "either::comparison:ne", "%s != %s gave %d", sh(c).c_str(), sh(d).c_str(), int(p != q));
    }
  }
  for (int cat = 0; cat < 3; ++cat)
    for (int c = 0; c < 5; ++c)
    {
      if (!vrt::begin("either::success_opt/failure_opt<cat,c>", cat, c))
        continue;
      auto desc = [&] { return std::string("either::success_opt / failure_opt(") + sh(c) + " as " + cat_name(cat) + ")"; };
      vrt::nontrivial(true);
      SAMPLE();
      {
        EI e = mk_ei(c);
        OD const r = call_cat(cat, e, [&](auto &&x) { return fcppt::either::success_opt(std::forward<decltype(x)>(x)); });
        CK(code(r) == (c >= 2 ? c - 1 : 0), "either::success_opt:result", "got %s", show_opt(code(r)).c_str());
        if (cat < 2)
          CK(code(e) == c, "either::success_opt:source_modified", "lvalue source is now %s", sh(code(e)).c_str());
      }
      {
        EI e = mk_ei(c);
        OE const r = call_cat(cat, e, [&](auto &&x) { return fcppt::either::failure_opt(std::forward<decltype(x)>(x)); });
        CK(code(r) == (c < 2 ? c + 1 : 0), "either::failure_opt:result", "got %s", show_opt(code(r)).c_str());
        if (cat < 2)
          CK(code(e) == c, "either::failure_opt:source_modified", "lvalue source is now %s", sh(code(e)).c_str());
      }
    }
}

// ------------------------------------------------------------------ match / to_exception / construct / from_optional
struct my_exc
{
  int code;
};
struct my_exc_derived : my_exc
{
};
struct other_exc
{
  int code;
};

void sh_match()
{
  for (int cat = 0; cat < 3; ++cat)
    for (int c = 0; c < 5; ++c)
      for (int ff = 0; ff < 9; ++ff)
        for (int sf = 0; sf < 27; ++sf)
        {
          if (!vrt::begin("either::match<cat,c,ffail,fsucc>", cat, c, ff, sf))
            continue;
          tab const tf = decode(ff, 3, 2), ts = decode(sf, 3, 3);
          auto desc = [&]
          {
            return std::string("either::match(") + sh(c) + " as " + cat_name(cat) + ", on_failure=" + show_tab(tf, show_int) + ", on_success=" + show_tab(ts, show_int) + ")";
          };
          vrt::nontrivial(true);
          SAMPLE();
          probe pf, ps;
          auto const onf = fn1<E, D>(tf, pf, mk_d);
          auto const ons = fn1<D, D>(ts, ps, mk_d);
          EI e = mk_ei(c);
          D const r = call_cat(cat, e, [&](auto &&x) { return fcppt::either::match(std::forward<decltype(x)>(x), onf, ons); });
          int const want = c < 2 ? tf[c] : ts[c - 2];
          CK(r.v == want, "either::match:result", "got %d want %d", r.v, want);
          CK(pf.is(c < 2, c) && ps.is(c >= 2, c - 2), "either::match:calls", "on_failure %s on_success %s", pf.show().c_str(), ps.show().c_str());
          if (cat < 2)
            CK(code(e) == c, "either::match:source_modified", "lvalue source is now %s", sh(code(e)).c_str());
        }
  for (int cat = 0; cat < 3; ++cat)
    for (int c = 0; c < 5; ++c)
    {
      if (!vrt::begin("either::to_exception<cat,c>", cat, c))
        continue;
      auto desc = [&] { return std::string("either::to_exception(") + sh(c) + " as " + cat_name(cat) + ", f -> my_exc{10+f})"; };
      vrt::nontrivial(c < 2);
      probe p;
      auto const mk = [&p](E f)
      {
        p.hit(f.v, f.ok());
        return my_exc{10 + f.v};
      };
      EI e = mk_ei(c);
      int got = -1, thrown = 0;
      try
      {
        got = call_cat(cat, e,
                       [&](auto &&x)
                       {
                         D const r = fcppt::either::to_exception(std::forward<decltype(x)>(x), mk);
                         return r.v;
                       });
      }
      catch (my_exc const &ex)
      {
        thrown = ex.code;
      }
      if (c < 2)
        CK(thrown == 10 + c && got == -1 && p.is(1, c), "either::to_exception:failure", "thrown=%d got=%d %s", thrown, got, p.show().c_str());
      else
        CK(thrown == 0 && got == c - 2 && p.is(0), "either::to_exception:success", "thrown=%d got=%d %s", thrown, got, p.show().c_str());
    }
  for (int b = 0; b < 2; ++b)
    for (int s = 0; s < 3; ++s)
      for (int f = 0; f < 2; ++f)
      {
        if (!vrt::begin("either::construct<b,s,f>", b, s, f))
          continue;
        auto desc = [&] { return std::string("either::construct(") + (b ? "true" : "false") + ", ()->" + std::to_string(s) + ", ()->" + std::to_string(f) + ")"; };
        vrt::nontrivial(true);
        SAMPLE();
        probe ps, pf;
        EI const r = fcppt::either::construct(b != 0, fn0<D>(s, ps, mk_d), fn0<E>(f, pf, mk_e));
        CK(code(r) == (b ? 2 + s : f), "either::construct:result", "got %s", sh(code(r)).c_str());
        // the selected function is evaluated once ("_success() is returned" / "_failure() is returned"); that the other one is
        // left alone is not promised by the documentation -> information only
        CK(b ? ps.is(1, s) : pf.is(1, f), "either::construct:calls", "success fn %s failure fn %s", ps.show().c_str(), pf.show().c_str());
        INFO_ONLY(b ? pf.calls == 0 : ps.calls == 0, "either::construct:other_function_called");
      }
  for (int cat = 0; cat < 3; ++cat)
    for (int m = 0; m < 4; ++m)
      for (int f = 0; f < 2; ++f)
      {
        if (!vrt::begin("either::from_optional<cat,m,f>", cat, m, f))
          continue;
        auto desc = [&] { return std::string("either::from_optional(") + show_opt(m) + " as " + cat_name(cat) + ", ()->" + std::to_string(f) + ")"; };
        vrt::nontrivial(m != 0);
        SAMPLE();
        probe p;
        OD o = mk_od(m);
        auto const ffn = fn0<E>(f, p, mk_e);
        EI const r = call_cat(cat, o, [&](auto &&x) { return fcppt::either::from_optional(std::forward<decltype(x)>(x), ffn); });
        CK(code(r) == (m == 0 ? f : 1 + m), "either::from_optional:result", "got %s", sh(code(r)).c_str());
        // "otherwise _failure_function() is returned as the failure value": one evaluation when empty; laziness when set is
        // not promised by the documentation -> information only
        if (m == 0)
          CK(p.is(1, f), "either::from_optional:calls", "%s", p.show().c_str());
        else
          INFO_ONLY(p.calls == 0, "either::from_optional:failure_function_called_although_set");
        if (cat < 2)
          CK(code(o) == m, "either::from_optional:source_modified", "lvalue source is now %s", show_opt(code(o)).c_str());
        // error_from_optional: set -> failure, unset -> no_error
        if (m < 3)
        {
          OE oe = m == 0 ? OE{} : OE{E{m - 1}};
          ERR const er = call_cat(cat, oe, [&](auto &&x) { return fcppt::either::error_from_optional(std::forward<decltype(x)>(x)); });
          CK(code(er) == m, "either::error_from_optional:result", "got %s", sh_err(code(er)).c_str());
          if (cat < 2)
            CK(code(oe) == m, "either::error_from_optional:source_modified", "lvalue source changed");
        }
      }
  // try_call: kinds 0..2 return a value, 3..4 throw my_exc{0..1}, 5 throws a class derived from my_exc, 6 throws an unrelated type
  for (int kind = 0; kind < 7; ++kind)
    for (int tr = 0; tr < 4; ++tr)
    {
      if (!vrt::begin("either::try_call<kind,translate>", kind, tr))
        continue;
      tab const t = decode(tr, 2, 2);
      static char const *const kinds[] = {"returns 0", "returns 1", "returns 2", "throws my_exc{0}", "throws my_exc{1}", "throws derived{1}", "throws other_exc"};
      auto desc = [&] { return std::string("either::try_call<my_exc>(function that ") + kinds[kind] + ", translate=" + show_tab(t, show_int) + ")"; };
      vrt::nontrivial(kind >= 3);
      SAMPLE();
      probe pf, pt;
      auto const fn = [&pf, kind]() -> D
      {
        pf.hit(kind);
        if (kind == 3 || kind == 4)
          throw my_exc{kind - 3};
        if (kind == 5)
        {
          my_exc_derived d;
          d.code = 1;
          throw d;
        }
        if (kind == 6)
          throw other_exc{7};
        return D{kind};
      };
      auto const translate = [&pt, &t](my_exc const &ex) -> E
      {
        pt.hit(ex.code, ex.code == 0 || ex.code == 1);
        return E{t[ex.code]};
      };
      int got = -1;
      bool foreign = false;
      try
      {
        EI const r = fcppt::either::try_call<my_exc>(fn, translate);
        got = code(r);
      }
      catch (other_exc const &)
      {
        foreign = true;
      }
      catch (my_exc const &)
      {
        got = -2;
      }
      int const ecode = kind == 3 ? 0 : 1;
      if (kind < 3)
        CK(got == 2 + kind && pt.is(0) && pf.is(1, kind), "either::try_call:returned", "got %s translate %s", sh(got).c_str(), pt.show().c_str());
      else if (kind < 6)
        CK(got == t[ecode] && pt.is(1, ecode) && pf.is(1, kind), "either::try_call:caught", "got %s want failure %d; translate %s", sh(got).c_str(), t[ecode],
           pt.show().c_str());
      else
        CK(foreign && pt.is(0) && pf.is(1, kind), "either::try_call:foreign_exception", "an exception of another type did not propagate (got %d)", got);
    }
}

// ------------------------------------------------------------------ map / map_failure / functor laws
void sh_map()
{
  for (int cat = 0; cat < 3; ++cat)
    for (int c = 0; c < 5; ++c)
      for (int f = 0; f < 27; ++f)
      {
        if (!vrt::begin("either::map<cat,c,f>", cat, c, f))
          continue;
        tab const t = decode(f, 3, 3);
        auto desc = [&] { return std::string("either::map(") + sh(c) + " as " + cat_name(cat) + ", " + show_tab(t, show_int) + ")"; };
        vrt::nontrivial(c >= 2);
        SAMPLE();
        probe p;
        auto const fn = fn1<D, D>(t, p, mk_d);
        EI e = mk_ei(c);
        EI const r = call_cat(cat, e, [&](auto &&x) { return fcppt::either::map(std::forward<decltype(x)>(x), fn); });
        int const want = c < 2 ? c : 2 + t[c - 2];
        CK(code(r) == want, "either::map:result", "got %s want %s", sh(code(r)).c_str(), sh(want).c_str());
        CK(p.is(c >= 2, c - 2), "either::map:calls", "%s", p.show().c_str());
        if (cat < 2)
          CK(code(e) == c, "either::map:source_modified", "lvalue source is now %s", sh(code(e)).c_str());
        // map f = bind (make_success . f)
        probe q;
        auto const fq = fn1<D, D>(t, q, mk_d);
        EI const rb = fcppt::either::bind(mk_ei(c), [&](D a) { return fcppt::either::make_success<E>(fq(std::move(a))); });
        CK(code(rb) == code(r), "either::law:map_is_bind_make", "map %s bind %s", sh(code(r)).c_str(), sh(code(rb)).c_str());
        // type-changing map D -> Fn
        fcppt::either::object<E, Fn> const rt = fcppt::either::map(mk_ei(c), [f](D) { return Fn{f}; });
        CK(rt.has_success() == (c >= 2) && (c >= 2 ? rt.get_success_unsafe().v == f : rt.get_failure_unsafe().v == c), "either::map:type_changing", "wrong");
      }
  for (int cat = 0; cat < 3; ++cat)
    for (int c = 0; c < 5; ++c)
      for (int f = 0; f < 4; ++f)
      {
        if (!vrt::begin("either::map_failure<cat,c,f>", cat, c, f))
          continue;
        tab const t = decode(f, 2, 2);
        auto desc = [&] { return std::string("either::map_failure(") + sh(c) + " as " + cat_name(cat) + ", " + show_tab(t, show_int) + ")"; };
        vrt::nontrivial(c < 2);
        SAMPLE();
        probe p;
        auto const fn = fn1<E, E>(t, p, mk_e);
        EI e = mk_ei(c);
        EI const r = call_cat(cat, e, [&](auto &&x) { return fcppt::either::map_failure(std::forward<decltype(x)>(x), fn); });
        int const want = c < 2 ? t[c] : c;
        CK(code(r) == want, "either::map_failure:result", "got %s want %s", sh(code(r)).c_str(), sh(want).c_str());
        CK(p.is(c < 2, c), "either::map_failure:calls", "%s", p.show().c_str());
        if (cat < 2)
          CK(code(e) == c, "either::map_failure:source_modified", "lvalue source is now %s", sh(code(e)).c_str());
        // type-changing: E -> D gives either<D', D>?  failure and success must differ, use Fn
        fcppt::either::object<Fn, D> const rt = fcppt::either::map_failure(mk_ei(c), [f](E) { return Fn{f}; });
        CK(rt.has_failure() == (c < 2) && (c < 2 ? rt.get_failure_unsafe().v == f : rt.get_success_unsafe().v == c - 2), "either::map_failure:type_changing",
           "wrong");
      }
  for (int c = 0; c < 5; ++c)
  {
    if (!vrt::begin("either::law_functor_identity<c>", c))
      continue;
    auto desc = [&] { return "either: map(id), map_failure(id) on " + sh(c); };
    vrt::nontrivial(true);
    EI const r = fcppt::either::map(mk_ei(c), [](D a) { return a; });
    EI const r2 = fcppt::either::map_failure(mk_ei(c), [](E a) { return a; });
    CK(code(r) == c && code(r2) == c, "either::law:functor_identity", "got %s / %s", sh(code(r)).c_str(), sh(code(r2)).c_str());
  }
  for (int c = 0; c < 5; ++c)
    for (int f = 0; f < 27; ++f)
      for (int g = 0; g < 27; ++g)
      {
        if (!vrt::begin("either::law_functor_composition<c,f,g>", c, f, g))
          continue;
        tab const tf = decode(f, 3, 3), tg = decode(g, 3, 3);
        auto desc = [&] { return "either: map(map(" + sh(c) + ", f), g) vs map(c, g.f), f=" + show_tab(tf, show_int) + " g=" + show_tab(tg, show_int); };
        vrt::nontrivial(c >= 2);
        SAMPLE();
        probe pf, pg;
        EI const lhs = fcppt::either::map(fcppt::either::map(mk_ei(c), fn1<D, D>(tf, pf, mk_d)), fn1<D, D>(tg, pg, mk_d));
        EI const rhs = fcppt::either::map(mk_ei(c), [&](D a) { return D{tg[tf[a.v]]}; });
        int const want = c < 2 ? c : 2 + tg[tf[c - 2]];
        CK(code(lhs) == code(rhs) && code(lhs) == want, "either::law:functor_composition", "lhs %s rhs %s want %s", sh(code(lhs)).c_str(), sh(code(rhs)).c_str(),
           sh(want).c_str());
        CK(pf.is(c >= 2, c - 2) && pg.is(c >= 2, c >= 2 ? tf[c - 2] : 0), "either::law:functor_composition_calls", "f %s g %s", pf.show().c_str(), pg.show().c_str());
        // map and map_failure commute (bifunctor); failure tables: f mod 4, g mod 4
        tab const ta = decode(f % 4, 2, 2);
        probe q1, q2, q3, q4;
        EI const ab = fcppt::either::map_failure(fcppt::either::map(mk_ei(c), fn1<D, D>(tg, q1, mk_d)), fn1<E, E>(ta, q2, mk_e));
        EI const ba = fcppt::either::map(fcppt::either::map_failure(mk_ei(c), fn1<E, E>(ta, q3, mk_e)), fn1<D, D>(tg, q4, mk_d));
        int const wantb = c < 2 ? ta[c] : 2 + tg[c - 2];
        CK(code(ab) == wantb && code(ba) == wantb, "either::law:bifunctor_commute", "map then map_failure %s, map_failure then map %s, want %s", sh(code(ab)).c_str(),
           sh(code(ba)).c_str(), sh(wantb).c_str());
        CK(q1.calls + q2.calls == 1 && q3.calls + q4.calls == 1, "either::law:bifunctor_calls", "%d %d %d %d", q1.calls, q2.calls, q3.calls, q4.calls);
      }
}

// ------------------------------------------------------------------ bind / join / monad laws
void sh_bind()
{
  for (int cat = 0; cat < 3; ++cat)
    for (int c = 0; c < 5; ++c)
      for (int f = 0; f < 125; ++f)
      {
        if (!vrt::begin("either::bind<cat,c,f>", cat, c, f))
          continue;
        tab const t = decode(f, 5, 3);
        auto desc = [&] { return std::string("either::bind(") + sh(c) + " as " + cat_name(cat) + ", " + show_tab(t, sh) + ")"; };
        vrt::nontrivial(c >= 2);
        SAMPLE();
        int const want = c < 2 ? c : t[c - 2];
        {
          probe p;
          auto const fn = fn1<D, EI>(t, p, mk_ei);
          EI e = mk_ei(c);
          EI const r = call_cat(cat, e, [&](auto &&x) { return fcppt::either::bind(std::forward<decltype(x)>(x), fn); });
          CK(code(r) == want, "either::bind:result", "got %s want %s", sh(code(r)).c_str(), sh(want).c_str());
          CK(p.is(c >= 2, c - 2), "either::bind:calls", "%s", p.show().c_str());
          if (cat < 2)
            CK(code(e) == c, "either::bind:source_modified", "lvalue source is now %s", sh(code(e)).c_str());
        }
        {
          probe p;
          auto const fn = fn1<D, EI>(t, p, mk_ei);
          EI e = mk_ei(c);
          EI const r = call_cat(cat, e, [&](auto &&x) { return fcppt::monad::bind(std::forward<decltype(x)>(x), fn); });
          CK(code(r) == want, "monad::bind<either>:result", "got %s want %s", sh(code(r)).c_str(), sh(want).c_str());
          CK(p.is(c >= 2, c - 2), "monad::bind<either>:calls", "%s", p.show().c_str());
          if (cat < 2)
            CK(code(e) == c, "monad::bind<either>:source_modified", "lvalue source is now %s", sh(code(e)).c_str());
        }
      }
  for (int cat = 0; cat < 3; ++cat)
    for (int cc = 0; cc < 7; ++cc)
    {
      if (!vrt::begin("either::join<cat,cc>", cat, cc))
        continue;
      auto desc = [&] { return std::string("either::join(") + sh2(cc) + " as " + cat_name(cat) + ")"; };
      vrt::nontrivial(cc >= 2);
      SAMPLE();
      EEI e = mk_eei(cc);
      EI const r = call_cat(cat, e, [&](auto &&x) { return fcppt::either::join(std::forward<decltype(x)>(x)); });
      int const want = cc < 2 ? cc : cc - 2;
      CK(code(r) == want, "either::join:result", "got %s want %s", sh(code(r)).c_str(), sh(want).c_str());
      if (cat < 2)
        CK(code(e) == cc, "either::join:source_modified", "lvalue source is now %s", sh2(code(e)).c_str());
      EI const rb = fcppt::either::bind(mk_eei(cc), [](EI a) { return a; });
      CK(code(rb) == code(r), "either::law:join_is_bind_id", "join %s bind(id) %s", sh(code(r)).c_str(), sh(code(rb)).c_str());
    }
  for (int x = 0; x < 3; ++x)
    for (int f = 0; f < 125; ++f)
    {
      if (!vrt::begin("either::law_left_identity<x,f>", x, f))
        continue;
      tab const t = decode(f, 5, 3);
      auto desc = [&] { return "either: bind(make_success(" + std::to_string(x) + "), f) vs f(x), f=" + show_tab(t, sh); };
      vrt::nontrivial(true);
      SAMPLE();
      probe p;
      auto const fn = fn1<D, EI>(t, p, mk_ei);
      EI const lhs = fcppt::either::bind(fcppt::either::make_success<E>(D{x}), fn);
      CK(code(lhs) == t[x] && p.is(1, x), "either::law:left_identity", "got %s want %s; %s", sh(code(lhs)).c_str(), sh(t[x]).c_str(), p.show().c_str());
      EI const ret = fcppt::monad::return_<fcppt::either::error<E>>(D{x});
      CK(code(ret) == 2 + x, "monad::return_<either>", "got %s", sh(code(ret)).c_str());
      probe q;
      EI const lhs2 = fcppt::monad::bind(fcppt::monad::return_<EI>(D{x}), fn1<D, EI>(t, q, mk_ei));
      CK(code(lhs2) == t[x] && q.is(1, x), "monad::law<either>:left_identity", "got %s", sh(code(lhs2)).c_str());
    }
  for (int c = 0; c < 5; ++c)
  {
    if (!vrt::begin("either::law_right_identity<c>", c))
      continue;
    auto desc = [&] { return "either: bind(" + sh(c) + ", make_success)"; };
    vrt::nontrivial(c >= 2);
    EI const r = fcppt::either::bind(mk_ei(c), [](D a) { return fcppt::either::make_success<E>(std::move(a)); });
    CK(code(r) == c, "either::law:right_identity", "got %s", sh(code(r)).c_str());
    EI const r2 = fcppt::monad::bind(mk_ei(c), [](D a) { return fcppt::monad::return_<EI>(std::move(a)); });
    CK(code(r2) == c, "monad::law<either>:right_identity", "got %s", sh(code(r2)).c_str());
  }
}

void sh_assoc(int part, int nparts)
{
  for (int c = 0; c < 5; ++c)
    for (int f = 0; f < 125; ++f)
    {
      if (f % nparts != part)
        continue;
      for (int g = 0; g < 125; ++g)
      {
        if (!vrt::begin("either::law_associativity<c,f,g>", c, f, g))
          continue;
        tab const tf = decode(f, 5, 3), tg = decode(g, 5, 3);
        auto desc = [&]
        { return "either: bind(bind(" + sh(c) + ", f), g) vs bind(c, x->bind(f(x), g)) vs monad::chain(c,f,g), f=" + show_tab(tf, sh) + " g=" + show_tab(tg, sh); };
        int const mid = c < 2 ? c : tf[c - 2];
        int const want = mid < 2 ? mid : tg[mid - 2];
        vrt::nontrivial(mid >= 2);
        SAMPLE();
        probe pf1, pg1, pf2, pg2, pf3, pg3;
        auto const f2 = fn1<D, EI>(tf, pf2, mk_ei);
        auto const g2 = fn1<D, EI>(tg, pg2, mk_ei);
        EI const lhs = fcppt::either::bind(fcppt::either::bind(mk_ei(c), fn1<D, EI>(tf, pf1, mk_ei)), fn1<D, EI>(tg, pg1, mk_ei));
        EI const rhs = fcppt::either::bind(mk_ei(c), [&](D a) { return fcppt::either::bind(f2(std::move(a)), g2); });
        EI const ch = fcppt::monad::chain(mk_ei(c), fn1<D, EI>(tf, pf3, mk_ei), fn1<D, EI>(tg, pg3, mk_ei));
        CK(code(lhs) == code(rhs) && code(lhs) == want, "either::law:associativity", "lhs %s rhs %s want %s", sh(code(lhs)).c_str(), sh(code(rhs)).c_str(),
           sh(want).c_str());
        CK(code(ch) == want, "monad::chain<either>:result", "got %s want %s", sh(code(ch)).c_str(), sh(want).c_str());
        bool const calls_ok = pf1.is(c >= 2, c - 2) && pf2.is(c >= 2, c - 2) && pf3.is(c >= 2, c - 2) && pg1.is(c >= 2 && mid >= 2, mid - 2) &&
                              pg2.is(c >= 2 && mid >= 2, mid - 2) && pg3.is(c >= 2 && mid >= 2, mid - 2);
        CK(calls_ok, "either::law:associativity_calls", "f: %s / %s / %s; g: %s / %s / %s", pf1.show().c_str(), pf2.show().c_str(), pf3.show().c_str(),
           pg1.show().c_str(), pg2.show().c_str(), pg3.show().c_str());
      }
    }
}

// monad::do_ on either: h(x,y) = table over the 9 pairs: 0 -> failure 0, 1 -> failure 1, 2 -> success(3x+y)  (quick: codomain {0,2})
void sh_do(int part, int nparts)
{
  using EInt = fcppt::either::object<E, int>;
  int const hb = vrt::thorough() ? 3 : 2;
  int const nh = ipow(hb, 9);
  for (int h = 0; h < nh; ++h)
  {
    if (h % nparts != part)
      continue;
    if (vrt::out_of_time())
      return;
    tab th = decode(h, hb, 9);
    if (hb == 2)
      for (int i = 0; i < 9; ++i)
        th.d[i] *= 2;
    // f ranges over the 5 constant-free "shapes" that matter to do_: all 125 tables in the thorough tier, the 25 tables with f(2)=success 0 in quick
    int const nf = vrt::thorough() ? 125 : 25;
    for (int c = 0; c < 5; ++c)
      for (int f0 = 0; f0 < nf; ++f0)
      {
        int const f = vrt::thorough() ? f0 : f0 + 2 * 25;
        if (!vrt::begin("monad::do_<either><c,f,h>", c, f, h))
          continue;
        tab const tf = decode(f, 5, 3);
        auto desc = [&]
        { return "monad::do_(" + sh(c) + ", f, (x,y)->h[3x+y]: 0/1 failure, 2 success(3x+y)), f=" + show_tab(tf, sh) + " h=" + show_tab(th, show_int); };
        int const mid = c < 2 ? c : tf[c - 2];
        int const pair = (c >= 2 && mid >= 2) ? (c - 2) * 3 + (mid - 2) : -1;
        // expected: code -1/-2 = failure 0/1, >= 0 success payload
        int const want = c < 2 ? -1 - c : (mid < 2 ? -1 - mid : (th[pair] < 2 ? -1 - th[pair] : pair));
        vrt::nontrivial(pair >= 0);
        SAMPLE();
        probe pf, ph;
        EInt const r = fcppt::monad::do_(mk_ei(c), fn1<D, EI>(tf, pf, mk_ei),
                                         [&](D const &x, D const &y)
                                         {
                                           bool const ok = x.ok() && y.ok();
                                           int const i = ok ? x.v * 3 + y.v : -1;
                                           ph.hit(i, ok);
                                           return th[i] < 2 ? EInt{E{th[i]}} : EInt{i};
                                         });
        int const got = r.has_success() ? r.get_success_unsafe() : -1 - r.get_failure_unsafe().v;
        CK(got == want, "monad::do_<either>:result", "got %d want %d", got, want);
        CK(pf.is(c >= 2, c - 2) && ph.is(pair >= 0, pair), "monad::do_<either>:calls", "f %s h %s", pf.show().c_str(), ph.show().c_str());
      }
  }
}

// ------------------------------------------------------------------ apply
void sh_apply_binary(int part, int nparts)
{
  int const base = bin_base();
  int const ntab = ipow(base, 9);
  for (int f = 0; f < ntab; ++f)
  {
    if (f % nparts != part)
      continue;
    if (vrt::out_of_time())
      return;
    tab const t = decode(f, base, 9);
    for (int a = 0; a < 5; ++a)
      for (int b = 0; b < 5; ++b)
        for (int cats = 0; cats < 9; ++cats)
        {
          int const ca = cats % 3, cb = cats / 3;
          if (!vrt::begin("either::apply<f,a,b,cat_a,cat_b>", f, a, b, ca, cb))
            continue;
          auto desc = [&]
          {
            return std::string("either::apply(f=") + show_tab(t, show_int) + " [index 3x+y], " + sh(a) + " as " + cat_name(ca) + ", " + sh(b) + " as " + cat_name(cb) + ")";
          };
          bool const both = a >= 2 && b >= 2;
          int const idx = both ? (a - 2) * 3 + (b - 2) : -1;
          vrt::nontrivial(both || (a < 2 && b < 2));
          SAMPLE();
          probe p;
          auto const fn = fn2<D, D, D>(t, p, mk_d);
          EI ea = mk_ei(a), eb = mk_ei(b);
          EI const r = call_cat(ca, ea,
                                [&](auto &&x)
                                {
                                  return call_cat(cb, eb,
                                                  [&](auto &&y) { return fcppt::either::apply(fn, std::forward<decltype(x)>(x), std::forward<decltype(y)>(y)); });
                                });
          // documented: the failure with the smallest index, else f(s1,s2)
          int const want = a < 2 ? a : (b < 2 ? b : 2 + t[idx]);
          CK(code(r) == want, "either::apply:result", "got %s want %s", sh(code(r)).c_str(), sh(want).c_str());
          CK(p.is(both, idx), "either::apply:calls", "%s", p.show().c_str());
          CK((ca == 2 || code(ea) == a) && (cb == 2 || code(eb) == b), "either::apply:source_modified", "lvalue sources now %s, %s", sh(code(ea)).c_str(),
             sh(code(eb)).c_str());
          if (cats == 0)
          {
            probe q;
            auto const fq = fn2<D, D, D>(t, q, mk_d);
            EI const viam = fcppt::either::bind(mk_ei(a), [&](D x) { return fcppt::either::map(mk_ei(b), [&](D y) { return fq(x, std::move(y)); }); });
            CK(code(viam) == code(r), "either::law:apply_is_bind_map", "apply %s, bind/map %s", sh(code(r)).c_str(), sh(code(viam)).c_str());
          }
        }
  }
}

void sh_apply_other()
{
  for (int cat = 0; cat < 3; ++cat)
    for (int c = 0; c < 5; ++c)
      for (int f = 0; f < 27; ++f)
      {
        if (!vrt::begin("either::apply1<cat,c,f>", cat, c, f))
          continue;
        tab const t = decode(f, 3, 3);
        auto desc = [&] { return std::string("either::apply(") + show_tab(t, show_int) + ", " + sh(c) + " as " + cat_name(cat) + ")"; };
        vrt::nontrivial(c >= 2);
        SAMPLE();
        probe p;
        auto const fn = fn1<D, D>(t, p, mk_d);
        EI e = mk_ei(c);
        EI const r = call_cat(cat, e, [&](auto &&x) { return fcppt::either::apply(fn, std::forward<decltype(x)>(x)); });
        int const want = c < 2 ? c : 2 + t[c - 2];
        CK(code(r) == want, "either::apply1:result", "got %s want %s", sh(code(r)).c_str(), sh(want).c_str());
        CK(p.is(c >= 2, c - 2), "either::apply1:calls", "%s", p.show().c_str());
        if (cat < 2)
          CK(code(e) == c, "either::apply1:source_modified", "lvalue source is now %s", sh(code(e)).c_str());
      }
  using EInt = fcppt::either::object<E, int>;
  for (int cats = 0; cats < 27; ++cats)
    for (int a = 0; a < 5; ++a)
      for (int b = 0; b < 5; ++b)
        for (int c = 0; c < 5; ++c)
        {
          if (!vrt::begin("either::apply3<cats,a,b,c>", cats, a, b, c))
            continue;
          int const ca = cats % 3, cb = (cats / 3) % 3, cc = cats / 9;
          auto desc = [&]
          {
            return std::string("either::apply((x,y,z)->9x+3y+z, ") + sh(a) + " as " + cat_name(ca) + ", " + sh(b) + " as " + cat_name(cb) + ", " + sh(c) + " as " +
                   cat_name(cc) + ")";
          };
          bool const all = a >= 2 && b >= 2 && c >= 2;
          int const idx = all ? (a - 2) * 9 + (b - 2) * 3 + (c - 2) : -1;
          int const want = a < 2 ? -1 - a : (b < 2 ? -1 - b : (c < 2 ? -1 - c : idx));
          vrt::nontrivial((a < 2) + (b < 2) + (c < 2) != 1);
          SAMPLE();
          probe p;
          auto const fn = [&p](D x, D y, D z) -> int
          {
            bool const ok = x.ok() && y.ok() && z.ok();
            int const i = ok ? x.v * 9 + y.v * 3 + z.v : -1;
            p.hit(i, ok);
            return i;
          };
          EI ea = mk_ei(a), eb = mk_ei(b), ec = mk_ei(c);
          EInt const r = call_cat(
              ca, ea,
              [&](auto &&x)
              {
                return call_cat(cb, eb,
                                [&](auto &&y)
                                {
                                  return call_cat(cc, ec,
                                                  [&](auto &&z) {
                                                    return fcppt::either::apply(fn, std::forward<decltype(x)>(x), std::forward<decltype(y)>(y),
                                                                                std::forward<decltype(z)>(z));
                                                  });
                                });
              });
          int const got = r.has_success() ? r.get_success_unsafe() : -1 - r.get_failure_unsafe().v;
          CK(got == want, "either::apply3:result", "got %d want %d (negative: failure -1-e)", got, want);
          CK(p.is(all, idx), "either::apply3:calls", "%s", p.show().c_str());
          CK((ca == 2 || code(ea) == a) && (cb == 2 || code(eb) == b) && (cc == 2 || code(ec) == c), "either::apply3:source_modified", "lvalue sources now %s, %s, %s",
             sh(code(ea)).c_str(), sh(code(eb)).c_str(), sh(code(ec)).c_str());
        }
}

// ------------------------------------------------------------------ sequence / first_success / loop / sequence_error
// can either::sequence be called with this value category at all?  (evaluated in a template so that a
// rejected constraint is `false`, not a hard error)
template <class V>
constexpr bool seq_callable = requires { fcppt::either::sequence<std::vector<D>>(std::declval<V>()); };

struct thunk
{
  int result;
  probe *p;
  EI operator()() const
  {
    p->hit(result);
    return mk_ei(result);
  }
};

void sh_containers()
{
  auto const seqs = all_seqs(5, max_len());
  for (int cat = 0; cat < 3; ++cat)
    for (std::size_t si = 0; si < seqs.size(); ++si)
    {
      std::vector<int> const &s = seqs[si];
      bool const cat_callable = cat == 0   ? seq_callable<std::vector<EI> const &>
                                : cat == 1 ? seq_callable<std::vector<EI> &>
                                           : seq_callable<std::vector<EI> &&>;
      if (!cat_callable)
      {
        // the requires-clause of either::sequence rejects this value category at compile time: one case per category
        if (si == 0 && vrt::begin("either::sequence<callable with cat>", cat))
        {
          auto desc = [&] { return std::string("either::sequence<std::vector<D>>(std::vector<either<E,D>> ") + cat_name(cat) + ") must be callable"; };
          CK(false, "either::sequence:lvalue_not_callable", "either::sequence<ResultContainer>(Source %s) is rejected by its requires-clause", cat_name(cat));
        }
        continue;
      }
      if (!vrt::begin("either::sequence<cat,seq>", cat, si))
        continue;
      auto desc = [&] { return std::string("either::sequence(") + show_seq(s, sh) + " as " + cat_name(cat) + ")"; };
      int first_fail = -1;
      std::vector<int> succ;
      for (int c : s)
      {
        if (c < 2 && first_fail < 0)
          first_fail = c;
        if (c >= 2)
          succ.push_back(c - 2);
      }
      vrt::nontrivial(!s.empty());
      SAMPLE();
      std::vector<EI> src = mk_vec(s);
      using seq_result = fcppt::either::object<E, std::vector<D>>;
      seq_result const r = call_cat(cat, src,
                                    [&](auto &&x)
                                    {
                                      if constexpr (seq_callable<decltype(x)>)
                                        return fcppt::either::sequence<std::vector<D>>(std::forward<decltype(x)>(x));
                                      else
                                        return seq_result{E{0}}; // not reached (cat_callable)
                                    });
      if (first_fail >= 0)
        CK(r.has_failure() && r.get_failure_unsafe().v == first_fail, "either::sequence:failure", "want first failure %d, got %s", first_fail,
           r.has_failure() ? std::to_string(r.get_failure_unsafe().v).c_str() : "success");
      else
        CK(r.has_success() && vals(r.get_success_unsafe()) == succ, "either::sequence:success", "want %s, got %s", show_seq(succ, show_int).c_str(),
           r.has_success() ? show_seq(vals(r.get_success_unsafe()), show_int).c_str() : "failure");
      if (cat < 2)
        CK(codes(src) == s, "either::sequence:source_modified", "lvalue source is now %s", show_seq(codes(src), sh).c_str());
    }
  for (std::size_t si = 0; si < seqs.size(); ++si)
  {
    std::vector<int> const &s = seqs[si];
    if (!vrt::begin("either::first_success<seq>", si))
      continue;
    auto desc = [&] { return std::string("either::first_success(functions returning ") + show_seq(s, sh) + ")"; };
    vrt::nontrivial(!s.empty());
    SAMPLE();
    std::vector<probe> probes(s.size());
    std::vector<thunk> fns;
    for (std::size_t i = 0; i < s.size(); ++i)
      fns.push_back(thunk{s[i], &probes[i]});
    fcppt::either::object<std::vector<E>, D> const r = fcppt::either::first_success(fns);
    std::size_t first = s.size();
    std::vector<int> fails;
    for (std::size_t i = 0; i < s.size(); ++i)
    {
      if (s[i] >= 2)
      {
        first = i;
        break;
      }
      fails.push_back(s[i]);
    }
    if (first < s.size())
      CK(r.has_success() && r.get_success_unsafe().v == s[first] - 2, "either::first_success:success", "want success %d, got %s", s[first] - 2,
         r.has_success() ? std::to_string(r.get_success_unsafe().v).c_str() : "failure");
    else
      CK(r.has_failure() && vals(r.get_failure_unsafe()) == fails, "either::first_success:failures", "want failures %s, got %s", show_seq(fails, show_int).c_str(),
         r.has_failure() ? show_seq(vals(r.get_failure_unsafe()), show_int).c_str() : "success");
    for (std::size_t i = 0; i < s.size(); ++i)
      // the documentation fixes the result only ("let i be the smallest index such that f_i() returns success"), not how often
      // or whether the functions behind the first success are called -> information only
      INFO_ONLY(probes[i].calls == (i <= first ? 1 : 0), "either::first_success:calls");
  }
  // loop: next() yields the successes of `s` (values 0..2) in order, then the failure e for ever
  auto const runs = all_seqs(3, max_len());
  for (std::size_t si = 0; si < runs.size(); ++si)
    for (int e = 0; e < 2; ++e)
    {
      std::vector<int> const &s = runs[si];
      if (!vrt::begin("either::loop<successes,failure>", si, e))
        continue;
      auto desc = [&] { return std::string("either::loop(next yields successes ") + show_seq(s, show_int) + " then failure " + std::to_string(e) + ")"; };
      vrt::nontrivial(!s.empty());
      SAMPLE();
      std::size_t pos = 0;
      int next_calls = 0;
      std::vector<int> seen;
      bool bad = false;
      auto const next = [&]() -> EI
      {
        ++next_calls;
        if (pos < s.size())
          return EI{D{s[pos++]}};
        return EI{E{e}};
      };
      auto const body = [&](D d)
      {
        bad = bad || !d.ok();
        seen.push_back(d.v);
      };
      E const r = fcppt::either::loop(next, body);
      CK(r.v == e, "either::loop:result", "got failure %d want %d", r.v, e);
      CK(seen == s && !bad, "either::loop:body_calls", "body saw %s", show_seq(seen, show_int).c_str());
      CK(next_calls == static_cast<int>(s.size()) + 1, "either::loop:next_calls", "next called %d times, want %zu", next_calls, s.size() + 1);
    }
  // loop over long runs (scale lattice): n successes, then the failure.  loop is documented as a loop; it has to return the
  // failure after any number of successes (an implementation whose stack use grows with n dies here under ASan)
  for (long n : {0L, 1L, 2L, 16L, 1000L, 65536L, 1000000L, 4000000L})
  {
    if (!vrt::begin("either::loop<long run>", n))
      continue;
    auto desc = [&] { return std::string("either::loop(next yields ") + std::to_string(n) + " successes, then failure 1)"; };
    vrt::nontrivial(n >= 1000);
    long produced = 0, consumed = 0;
    bool bad = false;
    auto const next = [&]() -> EI
    {
      if (produced < n)
      {
        ++produced;
        return EI{D{static_cast<int>(produced % 3)}};
      }
      return EI{E{1}};
    };
    auto const body = [&](D d)
    {
      ++consumed;
      bad = bad || !d.ok() || d.v != static_cast<int>(consumed % 3);
    };
    E const r = fcppt::either::loop(next, body);
    CK(r.v == 1 && consumed == n && !bad, "either::loop:long_run", "failure %d, body ran %ld times for %ld successes", r.v, consumed, n);
  }
  // sequence_error: f maps each element to no_error / failure 0 / failure 1 (27 tables); stops at the first failure
  for (int cat = 0; cat < 3; ++cat)
    for (std::size_t si = 0; si < runs.size(); ++si)
      for (int f = 0; f < 27; ++f)
      {
        std::vector<int> const &s = runs[si];
        if (!vrt::begin("either::sequence_error<cat,seq,f>", cat, si, f))
          continue;
        tab const t = decode(f, 3, 3);
        auto desc = [&] { return std::string("either::sequence_error(") + show_seq(s, show_int) + " as " + cat_name(cat) + ", f=" + show_tab(t, sh_err) + ")"; };
        std::vector<int> want_calls;
        int want = 0;
        for (int x : s)
        {
          want_calls.push_back(x);
          if (t[x] != 0)
          {
            want = t[x];
            break;
          }
        }
        vrt::nontrivial(!s.empty());
        SAMPLE();
        std::vector<int> seen;
        bool bad = false;
        auto const fn = [&](D d) -> ERR
        {
          bad = bad || !d.ok();
          seen.push_back(d.v);
          return mk_err(t[d.v]);
        };
        std::vector<D> src;
        for (int x : s)
          src.push_back(D{x});
        ERR const r = call_cat(cat, src, [&](auto &&x) { return fcppt::either::sequence_error(std::forward<decltype(x)>(x), fn); });
        CK(code(r) == want, "either::sequence_error:result", "got %s want %s", sh_err(code(r)).c_str(), sh_err(want).c_str());
        CK(seen == want_calls && !bad, "either::sequence_error:calls", "f saw %s want %s", show_seq(seen, show_int).c_str(), show_seq(want_calls, show_int).c_str());
        if (cat < 2)
          CK(vals(src) == s, "either::sequence_error:source_modified", "lvalue source is now %s", show_seq(vals(src), show_int).c_str());
      }
}

} // namespace

void c04_either_shards()
{
  vrt::shard("either/object", [] { sh_object(); });
  vrt::shard("either/match_misc", [] { sh_match(); });
  vrt::shard("either/map", [] { sh_map(); });
  vrt::shard("either/bind_join", [] { sh_bind(); });
  for (int p = 0; p < 4; ++p)
    vrt::shard("either/associativity/" + std::to_string(p), [p] { sh_assoc(p, 4); });
  for (int p = 0; p < 6; ++p)
    vrt::shard("either/monad_do/" + std::to_string(p), [p] { sh_do(p, 6); });
  for (int p = 0; p < 8; ++p)
    vrt::shard("either/apply_binary/" + std::to_string(p), [p] { sh_apply_binary(p, 8); });
  vrt::shard("either/apply_other", [] { sh_apply_other(); });
  vrt::shard("either/containers", [] { sh_containers(); });
}

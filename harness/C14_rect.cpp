// C14_rect.cpp (shapes 2x3, 3x2) -- rectangular matrices: an implementation that confuses rows and
// columns (strides, index_absolute, row views, result shapes) is invisible on square
// operands.  Shapes 1x2 .. 4x3; families: every matrix over a small entry set for the
// small shapes, all matrices with <= 2 non-zero entries from {-1,1} plus a matrix with
// pairwise different entries for the larger ones.
#include "C14_matrix.hpp"

namespace c14
{
namespace
{
template <sz R, sz C> std::vector<rmat<R, C>> structured(int maxnz)
{
  rmat<R, C> ones;
  ones.d.fill(1);
  return concat_unique<rmat<R, C>>({sparse_over<R, C>(maxnz, {1, -1}), {distinct_matrix<R, C>(1, 0), distinct_matrix<R, C>(2, 1), ones}});
}
template <sz R, sz C> std::vector<rmat<R, C>> full_or_structured(std::vector<long> const &vals, int quick_nz)
{
  return vrt::thorough() ? all_over<R, C>(vals) : structured<R, C>(quick_nz);
}
std::vector<long> const pm1{-1, 0, 1};
}

void register_rect()
{
  vrt::shard("rect/unary/2x3_3x2", [] {
    shape_unary_all<2, 3>(make_ops(all_over<2, 3>(pm1)), {-2, -1, 0, 1, 3});
    shape_unary_all<3, 2>(make_ops(all_over<3, 2>(pm1)), {-2, -1, 0, 1, 3});
  });
  for (unsigned p = 0; p < 4; ++p)
  {
    vrt::shard("rect/product/2x3.3x2/" + std::to_string(p), [p] {
      product_pairs_all<2, 3, 2>(make_ops(full_or_structured<2, 3>(pm1, 2)), make_ops(full_or_structured<3, 2>(pm1, 2)), p, 4);
    });
    vrt::shard("rect/sum/2x3/" + std::to_string(p), [p] { sum_pairs_all<2, 3>(make_ops(full_or_structured<2, 3>(pm1, 2)), p, 4); });
  }
  vrt::shard("rect/matvec/small", [] {
    matvec_all<2, 3>(make_ops(all_over<2, 3>(pm1)), all_vectors<3>(-1, 1));
    matvec_all<3, 2>(make_ops(all_over<3, 2>(pm1)), all_vectors<2>(-2, 2));
  });
  vrt::shard("rect/assoc/small", [] {
    // (2x3 * 3x3) * 3x2 = 2x3 * (3x3 * 3x2): no product with more rows than columns on the left (those are in C14b)
    int const nz = vrt::thorough() ? 2 : 1;
    rect_assoc<2, 3, 3, 2>(make_ops(structured<2, 3>(nz)), make_ops(structured<3, 3>(nz)), make_ops(structured<3, 2>(nz)));
  });
  vrt::shard("rect/matvec_laws", [] {
    int const nz = vrt::thorough() ? 2 : 1;
    matvec_laws<2, 3, 2>(make_ops(structured<2, 3>(nz)), make_ops(structured<3, 2>(nz)), all_vectors<2>(-1, 1), 0, 1);
  });
}
}
